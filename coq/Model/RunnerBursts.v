(** Poll granularity of [Runner.wait] (C08): several environment events may fall
    between two consecutive iterations of the wait loop (the loop sleeps
    [input_sleep] seconds between two polls).  [RunnerSM.run_sm] lets the main
    thread run after every single event; here the script is a list of BURSTS and
    the main thread runs once per burst:

      while True:
          proc_finished = self.process_is_finished      (* the poll: the only place the child is reaped *)
          dead_threads = self.has_dead_threads
          if proc_finished or dead_threads: break
          time.sleep(self.input_sleep)                   (* <- a burst happens here *)

    The loop evaluates [process_is_finished] in EVERY iteration, before it looks
    at the workers: [advance] in state [PWait] first asks [s_proc] (and reaps),
    only then [any_dead].  So a worker that dies in the same burst in which the
    process ends does not keep the child from being reaped -- in contrast to a
    death one iteration earlier (F-C08d).

    A burst is atomic only while the main thread is still in the wait loop and
    only for events that are not themselves tied to a poll (interrupts) or to the
    stdin worker's own pace; otherwise its events are taken one at a time, as in
    [run_sm].  No proofs here. *)
From InvokeVerif Require Export Model.RunnerSM.

Definition in_wait (k : ctl) : bool := match s_pc k with PWait => true | _ => false end.

Definition plain (e : ev) : bool :=
  match e with
  | EKbd | EExitKbd _ | EChunk WIn | EEof WIn => false
  | _ => true
  end.

(** an event happens, the main thread does not move *)
Definition note (c : cfg) (s : st) (e : ev) : st :=
  let s1 := apply_ev c s e in (fst s1, add_steps 1 (snd s1)).

Definition step_burst (c : cfg) (s : st) (b : list ev) : st :=
  if in_wait (fst s) && forallb plain b then advance c (fold_left (note c) b s)
  else fold_left (step c) b s.

Definition run_burst_events (c : cfg) (s : st) (bs : list (list ev)) : st := fold_left (step_burst c) bs s.

Definition run_bursts (c : cfg) (bs : list (list ev)) : st :=
  drain c (run_burst_events c (advance c (init c)) bs).

(** a flat script cut into bursts of the given sizes; what is left when the sizes
    run out is one event per burst *)
Fixpoint group (script : list ev) (sizes : list nat) : list (list ev) :=
  match sizes with
  | [] => map (fun e => [e]) script
  | n :: r =>
      match script with
      | [] => []
      | _ => firstn n script :: group (skipn n script) r
      end
  end.
