(** invoke/config.py: merge_dicts, copy_dict, excise, obliterate.
    Faithful to the code, including the unguarded indexing in obliterate
    (modelled by [obliterate_raw]; [obliterate] is the repaired form, selected
    by what the code does -- see ConfigModel). *)
From InvokeVerif Require Export Common.Tree.

(** [merge_dicts base updates] (mutation of [base] becomes the returned dict).
    Structural on [updates]. *)
Fixpoint merge_dicts (base : dict) (updates : tree) {struct updates} : result dict :=
  match updates with
  | Leaf _ => Ok base       (* never called on a leaf; [updates or {}] of a falsy value *)
  | Node us =>
      (fix go (us : list (string * tree)) (base : dict) {struct us} : result dict :=
         match us with
         | [] => Ok base
         | (k, v) :: rest =>
             match get k base with
             | Some bv =>
                 match v, bv with
                 | Node _, Node bkids =>
                     match merge_dicts bkids v with
                     | Ok m => go rest (set k (Node m) base)
                     | Err e => Err e
                     end
                 | Node _, Leaf _ => Err EAmbigMerge
                 | Leaf _, Node _ => Err EAmbigMerge
                 | Leaf x, Leaf _ => go rest (set k (Leaf x) base)
                 end
             | None =>
                 match v with
                 | Node _ =>
                     match merge_dicts [] v with
                     | Ok m => go rest (set k (Node m) base)
                     | Err e => Err e
                     end
                 | Leaf x => go rest (set k (Leaf x) base)
                 end
             end
         end) us base
  end.

(** One step of the loop, for stating lemmas. *)
Definition merge_step (base : dict) (k : string) (v : tree) : result dict :=
  match get k base with
  | Some bv =>
      match v, bv with
      | Node _, Node bkids =>
          match merge_dicts bkids v with
          | Ok m => Ok (set k (Node m) base)
          | Err e => Err e
          end
      | Node _, Leaf _ => Err EAmbigMerge
      | Leaf _, Node _ => Err EAmbigMerge
      | Leaf x, Leaf _ => Ok (set k (Leaf x) base)
      end
  | None =>
      match v with
      | Node _ =>
          match merge_dicts [] v with
          | Ok m => Ok (set k (Node m) base)
          | Err e => Err e
          end
      | Leaf x => Ok (set k (Leaf x) base)
      end
  end.

Fixpoint merge_list (us : list (string * tree)) (base : dict) : result dict :=
  match us with
  | [] => Ok base
  | (k, v) :: rest =>
      match merge_step base k v with
      | Ok b' => merge_list rest b'
      | Err e => Err e
      end
  end.

Lemma merge_dicts_Node us base : merge_dicts base (Node us) = merge_list us base.
Proof.
  cbn [merge_dicts]. revert base.
  induction us as [|[k v] rest IH]; intros base; [reflexivity|].
  cbn [merge_list]. unfold merge_step.
  destruct (get k base) as [bv|].
  - destruct v as [x|vk], bv as [y|bk]; try reflexivity; try apply IH.
    destruct (merge_dicts bk (Node vk)); [apply IH | reflexivity].
  - destruct v as [x|vk]; [apply IH|].
    destruct (merge_dicts [] (Node vk)); [apply IH | reflexivity].
Qed.

Definition copy_dict (source : tree) : result dict := merge_dicts [] source.

(** [excise dict_ keypath]: remove the key at [keypath] if present. *)
Fixpoint excise (d : dict) (p : path) : dict :=
  match p with
  | [] => d                               (* not called with an empty path *)
  | [k] => remove k d
  | k :: p' =>
      match get k d with
      | Some (Node kids) => set k (Node (excise kids p')) d
      | Some (Leaf _) => d   (* real code would raise TypeError on [in]; unreachable: deletions hold None leaves only at ends *)
      | None => d
      end
  end.

(** [obliterate base deletions] exactly as written: indexes [base[key]]
    unguarded, so a key absent from [base] raises KeyError. *)
Fixpoint obliterate_raw (base : dict) (deletions : tree) {struct deletions} : result dict :=
  match deletions with
  | Leaf _ => Ok base
  | Node ds =>
      (fix go (ds : list (string * tree)) (base : dict) {struct ds} : result dict :=
         match ds with
         | [] => Ok base
         | (k, v) :: rest =>
             match v with
             | Node _ =>
                 match get k base with
                 | Some (Node bk) =>
                     match obliterate_raw bk v with
                     | Ok b' => go rest (set k (Node b') base)
                     | Err e => Err e
                     end
                 | Some (Leaf _) => Err EType
                 | None => Err EKey
                 end
             | Leaf _ =>
                 match get k base with
                 | Some _ => go rest (remove k base)
                 | None => Err EKey
                 end
             end
         end) ds base
  end.

(** Guarded variant (after the fix: keys absent from [base] are skipped). *)
Fixpoint obliterate (base : dict) (deletions : tree) {struct deletions} : dict :=
  match deletions with
  | Leaf _ => base
  | Node ds =>
      (fix go (ds : list (string * tree)) (base : dict) {struct ds} : dict :=
         match ds with
         | [] => base
         | (k, v) :: rest =>
             match v with
             | Node _ =>
                 match get k base with
                 | Some (Node bk) => go rest (set k (Node (obliterate bk v)) base)
                 | _ => go rest base
                 end
             | Leaf _ => go rest (remove k base)
             end
         end) ds base
  end.
