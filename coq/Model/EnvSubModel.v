(** invoke/env.py, Environment._cast / load on settings whose value is an
    instance of a SUBCLASS of a builtin (class Hosts(list), a namedtuple,
    class Port(int), an IntEnum member, class Label(str), a str-mixin Enum
    member).  [_cast] dispatches with isinstance(): the branch is chosen by the
    builtin the class derives from; only the last branch,
    [old.__class__(new)], sees the class itself.  (bool and NoneType cannot be
    subclassed.)  [value] (Common/Tree.v) is kept as the base value; the class
    is an annotation beside it. *)
From InvokeVerif Require Export Model.EnvModel.

Inductive subkind :=
| SubPlain    (* a subclass whose constructor is the inherited one *)
| SubEnum.    (* an Enum mixin (IntEnum / str-Enum): the class call looks a member up by value *)

Inductive pyval :=
| Exact (v : value)                (* type(old) is the builtin itself *)
| Sub (k : subkind) (v : value).   (* instance of a subclass; [v] is the value it compares equal to *)

Definition base_of (o : pyval) : value := match o with Exact v | Sub _ v => v end.

(** isinstance(old, bool) / isinstance(old, str) / old is None /
    isinstance(old, (list, tuple)) / else old.__class__(new).
    IntEnum("5"): no member equals a string -> ValueError, whatever the text. *)
Definition cast_py (old : pyval) (new : string) : result value :=
  match old with
  | Sub SubEnum (VInt _) => Err EValue
  | _ => cast (base_of old) new
  end.

(** does the converted value belong to the subclass again?  only through
    [old.__class__(new)] *)
Definition keeps_class (old : pyval) : bool :=
  match old with Sub SubPlain (VInt _) => true | _ => false end.

Definition pentry := (string * (path * pyval))%type.

Fixpoint sub_at (p : path) (subs : list (path * subkind)) : option subkind :=
  match subs with
  | [] => None
  | (q, k) :: r => if path_eqb p q then Some k else sub_at p r
  end.

(** [subs]: the setting paths of the merged configuration whose value is a subclass instance *)
Definition annotate (subs : list (path * subkind)) (e : entry) : pentry :=
  (fst e, (fst (snd e), match sub_at (fst (snd e)) subs with
                        | Some k => Sub k (snd (snd e))
                        | None => Exact (snd (snd e))
                        end)).

Fixpoint apply_vars_py (pfx : string) (env : environ) (vars : list pentry) (data : dict)
  : result dict :=
  match vars with
  | [] => Ok data
  | (var, (p, old)) :: rest =>
      match env_get (pfx ++ var) env with
      | Some s =>
          match cast_py old s with
          | Ok v => apply_vars_py pfx env rest (path_set data p v)
          | Err e => Err e
          end
      | None => apply_vars_py pfx env rest data
      end
  end.

(** the crawl only carries values along; the class matters in [_cast] alone *)
Definition load_py (t : tree) (subs : list (path * subkind)) (pfx : string) (env : environ)
  : result dict :=
  match crawl [] t with
  | Err e => Err e
  | Ok vars => apply_vars_py pfx env (map (annotate subs) vars) []
  end.
