(** What [Runner.read_our_stdin] asks of the object it was given as [in_stream],
    by kind of object (C13).

    [read_our_stdin] looks at the object in two places only:
      readiness  [ready_for_reading]: no usable [fileno()] -> always ready; otherwise
                 [select()] on the descriptor (OS contract: a regular file, and a pipe
                 whose writer has written everything and closed, are always ready);
      size       [bytes_to_read]: FIONREAD only for a terminal WITH a descriptor,
                 otherwise 1;
    and then calls [input_.read(size)] on the object ITSELF -- its text layer, whatever
    it is (StringIO, a text file opened with some encoding and newline mode, the read
    end of a pipe wrapped in a TextIOWrapper, a duck-typed object with [fileno()] and
    [read()]).  So for a stream that is not a terminal the reads return the stream's
    text (what its text layer yields: decoded with the FILE's encoding, newlines
    translated as the file was opened) one character at a time, then the empty value.

    [real_script k p t]: the read script of such a stream holding the text [t], with
    the command finishing before read number [p] (an always-ready stream: there is no
    [SNotReady]).  No proofs here. *)
From InvokeVerif Require Export Model.StdinModel.
Local Open Scope N_scope.

Inductive stream_kind :=
| KMemory      (* in-memory text stream (io.StringIO): no descriptor *)
| KFile        (* regular file opened in text mode *)
| KPipe        (* read end of an os.pipe wrapped in a TextIOWrapper; writer done and closed *)
| KProxy.      (* object with fileno() and read() delegating to a text file; no .buffer *)

Definition has_fileno (k : stream_kind) : bool :=
  match k with KMemory => false | _ => true end.

(** [bytes_to_read]: the number of pending bytes for a terminal with a descriptor, 1 otherwise. *)
Definition read_size (k : stream_kind) (tty : bool) (pending : nat) : nat :=
  if tty && has_fileno k then pending else 1%nat.

(** [input_.read(sz)] until the text is used up ([fuel] = number of reads allowed). *)
Fixpoint reads_of (sz : nat) (fuel : nat) (t : text) : list sread :=
  match fuel with
  | O => []
  | S f => match t with
           | [] => []
           | _ => SData (firstn sz t) :: reads_of sz f (skipn sz t)
           end
  end.

(** A stream that is not a terminal: characters one by one, then the empty value. *)
Definition stream_reads (k : stream_kind) (t : text) : list sread :=
  reads_of (read_size k false 0) (List.length t) t ++ [SEof].

(** [program_finished] becomes set before read number [p] (after the last one when [p] is large). *)
Definition insert_finish (p : nat) (s : list sread) : list sread :=
  firstn p s ++ SFinish :: skipn p s.

Definition real_script (k : stream_kind) (p : nat) (t : text) : list sread :=
  insert_finish p (stream_reads k t).

(** The stdin side of a run whose input stream is a real (non-terminal) text stream of kind [k]. *)
Definition real_in (k : stream_kind) (e : enc) (echo : option bool) (pty : bool) (p : nat) (t : text)
  : stdin_in :=
  mkSin e (Some (MText, false)) echo pty (real_script k p t) [].
