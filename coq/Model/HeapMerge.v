(** invoke/config.py: merge_dicts / copy_dict / clone's per-level copy on an
    explicit heap of dict objects, so that object identity (sharing, "which
    object was written") can be stated -- the pure model (MergeModel.v) cannot.

    A heap is a list of dict nodes; the address of a node is its index.  A node
    is an insertion-ordered list of (key, value); a value is an immutable leaf
    or a reference to a node.  Allocation appends.  Nothing is ever freed.

    [merge_h fuel b u h] is [merge_dicts(base, updates)] with [base], [updates]
    the dict objects at addresses [b], [u]: it MUTATES node [b] (and the nodes
    reachable from it along keys that [u] also has as dicts), allocates fresh
    nodes through [copy_dict] for dict values new to [base], and stores leaves
    as they are ([copy.copy] of an immutable leaf).  The loop iterates over the
    live [updates] object like Python does: a dict that changes size while it is
    iterated (possible only when [updates] is itself reachable from [base])
    raises RuntimeError (here [EOther]).  Recursion through the heap needs fuel
    (a heap may be cyclic); running out of fuel is [EOther] as well. *)
From InvokeVerif Require Export Common.Tree Common.StrUtil.

Definition addr := nat.
Inductive hval := HLeaf (v : value) | HRef (a : addr).
Definition hnode := list (string * hval).
Definition heap := list hnode.

Definition hget (h : heap) (a : addr) : option hnode := nth_error h a.

Fixpoint hset (h : heap) (a : addr) (n : hnode) : heap :=
  match h, a with
  | [], _ => []
  | _ :: t, O => n :: t
  | x :: t, S a' => x :: hset t a' n
  end.

Definition halloc (h : heap) (n : hnode) : addr * heap := (List.length h, h ++ [n]).

(** Association lists with dict semantics ([d[k] = v] keeps the position of an
    existing key, appends a new one). *)
Fixpoint aget (k : string) (n : hnode) : option hval :=
  match n with
  | [] => None
  | (k', v) :: n' => if String.eqb k k' then Some v else aget k n'
  end.

Fixpoint aset (k : string) (v : hval) (n : hnode) : hnode :=
  match n with
  | [] => [(k, v)]
  | (k', v') :: n' => if String.eqb k k' then (k', v) :: n' else (k', v') :: aset k v n'
  end.

Fixpoint aremove (k : string) (n : hnode) : hnode :=
  match n with
  | [] => []
  | (k', v') :: n' => if String.eqb k k' then n' else (k', v') :: aremove k n'
  end.

(** * merge_dicts *)
Fixpoint merge_h (fuel : nat) (b u : addr) (h : heap) {struct fuel} : result heap :=
  match fuel with
  | O => Err EOther
  | S f =>
      match hget h u with
      | None => Err EOther
      | Some un =>
          (fix loop (ks : list string) (h : heap) {struct ks} : result heap :=
             match ks with
             | [] =>
                 (* the iterator notices a size change on its last step too *)
                 match hget h u with
                 | Some un' => if Nat.eqb (List.length un') (List.length un) then Ok h else Err EOther
                 | None => Err EOther
                 end
             | k :: rest =>
                 match hget h u, hget h b with
                 | Some un', Some bn =>
                     if negb (Nat.eqb (List.length un') (List.length un)) then Err EOther
                     else
                       match aget k un' with
                       | None => Err EOther
                       | Some v =>
                           match aget k bn, v with
                           | Some (HRef bc), HRef uc =>
                               match merge_h f bc uc h with
                               | Ok h' => loop rest h'
                               | Err e => Err e
                               end
                           | Some (HLeaf _), HRef _ => Err EAmbigMerge
                           | Some (HRef _), HLeaf _ => Err EAmbigMerge
                           | Some (HLeaf _), HLeaf x => loop rest (hset h b (aset k (HLeaf x) bn))
                           | None, HLeaf x => loop rest (hset h b (aset k (HLeaf x) bn))
                           | None, HRef uc =>
                               (* base[key] = copy_dict(value) *)
                               let '(na, h1) := halloc h [] in
                               match merge_h f na uc h1 with
                               | Err e => Err e
                               | Ok h2 =>
                                   match hget h2 b with
                                   | Some bn2 => loop rest (hset h2 b (aset k (HRef na) bn2))
                                   | None => Err EOther
                                   end
                               end
                           end
                       end
                 | _, _ => Err EOther
                 end
             end) (map fst un) h
      end
  end.

(** [copy_dict(source)] = [merge_dicts({}, source)]: returns the new object. *)
Definition copy_h (fuel : nat) (src : addr) (h : heap) : result (addr * heap) :=
  let '(na, h1) := halloc h [] in
  match merge_h fuel na src h1 with
  | Ok h2 => Ok (na, h2)
  | Err e => Err e
  end.

(** [clone()]'s treatment of the dict-valued attributes: the new object's
    attribute is a fresh [{}] into which the original's is merged; [defaults] is
    [copy_dict] of the original's.  Both are [copy_h].  [roots] are the
    addresses of the original's level dicts, in order. *)
Fixpoint clone_levels_h (fuel : nat) (roots : list addr) (h : heap) : result (list addr * heap) :=
  match roots with
  | [] => Ok ([], h)
  | r :: rest =>
      match copy_h fuel r h with
      | Err e => Err e
      | Ok (a, h1) =>
          match clone_levels_h fuel rest h1 with
          | Err e => Err e
          | Ok (l, h2) => Ok (a :: l, h2)
          end
      end
  end.

(** * excise / obliterate on the heap (same shape as the Python loops) *)
Fixpoint excise_h (h : heap) (d : addr) (p : path) : heap :=
  match p with
  | [] => h
  | [k] => match hget h d with Some n => hset h d (aremove k n) | None => h end
  | k :: p' =>
      match hget h d with
      | Some n => match aget k n with Some (HRef c) => excise_h h c p' | _ => h end
      | None => h
      end
  end.

Fixpoint obliterate_h (fuel : nat) (b del : addr) (h : heap) {struct fuel} : heap :=
  match fuel with
  | O => h
  | S f =>
      match hget h del with
      | None => h
      | Some dn =>
          fold_left (fun h kv =>
                       match hget h b with
                       | None => h
                       | Some bn =>
                           match snd kv with
                           | HRef dc => match aget (fst kv) bn with
                                        | Some (HRef bc) => obliterate_h f bc dc h
                                        | _ => h
                                        end
                           | HLeaf _ => hset h b (aremove (fst kv) bn)
                           end
                       end) dn h
      end
  end.

(** * Reading a heap object as a tree (fuel bounds the depth) *)
Fixpoint hview (fuel : nat) (h : heap) (a : addr) {struct fuel} : option tree :=
  match fuel with
  | O => None
  | S f =>
      match hget h a with
      | None => None
      | Some n =>
          option_map Node
            ((fix go (n : hnode) : option dict :=
                match n with
                | [] => Some []
                | (k, HLeaf v) :: n' => option_map (cons (k, Leaf v)) (go n')
                | (k, HRef c) :: n' =>
                    match hview f h c, go n' with
                    | Some t, Some d => Some ((k, t) :: d)
                    | _, _ => None
                    end
                end) n)
      end
  end.

(** * The sharing relation: which paths of which roots denote which object *)
Fixpoint hpaths (fuel : nat) (h : heap) (a : addr) (pre : path) {struct fuel} : list (path * addr) :=
  match fuel with
  | O => []
  | S f =>
      (rev pre, a) ::
      match hget h a with
      | None => []
      | Some n =>
          flat_map (fun kv => match snd kv with
                              | HRef c => hpaths f h c (fst kv :: pre)
                              | HLeaf _ => []
                              end) n
      end
  end.
