(** invoke/executor.py: normalize / expand_calls / dedupe / execute, and
    invoke/tasks.py Call.__eq__.  Acyclic pre/post graphs are finite trees: a
    [call] carries the (recursively expanded) pre- and post-lists of its task.
    No proofs here. *)
From InvokeVerif Require Export Common.PyCall.

(** [expand_calls]: pre-tasks (recursively), the call, post-tasks (recursively). *)
Fixpoint expand (c : call) : list flat :=
  match c with
  | Call t a k pre post =>
      (fix go (l : list call) : list flat :=
         match l with [] => [] | x :: l' => expand x ++ go l' end) pre
      ++ (t, a, k) ::
      (fix go (l : list call) : list flat :=
         match l with [] => [] | x :: l' => expand x ++ go l' end) post
  end.

Definition expand_calls (l : list call) : list flat := flat_map expand l.

(** [Call.__eq__]: task, args and kwargs compared literally, with Python's
    [==].  [Task.__eq__] is *not* identity: two task objects are equal when
    they have the same name and the same body or the same code object --
    tasks made by one factory function share both and differ only in their
    closure.  [eqk] maps a task to its equality class. *)
Definition call_eqb (eqk : nat -> nat) (a b : flat) : bool :=
  Nat.eqb (eqk (f_task a)) (eqk (f_task b)) && list_eqb py_eqb (f_args a) (f_args b) &&
  kw_eqb (f_kw a) (f_kw b).

(** [dedupe]: keep a call unless an equal one was kept already. *)
Fixpoint dedupe_from (eqk : nat -> nat) (kept : list flat) (l : list flat) : list flat :=
  match l with
  | [] => kept
  | c :: l' => if existsb (fun d => call_eqb eqk d c) kept then dedupe_from eqk kept l'
               else dedupe_from eqk (kept ++ [c]) l'
  end.
Definition dedupe (eqk : nat -> nat) (l : list flat) : list flat := dedupe_from eqk [] l.

(** [normalize]; without requests the collection's default task, bare. *)
Definition normalize (reqs : list request) (dflt : option call) : list call :=
  match reqs with
  | [] => match dflt with Some c => [with_kwargs c []] | None => [] end
  | _ => map (fun r => with_kwargs (fst r) (snd r)) reqs
  end.

Fixpoint run_calls (sig : nat -> params) (l : list flat) : result (list entry) :=
  match l with
  | [] => Ok []
  | f :: l' =>
      match bind (sig (f_task f)) (f_args f) (f_kw f) with
      | None => Err EType
      | Some b => match run_calls sig l' with
                  | Ok r => Ok ((f_task f, b) :: r)
                  | Err e => Err e
                  end
      end
  end.

(** [results[call.task] = result]: a dict keyed by task; every body returns
    its position in the session, so the value is the index of the *last*
    execution of that task, at the position of its first. *)
Fixpoint nset (k : nat) (v : nat) (d : list (nat * nat)) : list (nat * nat) :=
  match d with
  | [] => [(k, v)]
  | (k', v') :: d' => if Nat.eqb k k' then (k', v) :: d' else (k', v') :: nset k v d'
  end.

Fixpoint results_from (i : nat) (log : list entry) (acc : list (nat * nat)) : list (nat * nat) :=
  match log with
  | [] => acc
  | e :: log' => results_from (S i) log' (nset (fst e) i acc)
  end.

Definition execute (sig : nat -> params) (eqk : nat -> nat) (reqs : list request)
           (dflt : option call) (dedupe_on : bool) : result (list entry * list (nat * nat)) :=
  let expanded := expand_calls (normalize reqs dflt) in
  let final := if dedupe_on then dedupe eqk expanded else expanded in
  match run_calls sig final with
  | Ok log => Ok (log, results_from 0 log [])
  | Err e => Err e
  end.

(** * autoprint: [autoprint = call in direct and call.autoprint] *)
Definition root_flat (c : call) : flat := match c with Call t a k _ _ => (t, a, k) end.

Fixpoint indices_where {A} (f : A -> bool) (i : nat) (l : list A) : list nat :=
  match l with
  | [] => []
  | x :: l' => if f x then i :: indices_where f (S i) l' else indices_where f (S i) l'
  end.

(** positions (in execution order) of the executions whose return value is
    printed: the task is an autoprint task and the call *equals* one of the
    directly requested calls -- the implicitly chosen default call included *)
Definition printed (eqk : nat -> nat) (autop : nat -> bool) (reqs : list request)
           (dflt : option call) (dedupe_on : bool) : list nat :=
  let calls := normalize reqs dflt in
  let direct := map root_flat calls in
  let expanded := expand_calls calls in
  let final := if dedupe_on then dedupe eqk expanded else expanded in
  indices_where (fun c => autop (f_task c) && existsb (fun d => call_eqb eqk d c) direct) 0 final.
