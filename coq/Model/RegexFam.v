(** The pattern family of C12 and what Python's [re.findall(p, s, re.S)] computes
    for it: literals and fixed-length sequences of character classes, scanned
    left to right, non-overlapping.  Shared vocabulary of the watcher model
    (Model/WatchModel.v) and of the C12 specification; tied to the real [re]
    module by the [re_ok] predicate of the correspondence.

    Variable-length patterns ([a+], [x.*y]) are outside the family: for them no
    online responder can be chunk independent ("aa" answers [a+] once, "a|a"
    has to answer after the first read and again after the second). *)
From InvokeVerif Require Export Common.Tree Common.StrUtil.

Definition text := list ascii.
Definition chars (s : string) : text := list_ascii_of_string s.

Inductive cls :=
| CLit (a : ascii)            (* escaped literal character *)
| CAny                        (* .  (re.S: also matches newline) *)
| COneOf (l : list ascii)     (* [abc] *)
| CNoneOf (l : list ascii).   (* [^abc] *)

Definition pattern := list cls.
Definition lit (s : string) : pattern := map CLit (chars s).

Definition cls_ok (c : cls) (a : ascii) : bool :=
  match c with
  | CLit b => Ascii.eqb a b
  | CAny => true
  | COneOf l => existsb (Ascii.eqb a) l
  | CNoneOf l => negb (existsb (Ascii.eqb a) l)
  end.

(** [p] matches a prefix of [s] (the prefix has exactly [length p] characters). *)
Fixpoint match_here (p : pattern) (s : text) : bool :=
  match p, s with
  | [], _ => true
  | c :: p', a :: s' => cls_ok c a && match_here p' s'
  | _ :: _, [] => false
  end.

(** The scanner.  [k] = characters of the current match still to be consumed
    (0 = free to start a match here).  Output: one boolean per character, [true]
    exactly at the last character of each match found. *)
Fixpoint marks (p : pattern) (k : nat) (s : text) : list bool :=
  match s with
  | [] => []
  | a :: s' =>
      match k with
      | S k' => Nat.eqb k' 0 :: marks p k' s'
      | O => if match_here p s
             then Nat.eqb (List.length p - 1) 0 :: marks p (List.length p - 1) s'
             else false :: marks p 0 s'
      end
  end.

Fixpoint count_true (l : list bool) : nat :=
  match l with
  | [] => 0
  | b :: l' => (if b then 1 else 0) + count_true l'
  end.

(** [len(re.findall(p, s, re.S))] for a non-empty pattern of the family. *)
Definition occ (p : pattern) (s : text) : nat := count_true (marks p 0 s).

(** [matches[-1].end()], 0 when there is no match. *)
Fixpoint last_end (l : list bool) : nat :=
  match l with
  | [] => 0
  | b :: l' => match last_end l' with
               | O => if b then 1 else 0
               | S n => S (S n)
               end
  end.

(** Scanner state after [i] characters of [s] (0 = not in the middle of a match). *)
Fixpoint st (p : pattern) (k : nat) (s : text) (i : nat) {struct i} : nat :=
  match i with
  | O => k
  | S i' =>
      match s with
      | [] => 0
      | a :: s' =>
          match k with
          | S k' => st p k' s' i'
          | O => st p (if match_here p s then List.length p - 1 else 0) s' i'
          end
      end
  end.

(** * The watchers handed to [run(watchers=...)] and the read schedule *)
Inductive watcher :=
| WResp (p : pattern) (r : string)                  (* Responder(pattern, response) *)
| WFail (p : pattern) (r : string) (s : pattern).   (* FailingResponder(pattern, response, sentinel) *)

Definition pat_of (w : watcher) : pattern := match w with WResp p _ | WFail p _ _ => p end.
Definition resp_of (w : watcher) : string := match w with WResp _ r | WFail _ r _ => r end.

Definition nonempty {A} (l : list A) : bool := match l with [] => false | _ => true end.

(** the family: every pattern (and sentinel) has length >= 1 *)
Definition wf_watcher (w : watcher) : bool :=
  match w with
  | WResp p _ => nonempty p
  | WFail p _ s => nonempty p && nonempty s
  end.
Definition wf_ws (ws : list watcher) : bool := forallb wf_watcher ws.

(** One read: which thread got it ([false] = stdout, [true] = stderr) and the
    decoded chunk. *)
Definition event := (bool * string)%type.
Definition chunks_of (sid : bool) (sched : list event) : list text :=
  map (fun e => chars (snd e)) (filter (fun e => Bool.eqb (fst e) sid) sched).

(** How the watchers were driven: the objects directly, [Runner.run], [Context.sudo]. *)
Inductive via := Direct | ViaRun | ViaSudo.
Inductive exn := XResponseNotAccepted | XFailure | XAuthFailure | XThreadException | XOther.
Definition exn_eqb (a b : exn) : bool :=
  match a, b with
  | XResponseNotAccepted, XResponseNotAccepted | XFailure, XFailure
  | XAuthFailure, XAuthFailure | XThreadException, XThreadException | XOther, XOther => true
  | _, _ => false
  end.
Definition exn_of (v : via) : exn :=
  match v with Direct => XResponseNotAccepted | ViaRun => XFailure | ViaSudo => XAuthFailure end.

(** How [Context.sudo] was set up: prompt, configured password ([sudo.password]) and
    the [password=] keyword argument (absent / given, possibly None). *)
Record sudo_info := mkSudo {
  su_prompt : string;
  su_cfg_password : option string;
  su_kw_password : option (option string)
}.

(** ["{}\n".format(password)] *)
Definition password_line (p : option string) : string :=
  (match p with Some s => s | None => "None" end ++ String (ascii_of_nat 10) "")%string.
