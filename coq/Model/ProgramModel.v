(** invoke/program.py [Program.update_config]: the parsed core arguments become
    the *overrides* configuration level, and choose the runtime configuration file.

    [overrides = dict(run=run, tasks=tasks, sudo=sudo, timeouts=timeouts)] where each
    section holds only the flags that were given with a truthy value ("only fill in
    values that would alter behavior"), in the order of the [if] statements.

    Composition with Model/OptsModel.v: what a [run()] inside a task finally uses is
    [unify] on the configuration whose [run] section / [timeouts.command] is the lower
    levels overlaid with this overrides level (overrides is the highest data level of
    [Config.merge] -- C03). *)
From InvokeVerif Require Export Model.OptsModel Model.ProgramTypes.

Definition item (b : bool) (k : string) (v : value) : dict :=
  if b then [(k, Leaf v)] else [].

Definition nonempty_str (s : string) : bool := negb (String.eqb s "").

Definition run_section (a : coreargs) : dict :=
  item (a_warn_only a) "warn" (VBool true)
  ++ item (a_pty a) "pty" (VBool true)
  ++ match a_hide a with
     | Some s => item (nonempty_str s) "hide" (VStr s)      (* [if self.args.hide.value] *)
     | None => []
     end
  ++ item (a_echo a) "echo" (VBool true)
  ++ item (a_dry a) "dry" (VBool true).

Definition tasks_section (a : coreargs) : dict := item (a_no_dedupe a) "dedupe" (VBool false).

Definition sudo_section (a : coreargs) : dict :=
  match a_sudo_password a with Some p => [("password", Leaf (VStr p))] | None => [] end.

(** [if command:] -- a timeout of 0 is falsy and therefore NOT recorded. *)
Definition timeouts_section (a : coreargs) : dict :=
  match a_timeout a with
  | Some n => item (negb (Z.eqb n 0)) "command" (VInt n)
  | None => []
  end.

Definition overrides_of (a : coreargs) : tree :=
  Node [("run", Node (run_section a)); ("tasks", Node (tasks_section a));
        ("sudo", Node (sudo_section a)); ("timeouts", Node (timeouts_section a))].

(** [runtime_path = self.args.config.value]; [os.environ.get("INVOKE_RUNTIME_CONFIG")]
    only when that is None. *)
Definition runtime_path_of (a : coreargs) (env_var : option string) : option string :=
  match a_config a with Some p => Some p | None => env_var end.

(** * Composition with the run-option model *)
Definition opt_key (o : opt) : string :=
  match o with
  | Asynchronous => "asynchronous" | Disown => "disown" | Dry => "dry" | Echo => "echo"
  | EchoStdin => "echo_stdin" | Encoding => "encoding" | Env => "env" | ErrStream => "err_stream"
  | Fallback => "fallback" | Hide => "hide" | InStream => "in_stream" | OutStream => "out_stream"
  | EchoFormat => "echo_format" | Pty => "pty" | ReplaceEnv => "replace_env" | Shell => "shell"
  | Warn => "warn" | Watchers => "watchers"
  end.

Definition oval_of_value (v : value) : oval :=
  match v with
  | VNone => ONone
  | VBool b => OBool b
  | VInt z => OInt z
  | VStr s => OStr s
  | VList l | VTuple l => OList l
  end.

(** the [run] option / command timeout as the overrides level defines it *)
Definition override_opt (a : coreargs) (o : opt) : option oval :=
  option_map oval_of_value (leaf_at ["run"; opt_key o] (overrides_of a)).

Definition override_timeout (a : coreargs) : option oval :=
  option_map oval_of_value (leaf_at ["timeouts"; "command"] (overrides_of a)).

(** lower levels overlaid with the overrides level *)
Definition cli_config (a : coreargs) (lower : config) : config :=
  mkCfg (fun o => match override_opt a o with Some v => Some v | None => cf lower o end)
        (match override_timeout a with Some v => v | None => cf_timeout lower end).

Definition effective_opts_cli (a : coreargs) (lower : config) (k : kwargs) : result resolved :=
  unify (cli_config a lower) k.

Definition run_model_cli (a : coreargs) (lower : config) (parent : env) (command : string)
           (k : kwargs) : outcome :=
  run_model (cli_config a lower) parent command k.
