(** invoke/parser/context.py: [ParserContext] -- arguments in insertion order,
    flag / inverse-flag lookup, positionals, [as_kwargs], [add_arg]. *)
From InvokeVerif Require Export Model.ArgModel.

(** Static description of a context (what [Collection.to_contexts] /
    [Program.initial_context] build). *)
Record ctxspec := mkCtx {
  cx_name : option string;
  cx_aliases : list string;
  cx_args : list argspec
}.

(** A context being filled by a parse (a deep copy of the template). *)
Record rctx := mkRCtx {
  rc_name : option string;
  rc_aliases : list string;
  rc_args : list rarg
}.

Definition init_ctx (c : ctxspec) : rctx :=
  mkRCtx (cx_name c) (cx_aliases c) (map init_arg (cx_args c)).

(** [translate_underscores] / [to_flag] *)
Definition translate_underscores (name : string) : string :=
  replace_char "_" "-" (strip_char "_" name).

Definition to_flag (name : string) : string :=
  let n := translate_underscores name in
  if Nat.eqb (String.length n) 1 then "-" ++ n else "--" ++ n.

Definition arg_flags (a : argspec) : list string := map to_flag (a_names a).

Fixpoint find_index {A} (p : A -> bool) (l : list A) : option nat :=
  match l with
  | [] => None
  | x :: l' => if p x then Some 0 else option_map S (find_index p l')
  end.

(** [tok in ctx.flags] / [ctx.flags[tok]]: index of the argument owning the
    flag spelling.  (The Lexicon is a dict + alias table; with pairwise
    distinct spellings -- [wf_args] -- first match is exactly its lookup.) *)
Definition find_flag_spec (args : list argspec) (tok : string) : option nat :=
  find_index (fun a => mem tok (arg_flags a)) args.

Definition find_flag (args : list rarg) (tok : string) : option nat :=
  find_index (fun r => mem tok (arg_flags (r_spec r))) args.

(** [inverse_flags]: "--no-<main>" -> to_flag(main), for bool arguments whose
    default is True. *)
Definition main_name (a : argspec) : string :=
  match a_names a with n :: _ => n | [] => "" end.

Definition inverse_of (a : argspec) : option string :=
  match a_kind a, a_default a with
  | KBool, ABool true => Some (to_flag ("no-" ++ main_name a))
  | _, _ => None
  end.

Definition is_inverse_of (tok : string) (a : argspec) : bool :=
  match inverse_of a with Some s => String.eqb s tok | None => false end.

(** [ctx.inverse_flags[tok]]: the *flag spelling* of the argument it inverts. *)
Definition find_inverse (args : list rarg) (tok : string) : option string :=
  match find (fun r => is_inverse_of tok (r_spec r)) args with
  | Some r => Some (to_flag (main_name (r_spec r)))
  | None => None
  end.

(** [positional_args] (indices, in insertion order) and
    [missing_positional_args]. *)
Fixpoint positional_from (i : nat) (args : list rarg) : list nat :=
  match args with
  | [] => []
  | r :: l => if a_positional (r_spec r) then i :: positional_from (S i) l
              else positional_from (S i) l
  end.
Definition positional_idx (args : list rarg) : list nat := positional_from 0 args.

Fixpoint missing_from (i : nat) (args : list rarg) : list nat :=
  match args with
  | [] => []
  | r :: l => if a_positional (r_spec r) && aval_is_none (arg_value r)
              then i :: missing_from (S i) l else missing_from (S i) l
  end.
Definition missing_positional (args : list rarg) : list nat := missing_from 0 args.

Definition has_missing (c : rctx) : bool :=
  existsb (fun r => a_positional (r_spec r) && aval_is_none (arg_value r)) (rc_args c).

(** [as_kwargs]: a dict keyed by [arg.name], in insertion order. *)
Fixpoint kw_set (k : string) (v : aval) (d : list (string * aval)) : list (string * aval) :=
  match d with
  | [] => [(k, v)]
  | (k', v') :: d' => if String.eqb k k' then (k, v) :: d' else (k', v') :: kw_set k v d'
  end.

Definition as_kwargs (c : rctx) : list (string * aval) :=
  fold_left (fun d r => kw_set (arg_name (r_spec r)) (arg_value r) d) (rc_args c) [].

(** [add_arg]'s uniqueness constraint: a name of the new argument that is
    already a key of [self.args] (main name, nickname or attr_name of an
    earlier argument) is a ValueError; an Argument without names a TypeError. *)
Definition arg_keys (a : argspec) : list string :=
  a_names a ++ match a_attr_name a with Some n => [n] | None => [] end.

Definition add_arg (c : list argspec) (a : argspec) : result (list argspec) :=
  match a_names a with
  | [] => Err EType
  | _ =>
      if existsb (fun n => existsb (fun b => mem n (arg_keys b)) c) (a_names a)
      then Err EValue else Ok (c ++ [a])
  end.

Fixpoint add_args (c : list argspec) (l : list argspec) : result (list argspec) :=
  match l with
  | [] => Ok c
  | a :: l' => match add_arg c a with Ok c' => add_args c' l' | Err e => Err e end
  end.

(** [ParserContext(name, aliases, args)] *)
Definition build_ctx (name : option string) (aliases : list string) (args : list argspec)
  : result ctxspec :=
  match add_args [] args with
  | Ok l => Ok (mkCtx name aliases l)
  | Err e => Err e
  end.

(** Well-formedness: every flag and inverse-flag spelling of the context is
    distinct, every argument has a name. *)
Definition all_spellings (args : list argspec) : list string :=
  flat_map (fun a => arg_flags a ++ match inverse_of a with Some s => [s] | None => [] end) args.

Definition wf_args (args : list argspec) : bool :=
  forallb (fun a => match a_names a with [] => false | _ => true end) args
  && nodupb (all_spellings args).

(** Structural equality, used by the correspondence files. *)
Definition opt_str_eqb (a b : option string) : bool :=
  match a, b with
  | Some x, Some y => String.eqb x y
  | None, None => true
  | _, _ => false
  end.

Definition argspec_eqb (a b : argspec) : bool :=
  list_eqb String.eqb (a_names a) (a_names b)
  && akind_eqb (a_kind a) (a_kind b)
  && aval_eqb (a_default a) (a_default b)
  && Bool.eqb (a_positional a) (a_positional b)
  && Bool.eqb (a_optional a) (a_optional b)
  && Bool.eqb (a_incrementable a) (a_incrementable b)
  && opt_str_eqb (a_attr_name a) (a_attr_name b).

Definition ctxspec_eqb (a b : ctxspec) : bool :=
  opt_str_eqb (cx_name a) (cx_name b)
  && list_eqb String.eqb (cx_aliases a) (cx_aliases b)
  && list_eqb argspec_eqb (cx_args a) (cx_args b).

Definition kwargs_eqb (a b : list (string * aval)) : bool :=
  list_eqb (fun x y => String.eqb (fst x) (fst y) && aval_eqb (snd x) (snd y)) a b.
