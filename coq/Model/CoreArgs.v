(** invoke/program.py: [Program.core_args] + [Program.task_args] =
    [Program.initial_context] (task-runner mode).  Hand-written table; every
    run of the parser checks compares it field by field with the real
    [Program().initial_context] (case [TableCase] of Corr/ParserCorr.v), so a
    changed name, kind, default or flag of a core option breaks the
    correspondence.  [small_args] is the harness's own second initial context
    (harness/parser_common.py SMALL_INITIAL), used to exercise initial-context
    behaviours the real core options do not have (inverse flag, counter, list). *)
From InvokeVerif Require Export Model.CtxModel.

Definition core_args : list argspec := [
  mkArg ["command-timeout"; "T"] KInt ANone false false false None;
  mkArg ["complete"] KBool (ABool false) false false false None;
  mkArg ["config"; "f"] KStr ANone false false false None;
  mkArg ["debug"; "d"] KBool (ABool false) false false false None;
  mkArg ["dry"; "R"] KBool (ABool false) false false false None;
  mkArg ["echo"; "e"] KBool (ABool false) false false false None;
  mkArg ["help"; "h"] KStr ANone false true false None;
  mkArg ["hide"] KStr ANone false false false None;
  mkArg ["list"; "l"] KStr ANone false true false None;
  mkArg ["list-depth"; "D"] KInt (AInt 0%Z) false false false None;
  mkArg ["list-format"; "F"] KStr (AStr "flat") false false false None;
  mkArg ["print-completion-script"] KStr (AStr "") false false false None;
  mkArg ["prompt-for-sudo-password"] KBool (ABool false) false false false None;
  mkArg ["pty"; "p"] KBool (ABool false) false false false None;
  mkArg ["version"; "V"] KBool (ABool false) false false false None;
  mkArg ["warn-only"; "w"] KBool (ABool false) false false false None;
  mkArg ["write-pyc"] KBool (ABool false) false false false None
].

Definition task_args : list argspec := [
  mkArg ["collection"; "c"] KStr ANone false false false None;
  mkArg ["no-dedupe"] KBool (ABool false) false false false None;
  mkArg ["search-root"; "r"] KStr ANone false false false None
].

Definition core_ctx : ctxspec := mkCtx None [] (core_args ++ task_args).
Definition core_ns_ctx : ctxspec := mkCtx None [] core_args.

Definition small_args : list argspec := [
  mkArg ["timeout"; "T"] KInt ANone false false false None;
  mkArg ["echo"; "e"] KBool (ABool false) false false false None;
  mkArg ["help"; "h"] KStr ANone false true false None;
  mkArg ["config"; "f"] KStr ANone false false false None;
  mkArg ["color"] KBool (ABool true) false false false None;
  mkArg ["verbose"; "v"] KInt (AInt 0%Z) false false true None;
  mkArg ["include"; "I"] KList ANone false false false None
].
Definition small_ctx : ctxspec := mkCtx None [] small_args.

Inductive initsel := INone | ICore | ICoreNs | ISmall.

Definition initial_of (i : initsel) : option ctxspec :=
  match i with
  | INone => None
  | ICore => Some core_ctx
  | ICoreNs => Some core_ns_ctx
  | ISmall => Some small_ctx
  end.
