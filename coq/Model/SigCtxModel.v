(** The tables ParserContext.add_arg builds (invoke/parser/context.py), to the
    extent C09 needs them: args + aliases (Lexicon), flags + flag aliases,
    inverse flags, positional list, the uniqueness ValueError, as_kwargs of the
    unparsed context, and whether those kwargs bind to the task function.
    The run-time half of ParserContext/Argument (values set by the parser) is
    modelled elsewhere (parser models). *)
From InvokeVerif Require Export Model.SigModel.

Record sctx := mkCtx {
  x_args : list (string * argspec);         (* real keys of ctx.args: main name -> Argument *)
  x_aliases : list (string * string);       (* ctx.args.aliases: nickname / attr_name -> main *)
  x_flags : list (string * string);         (* real keys of ctx.flags -> main name of the Argument *)
  x_flag_aliases : list (string * string);  (* ctx.flags.aliases *)
  x_inverse : list (string * string);       (* ctx.inverse_flags *)
  x_positional : list string }.             (* main names of ctx.positional_args *)

Definition empty_ctx : sctx := mkCtx [] [] [] [] [] [].

(** AliasDict.__contains__: follow the alias chain, then plain dict membership.
    Python recurses without bound on a cyclic alias table (RecursionError);
    with fuel the model answers [false] there.  Tables built by add_arg from
    get_arguments' output are acyclic (targets are always real keys). *)
Fixpoint lex_contains (fuel : nat) (keys : list string) (al : list (string * string))
         (k : string) : bool :=
  match aget k al with
  | Some t => match fuel with
              | O => false
              | S f => lex_contains f keys al t
              end
  | None => mem k keys
  end.

(** AliasDict.__setitem__ target: the real key an assignment lands on. *)
Fixpoint lex_resolve (fuel : nat) (al : list (string * string)) (k : string) : string :=
  match aget k al with
  | Some t => match fuel with
              | O => k
              | S f => lex_resolve f al t
              end
  | None => k
  end.

Definition is_true_bool (a : argspec) : bool :=
  match a_kind a, a_default a with
  | KBool, ABool true => true
  | _, _ => false
  end.

(** ParserContext.add_arg(arg) *)
Definition add_arg (c : sctx) (a : argspec) : result sctx :=
  let fuel := S (List.length (x_aliases c)) in
  if existsb (lex_contains fuel (map fst (x_args c)) (x_aliases c)) (a_names a)
  then Err EValue
  else
    match a_names a with
    | [] => Err EOther   (* Argument() refuses an empty name list (TypeError) before we get here *)
    | main :: nicks =>
        let args1 := aset (lex_resolve fuel (x_aliases c) main) a (x_args c) in
        let pos1 := if a_positional a then x_positional c ++ [main] else x_positional c in
        let ffuel := S (List.length (x_flag_aliases c)) in
        let flags1 := aset (lex_resolve ffuel (x_flag_aliases c) (to_flag main)) main (x_flags c) in
        let al1 := fold_left (fun al n => aset n main al) nicks (x_aliases c) in
        let fal1 := fold_left (fun al n => aset (to_flag n) (to_flag main) al) nicks
                              (x_flag_aliases c) in
        let al2 := match a_attr_name a with
                   | Some "" => al1
                   | Some an => aset an main al1
                   | None => al1
                   end in
        let inv1 := if is_true_bool a
                    then aset (to_flag ("no-" ++ main)%string) (to_flag main) (x_inverse c)
                    else x_inverse c in
        Ok (mkCtx args1 al2 flags1 fal1 inv1 pos1)
    end.

(** ParserContext(name, args=...) *)
Fixpoint add_args (c : sctx) (l : list argspec) : result sctx :=
  match l with
  | [] => Ok c
  | a :: l' => match add_arg c a with
               | Ok c' => add_args c' l'
               | Err e => Err e
               end
  end.

(** Argument.value of a freshly constructed Argument:
      initial = [] if kind is list; initial = default if incrementable;
      value = initial if initial is not None else default *)
Definition initial_value (a : argspec) : aval :=
  if a_incrementable a then a_default a
  else match a_kind a with KList => AList [] | _ => ANone end.

Definition fresh_value (a : argspec) : aval :=
  match initial_value a with
  | ANone => a_default a
  | v => v
  end.

(** ParserContext.as_kwargs *)
Definition as_kwargs (c : sctx) : list (string * aval) :=
  fold_left (fun ret ka => aset (arg_name (snd ka)) (fresh_value (snd ka)) ret) (x_args c) [].

(** inspect.signature(body).bind(ctx, **kwargs) for a body
    [def f(ctx, p1, p2=..., ...)]: every keyword must be a parameter name and
    every parameter without default must be supplied. *)
Definition bind_ok (ps : list param) (kw : list (string * aval)) : bool :=
  forallb (fun kv => mem (fst kv) (map p_name ps)) kw &&
  forallb (fun p => match p_default p with
                    | DEmpty => mem (p_name p) (map fst kw)
                    | _ => true
                    end) ps.

Definition kind_name_of_arg (s : tsig) (a : argspec) : string :=
  match find (fun p => String.eqb (p_name p) (arg_name a)) (s_params s) with
  | Some p => kind_name (s_deco s) p
  | None => "?"
  end.

(** The whole pipeline: Task(body, **deco).get_arguments() -> ParserContext *)
Definition sig_cli (s : tsig) : result cli :=
  let args := get_arguments s in
  match add_args empty_ctx args with
  | Err e => Err e
  | Ok c =>
      let kw := as_kwargs c in
      Ok (mkCli args (x_flags c) (x_flag_aliases c) (x_inverse c) (x_positional c)
                kw (bind_ok (s_params s) kw)
                (map (kind_name_of_arg s) args) (map takes_value args))
  end.

(** ** How the keyword arguments reach the function.

    Python parameter kinds: [get_arguments] iterates over ALL parameters of
    the signature whatever their kind, so every one of them becomes an
    Argument and a key of [as_kwargs]; the body is then called as
    [task(ctx, <2star>kwargs)], i.e. [Task.__call__(self, <star>args, <2star>kwargs)]
    followed by [self.body(<star>args, <2star>kwargs)]. *)
Inductive pkind :=
| PPlain        (* positional-or-keyword, or keyword-only *)
| PPosOnly      (* before a '/' *)
| PVarPos       (* star-args *)
| PVarKw.       (* double-star kwargs *)

Definition pkind_eqb (a b : pkind) : bool :=
  match a, b with
  | PPlain, PPlain | PPosOnly, PPosOnly | PVarPos, PVarPos | PVarKw, PVarKw => true
  | _, _ => false
  end.

Definition kind_at (kinds : list pkind) (i : nat) : pkind := nth i kinds PPlain.

(** inspect.signature(body).bind(ctx, <2star>kw) when parameters have kinds: a
    keyword must name a plain parameter unless a double-star parameter absorbs it; a
    positional-only parameter cannot be supplied by keyword, so it must have a
    default; a plain parameter without default must be supplied *)
Definition bind_kinds (ps : list param) (kinds : list pkind) (kw : list (string * aval)) : bool :=
  let idx := seq 0 (List.length ps) in
  let has_vk := existsb (fun i => pkind_eqb (kind_at kinds i) PVarKw) idx in
  forallb (fun kv =>
             let named k := existsb (fun i => pkind_eqb (kind_at kinds i) k &&
                                              String.eqb (p_name (nth i ps (mkParam "" DEmpty))) (fst kv)) idx in
             (* CPython 3.12's Signature.bind refuses the name of a positional-only parameter
                as a keyword even when a double-star parameter could absorb it (the call
                itself would accept that) *)
             named PPlain || (has_vk && negb (named PPosOnly))) kw &&
  forallb (fun i =>
             let p := nth i ps (mkParam "" DEmpty) in
             match kind_at kinds i, p_default p with
             | PPlain, DEmpty => mem (p_name p) (map fst kw)
             | PPosOnly, DEmpty => false
             | _, _ => true
             end) idx.

(** the call [task(ctx, <2star>kw)] hands every parameter the value meant for it:
    no key collides with [Task.__call__]'s own [self], and no parameter is
    positional-only, star-args or double-star kwargs (those are refused by Python, or
    receive the keyword dictionary instead of their own empty default) *)
Definition call_ok (kinds : list pkind) (kw : list (string * aval)) : bool :=
  negb (mem "self" (map fst kw)) && forallb (fun k => pkind_eqb k PPlain) kinds.
