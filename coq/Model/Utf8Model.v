(** CPython's decoders with [errors='replace'] as byte transducers.

    UTF-8: [Objects/stringlib/codecs.h utf8_decode] + the error handling of
    [unicode_decode_utf8]: an ill-formed sequence is replaced by ONE U+FFFD per
    maximal subpart (Unicode 3.9, "best practice"), i.e. the longest prefix that
    is still the beginning of a well-formed sequence; the offending byte is then
    re-examined as a possible start byte.  An incomplete sequence at the end of
    the input ("unexpected end of data") is one U+FFFD.

    The decoder state between two bytes is [DInit] or "need [n] more
    continuation bytes, accumulated value [acc], next byte must lie in
    [lo..hi]" (the second byte of E0/ED/F0/F4 has a narrowed range: overlong
    forms, surrogates and > U+10FFFF are ill-formed).

    What invoke does (runners.py [read_proc_output]): [self.decode(data)] once
    PER READ, each time with a fresh decoder -- [decode_chunks] below.  The
    repaired variant threads one decoder through all reads -- [decode_chunks_inc].
    No proofs here. *)
From InvokeVerif Require Export Common.ByteText.
Local Open Scope N_scope.

Inductive dstate :=
| DInit
| DPend (need : nat) (acc lo hi : N).

Definition dstate_is_init (s : dstate) : bool :=
  match s with DInit => true | DPend _ _ _ _ => false end.

(** First byte of a sequence. *)
Definition start (b : N) : dstate * text :=
  if b <? 128 then (DInit, [b])
  else if b <? 194 then (DInit, [REPL])                      (* 80..C1 *)
  else if b <? 224 then (DPend 1 (b - 192) 128 191, [])      (* C2..DF *)
  else if b =? 224 then (DPend 2 (b - 224) 160 191, [])      (* E0: A0..BF *)
  else if b =? 237 then (DPend 2 (b - 224) 128 159, [])      (* ED: 80..9F *)
  else if b <? 240 then (DPend 2 (b - 224) 128 191, [])      (* E1..EC, EE, EF *)
  else if b =? 240 then (DPend 3 (b - 240) 144 191, [])      (* F0: 90..BF *)
  else if b <? 244 then (DPend 3 (b - 240) 128 191, [])      (* F1..F3 *)
  else if b =? 244 then (DPend 3 (b - 240) 128 143, [])      (* F4: 80..8F *)
  else (DInit, [REPL]).                                      (* F5..FF *)

Definition ustep (st : dstate) (b : N) : dstate * text :=
  match st with
  | DInit => start b
  | DPend need acc lo hi =>
      if in_range lo hi b then
        let acc' := acc * 64 + (b - 128) in
        match need with
        | S (S k) => (DPend (S k) acc' 128 191, [])
        | _ => (DInit, [acc'])
        end
      else
        let so := start b in (fst so, REPL :: snd so)
  end.

(** One byte, any of the three encodings (Latin-1 and ASCII never leave [DInit]). *)
Definition dstep (e : enc) (st : dstate) (b : N) : dstate * text :=
  match e with
  | Utf8 => ustep st b
  | Latin1 => (DInit, [b])
  | Ascii => (DInit, [if b <? 128 then b else REPL])
  end.

Definition dflush (st : dstate) : text :=
  match st with DInit => [] | DPend _ _ _ _ => [REPL] end.

(** Feed bytes, no flush: final state and text produced so far. *)
Fixpoint drun (e : enc) (st : dstate) (bs : bytes) : dstate * text :=
  match bs with
  | [] => (st, [])
  | b :: r =>
      let so := dstep e st b in
      let so' := drun e (fst so) r in
      (fst so', snd so ++ snd so')
  end.

(** Feed bytes, then flush. *)
Fixpoint dfin (e : enc) (st : dstate) (bs : bytes) : text :=
  match bs with
  | [] => dflush st
  | b :: r => let so := dstep e st b in snd so ++ dfin e (fst so) r
  end.

(** [bytes.decode(encoding, 'replace')] *)
Definition decode_all (e : enc) (bs : bytes) : text := dfin e DInit bs.

(** What the code does: a fresh decode per read. *)
Definition decode_chunks (e : enc) (chunks : list bytes) : list text :=
  map (decode_all e) chunks.

(** Repaired variant: one incremental decoder per stream, flushed at EOF
    ([codecs.getincrementaldecoder(enc)('replace')], [decode(b'', final=True)]).
    One piece per read plus the final flush piece. *)
Fixpoint decode_chunks_inc (e : enc) (st : dstate) (chunks : list bytes) : list text :=
  match chunks with
  | [] => [dflush st]
  | c :: r => let so := drun e st c in snd so :: decode_chunks_inc e (fst so) r
  end.

(** Guard of the partial theorem: every read but the last ends where the decoder
    (started afresh on that read, as the code does) is back in its initial state. *)
Definition ends_initial (e : enc) (c : bytes) : bool :=
  dstate_is_init (fst (drun e DInit c)).

Fixpoint cuts_at_initial (e : enc) (chunks : list bytes) : bool :=
  match chunks with
  | [] => true
  | [_] => true
  | c :: r => ends_initial e c && cuts_at_initial e r
  end.
