(** Faithful model of invoke/tasks.py: Task.fill_implicit_positionals,
    Task.arg_opts, Task.get_arguments (help= handling excluded), producing the
    static [argspec] records of Common/ArgSpec.v. *)
From InvokeVerif Require Export Common.SigTypes.

Definition us : ascii := "_"%char.
Definition dash : ascii := "-"%char.

(** parser/context.py: name.lstrip("_").rstrip("_").replace("_", "-") *)
Definition translate_underscores (n : string) : string :=
  replace_char us dash (rstrip_char us (lstrip_char us n)).

(** parser/context.py to_flag *)
Definition to_flag (n : string) : string :=
  let d := translate_underscores n in
  if Nat.eqb (String.length d) 1 then ("-" ++ d)%string else ("--" ++ d)%string.

(** Task.fill_implicit_positionals *)
Definition fill_implicit_positionals (s : tsig) : list string :=
  match d_positional (s_deco s) with
  | Some l => l
  | None =>
      flat_map (fun p => match p_default p with DEmpty => [p_name p] | _ => [] end)
               (s_params s)
  end.

(** type(default) for defaults other than None / empty *)
Definition kind_of_default (d : pdefault) : option akind :=
  match d with
  | DStr _ => Some KStr
  | DInt _ => Some KInt
  | DBool _ => Some KBool
  | DList _ => Some KList
  | DOther ty _ => Some (KOther ty CFailV [])   (* the callable itself; its oracle is the parser checks' business *)
  | DEmpty | DNone => None
  end.

(** type(default).__name__ *)
Definition type_name (d : pdefault) : option string :=
  match d with
  | DStr _ => Some "str"
  | DInt _ => Some "int"
  | DBool _ => Some "bool"
  | DList _ => Some "list"
  | DOther ty _ => Some ty
  | DEmpty | DNone => None
  end.

(** Argument.kind.__name__ as arg_opts sets it (Argument's default kind is str) *)
Definition kind_name (dc : deco) (p : param) : string :=
  let k0 := if mem (p_name p) (d_iterable dc) then "list" else "str" in
  match type_name (p_default p) with
  | Some k => if mem (p_name p) (d_optional dc) && String.eqb k "bool" then k0 else k
  | None => k0
  end.

(** The auto-shortflag loop of arg_opts:
      for char in name:
          if char == "-": continue
          if not (char == name or char in taken_names): names.append(char); break *)
Fixpoint first_free_char (dname rest : string) (taken : list string) : option string :=
  match rest with
  | EmptyString => None
  | String c r =>
      let cs := String c EmptyString in
      if Ascii.eqb c dash then first_free_char dname r taken
      else if String.eqb cs dname || mem cs taken then first_free_char dname r taken
      else Some cs
  end.

(** Task.arg_opts followed by the Argument constructor (its defaults:
    kind=str, default=None, everything else False/None). *)
Definition arg_opts (dc : deco) (positional : list string) (p : param)
           (taken : list string) : argspec :=
  let name := p_name p in
  let dflt := p_default p in
  let opt := mem name (d_optional dc) in
  let iter := mem name (d_iterable dc) in
  let incr := mem name (d_incrementable dc) in
  let has_us := contains_char us name in
  let dname := if has_us then translate_underscores name else name in
  let short := if d_auto_short dc
               then match first_free_char dname dname taken with
                    | Some c => [c]
                    | None => []
                    end
               else [] in
  (* iterable: kind = list, default = default if default is not None else [] *)
  let kd0 := if iter
             then (KList, match dflt with DNone => AList [] | d => to_aval d end)
             else (KStr, ANone) in
  (* default not in (None, empty): kind = type(default) unless optional+bool *)
  let kd := match kind_of_default dflt with
            | Some k => (if opt && akind_eqb k KBool then fst kd0 else k, to_aval dflt)
            | None => kd0
            end in
  mkArg (dname :: short) (fst kd) (snd kd) (mem name positional) opt incr
        (if has_us then Some name else None).

(** The loop of get_arguments threading taken_names. *)
Fixpoint build_args (dc : deco) (positional : list string) (ps : list param)
         (taken : list string) : list argspec :=
  match ps with
  | [] => []
  | p :: ps' =>
      let a := arg_opts dc positional p taken in
      a :: build_args dc positional ps' (taken ++ a_names a)
  end.

(** args.insert(0, args.pop(i)) for the first arg whose .name is [nm] *)
Fixpoint extract (nm : string) (l : list argspec) : option (argspec * list argspec) :=
  match l with
  | [] => None
  | a :: l' =>
      if String.eqb (arg_name a) nm then Some (a, l')
      else match extract nm l' with
           | Some (x, r) => Some (x, a :: r)
           | None => None
           end
  end.

Definition move_front (nm : string) (l : list argspec) : list argspec :=
  match extract nm l with
  | Some (x, r) => x :: r
  | None => l
  end.

Definition reorder (positional : list string) (args : list argspec) : list argspec :=
  fold_left (fun acc nm => move_front nm acc) (rev positional) args.

(** Task.get_arguments *)
Definition get_arguments (s : tsig) : list argspec :=
  let pos := fill_implicit_positionals s in
  (* taken_names = set(parameter names), then also their command-line
     (dashed) spellings -- commit d208a4d *)
  reorder pos (build_args (s_deco s) pos (s_params s)
                          (map p_name (s_params s) ++
                           map (fun p => translate_underscores (p_name p)) (s_params s))).

(** ** help=

    [Task.__init__] copies the [help] dict; [arg_opts] consumes it:
      for possibility in name, original_name:
          if possibility in self.help: opts["help"] = self.help.pop(possibility); break
    ([name] is the dashed spelling when the parameter has underscores), and
    [get_arguments] raises ValueError when keys are left over (the
    [ignore_unknown_help] escape is not modelled: it is off by default). *)
Fixpoint hpop (k : string) (h : list (string * string)) : option (string * list (string * string)) :=
  match h with
  | [] => None
  | (k', v) :: h' =>
      if String.eqb k k' then Some (v, h')
      else match hpop k h' with
           | Some (t, r) => Some (t, (k', v) :: r)
           | None => None
           end
  end.

Definition help_step (p : param) (h : list (string * string)) : option string * list (string * string) :=
  let name := p_name p in
  let dname := if contains_char us name then translate_underscores name else name in
  match hpop dname h with
  | Some (t, h') => (Some t, h')
  | None => match hpop name h with
            | Some (t, h') => (Some t, h')
            | None => (None, h)
            end
  end.

Fixpoint build_help (ps : list param) (h : list (string * string))
  : list (option string) * list (string * string) :=
  match ps with
  | [] => ([], h)
  | p :: ps' =>
      let (t, h') := help_step p h in
      let (ts, rest) := build_help ps' h' in
      (t :: ts, rest)
  end.

(** the positional reordering of [get_arguments], carrying each Argument's help *)
Fixpoint extract_h (nm : string) (l : list (argspec * option string))
  : option ((argspec * option string) * list (argspec * option string)) :=
  match l with
  | [] => None
  | a :: l' =>
      if String.eqb (arg_name (fst a)) nm then Some (a, l')
      else match extract_h nm l' with
           | Some (x, r) => Some (x, a :: r)
           | None => None
           end
  end.

Definition reorder_h (positional : list string) (args : list (argspec * option string))
  : list (argspec * option string) :=
  fold_left (fun acc nm => match extract_h nm acc with Some (x, r) => x :: r | None => acc end)
            (rev positional) args.

(** [Task(body, help=h, ...).get_arguments()]: ValueError, or per Argument (in
    the order returned) its python-friendly name and its help text *)
Definition get_help (s : tsig) (h : list (string * string)) : result (list (string * option string)) :=
  let pos := fill_implicit_positionals s in
  let args := build_args (s_deco s) pos (s_params s)
                         (map p_name (s_params s) ++
                          map (fun p => translate_underscores (p_name p)) (s_params s)) in
  let (ts, rest) := build_help (s_params s) h in
  match rest with
  | _ :: _ => Err EValue
  | [] => Ok (map (fun ah => (arg_name (fst ah), snd ah)) (reorder_h pos (combine args ts)))
  end.
