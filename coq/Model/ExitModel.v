(** Faithful model of how invoke reports a finished command's status:
    (a) Linux wait-status macros as used by Local.returncode under a pty
        (os.WIFEXITED / WEXITSTATUS / WIFSIGNALED / WTERMSIG), with the wait
        status encoding as the OS contract;
    (b) Result.ok / failed / __bool__ / return_code;
    (c) the decision tail of Runner._finish;
    (d) Program.run's exception -> exit code map and Exit.code.
    Sources: invoke/runners.py, invoke/exceptions.py, invoke/program.py. *)
From InvokeVerif Require Export Common.ExitTypes.

(** * (a) wait status *)

(** OS contract (Linux): how the kernel encodes termination in a wait status. *)
Definition exit_status (code : Z) : Z := (code * 256)%Z.
Definition sig_status (sig : Z) (core : bool) : Z := (sig + (if core then 128 else 0))%Z.

(** glibc macros, as bit operations *)
Definition WTERMSIG (s : Z) : Z := Z.land s 127.
Definition WIFEXITED (s : Z) : bool := (WTERMSIG s =? 0)%Z.
Definition WEXITSTATUS (s : Z) : Z := Z.land (Z.shiftr s 8) 255.
(** ((signed char)((s & 0x7f) + 1) >> 1) > 0 *)
Definition WIFSIGNALED (s : Z) : bool :=
  negb (WTERMSIG s =? 0)%Z && negb (WTERMSIG s =? 127)%Z.

(** Local.returncode when using_pty, [s] = the status os.waitpid returned *)
Definition pty_returncode (s : Z) : option Z :=
  if WIFEXITED s then Some (WEXITSTATUS s)
  else if WIFSIGNALED s then Some (- WTERMSIG s)%Z
  else None.

(** * (b) Result *)
(** ok = bool(self.exited == 0); failed = not self.ok; __bool__ = self.ok;
    return_code = self.exited *)
Definition result_of (exited : option Z) : rview :=
  let ok := match exited with Some z => (z =? 0)%Z | None => false end in
  mkRv exited ok (negb ok) ok exited.

(** * (c0) Runner._unify_kwargs_with_config, one boolean key *)
(** for key, value in config.run.items():
        runtime = kwargs.pop(key, None)
        opts[key] = value if runtime is None else runtime
    An omitted keyword and an explicit None are the same thing to this loop. *)
Definition kw_runtime (kw : kwopt) : option bool :=
  match kw with KwOmitted => None | KwNone => None | KwVal b => Some b end.
Definition unify_opt (value : bool) (kw : kwopt) : bool :=
  match kw_runtime kw with None => value | Some r => r end.
(** Config.global_defaults: run.warn = False *)
Definition default_warn : bool := false.
(** opts["warn"] of the call *)
Definition opts_warn (ws : warn_src) : bool :=
  unify_opt (match ws_cfg ws with Some b => b | None => default_warn end) (ws_kw ws).

(** * (c) Runner._finish after the threads are joined *)
(** [thread_excs] / [watcher_errs]: how many worker threads ended with a
    non-watcher / watcher exception; [timeout_set]: opts["timeout"] is not
    None; [timed_out]: the runner's timed_out property; [returncode]: what
    self.returncode() would answer; [warn]: opts["warn"]. *)
Definition finish (thread_excs watcher_errs : nat) (timeout_set timed_out : bool)
           (returncode : option Z) (warn : bool) : outcome :=
  if negb (Nat.eqb thread_excs 0) then Raise RThreadException None
  else
    (* _collate_result: exited = None if watcher_errors else self.returncode() *)
    let result := result_of (if negb (Nat.eqb watcher_errs 0) then None else returncode) in
    if negb (Nat.eqb watcher_errs 0) then Raise RFailure (Some result)
    else if timeout_set && timed_out then Raise RCommandTimedOut (Some result)
    else if negb (rv_bool result || warn) then Raise RUnexpectedExit (Some result)
    else Return result.

(** Context._sudo around the runner: a Failure whose reason (the first watcher
    error) is the password responder's ResponseNotAccepted becomes AuthFailure
    with the same result; everything else passes through. *)
Definition sudo_wrap (first_is_rna : bool) (o : outcome) : outcome :=
  match o with
  | Raise RFailure r => if first_is_rna then Raise RAuthFailure r else o
  | _ => o
  end.

(** The same tail as (guard, raised class) rows, in source order; compared with
    the table regenerated from invoke/runners.py on every run. *)
Definition finish_tail_table : list (string * string) :=
  [("thread_exceptions", "ThreadException");
   ("<assign>", "result = self._collate_result(watcher_errors)");
   ("watcher_errors", "Failure");
   ("<assign>", "timeout = self.opts['timeout']");
   ("timeout is not None and self.timed_out", "CommandTimedOut");
   ("not (result or self.opts['warn'])", "UnexpectedExit");
   ("<return>", "result")].

(** * (d) Program.run(argv, exit=True) *)
(** Exit.code *)
Definition exit_code (code : option Z) (has_message : bool) : Z :=
  match code with
  | Some c => c
  | None => if has_message then 1%Z else 0%Z
  end.

Definition program_run (e : prog_event) : prog_out :=
  match e with
  | PSuccess => PReturns
  | PUnexpectedExit x => PSysExit x
  | PExit c m => PSysExit (exit_code c m)
  | PParseError => PSysExit 1
  | PKeyboardInterrupt => PSysExit 1
  | POtherException => PPropagates
  end.

(** Program.update_config: -w / --warn-only puts run.warn = True into the
    overrides level, above whatever the collection / files configure. *)
Definition program_cfg_warn (flag : bool) (cfg : option bool) : option bool :=
  if flag then Some true else cfg.

(** Program.run on a task whose body is c.run("exit <code>", warn=<kw>) (a real
    child, nothing else going wrong) *)
Definition program_task_run (flag : bool) (cfg : option bool) (kw : kwopt) (code : Z) : prog_out :=
  match finish 0 0 false false (Some code) (opts_warn (mkWs (program_cfg_warn flag cfg) kw)) with
  | Return _ => program_run PSuccess
  | Raise RUnexpectedExit (Some r) =>
      match rv_exited r with Some x => program_run (PUnexpectedExit x) | None => PPropagates end
  | _ => PPropagates
  end.
