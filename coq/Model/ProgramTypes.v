(** The record of core-argument values [Program.update_config] reads (vocabulary
    shared by Model/ProgramModel.v, which re-exports it, and the C15 specification). *)
From InvokeVerif Require Export Model.RunTypes.

(** The core arguments [update_config] reads, as parsed (wherever on the command
    line they were given -- C18). *)
Record coreargs := mkArgs {
  a_warn_only : bool;                 (* -w / --warn-only *)
  a_pty : bool;                       (* -p / --pty *)
  a_hide : option string;             (* --hide VALUE *)
  a_echo : bool;                      (* -e / --echo *)
  a_dry : bool;                       (* -R / --dry *)
  a_no_dedupe : bool;                 (* --no-dedupe *)
  a_timeout : option Z;               (* -T / --command-timeout N *)
  a_sudo_password : option string;    (* --prompt-for-sudo-password: what getpass returned *)
  a_config : option string            (* -f / --config PATH *)
}.

