(** Build HISTORIES for C17: one module object whose explicit namespace ([ns] /
    [namespace] attribute) is the collection built by a script, mounted several
    times into one root collection, with [configure()] calls on the namespace
    object, on single mounts and on the root in between.

    What the unchanged code does (invoke/collection.py, [from_module]): every
    [from_module(module)] makes a NEW collection whose configuration is a copy
    ([copy_dict]) of the namespace's configuration at that moment, with
    [config=] merged on top.  The mounts, and the namespace object itself, are
    therefore independent values: the state below is a pair of plain values and
    a [configure()] rewrites exactly one component of it. *)
From InvokeVerif Require Export Model.CollModel.

Inductive hop :=
(** [root.add_collection(Collection.from_module(mod, auto_dash_names=ad, [config=cfg]), name=bind, [default=True])]
    ([root.add_collection(mod, name=bind)] is the case [ad = None], [cfg = None]) *)
| HMount (ad : option bool) (cfg : option tree) (bind : string) (dflt : bool)
(** [mod.ns.configure(cfg)] *)
| HConfNs (cfg : tree)
(** [root.collections[key].configure(cfg)] *)
| HConfMount (key : string) (cfg : tree)
(** [root.configure(cfg)] *)
| HConfRoot (cfg : tree).

Record hist := mkHist {
  h_mod : string;              (* module.__name__ *)
  h_ns : item;                 (* script of the module's explicit namespace *)
  h_root : option string;      (* Collection(h_root) *)
  h_ops : list hop
}.

Record hstate := mkHS { hs_ns : coll; hs_root : coll }.

Definition tree_falsy (t : tree) : bool := match t with Node [] => true | _ => false end.

(** [Collection.from_module(module, auto_dash_names=ad, config=cfg)] for a
    module whose namespace object currently is [nsc]. *)
Definition from_module_cfg (nsc : coll) (mn : string) (ad : option bool) (cfg : option tree) : result coll :=
  match reimport (names_empty nsc) nsc mn ad with
  | Err e => Err e
  | Ok c => match cfg with
            | None => Ok c
            | Some g => if tree_falsy g then Ok c else configure c g
            end
  end.

(** [root.collections[key].configure(cfg)] *)
Definition conf_sub (root : coll) (key : string) (cfg : tree) : result coll :=
  match root with
  | Coll cn tasks aliases subs dflt ad g =>
      match assoc key subs with
      | None => Err EKey
      | Some sc =>
          match configure sc cfg with
          | Ok sc' => Ok (Coll cn tasks aliases (aset key sc' subs) dflt ad g)
          | Err e => Err e
          end
      end
  end.

Definition hop_run (mn : string) (st : hstate) (op : hop) : result hstate :=
  match op with
  | HMount ad cfg bind dflt =>
      match from_module_cfg (hs_ns st) mn ad cfg with
      | Err e => Err e
      | Ok sc => match add_collection (hs_root st) sc (Some bind) dflt with
                 | Ok r => Ok (mkHS (hs_ns st) r)
                 | Err e => Err e
                 end
      end
  | HConfNs cfg =>
      match configure (hs_ns st) cfg with Ok n => Ok (mkHS n (hs_root st)) | Err e => Err e end
  | HConfMount key cfg =>
      match conf_sub (hs_root st) key cfg with Ok r => Ok (mkHS (hs_ns st) r) | Err e => Err e end
  | HConfRoot cfg =>
      match configure (hs_root st) cfg with Ok r => Ok (mkHS (hs_ns st) r) | Err e => Err e end
  end.

Fixpoint hops_run (mn : string) (st : hstate) (ops : list hop) : result hstate :=
  match ops with
  | [] => Ok st
  | op :: ops' => match hop_run mn st op with Ok st' => hops_run mn st' ops' | Err e => Err e end
  end.

Definition run_hist (h : hist) : result hstate :=
  match build (h_ns h) with
  | Err e => Err e
  | Ok nsc => hops_run (h_mod h) (mkHS nsc (new_coll (h_root h) true)) (h_ops h)
  end.
