(** The exit rule of [Runner.handle_stdin]'s loop, seen from the moment
    [program_finished] is set (C14, finding F-C14e).

      while True:
          data = self.read_our_stdin(input_)        # None: not ready; "": EOF; else: a unit
          if data:            forward it to the command (and echo)
          elif data is not None:  close the command's stdin (once, no pty)
          if self.program_finished.is_set() and not data: break
          time.sleep(self.input_sleep)

    Once the command is gone the loop is left only by an iteration whose read is
    NOT a unit of input: as long as the input stream keeps delivering, the worker
    keeps forwarding (to nobody), one unit per [input_sleep], and [_finish] joins
    this worker without a timeout.  No proofs here. *)
From InvokeVerif Require Export Common.Tree Common.StrUtil.

(** what one iteration's [read_our_stdin] gives *)
Inductive rd := RData | REmpty | RNotReady.

Definition is_data (r : rd) : bool := match r with RData => true | _ => false end.

(** [reads]: the results of the reads made from the iteration in which
    [program_finished] is first seen set; after the list the stream is at EOF.
    Number of loop iterations made from then on (the last one leaves the loop). *)
Fixpoint iterations_after_finish (reads : list rd) : nat :=
  match reads with
  | [] => 1
  | RData :: r => S (iterations_after_finish r)
  | _ :: _ => 1
  end.

(** units forwarded to the (finished) command meanwhile *)
Fixpoint forwarded_after_finish (reads : list rd) : nat :=
  match reads with
  | RData :: r => S (forwarded_after_finish r)
  | _ => 0
  end.

(** the child's stdin is closed by the leaving iteration iff it read EOF (no pty) *)
Fixpoint closes_after_finish (reads : list rd) : bool :=
  match reads with
  | [] => true
  | RData :: r => closes_after_finish r
  | REmpty :: _ => true
  | RNotReady :: _ => false
  end.
