(** [Runner.wait] -- the loop the main thread sits in while the command runs (C14):

      while True:
          proc_finished = self.process_is_finished
          dead_threads = self.has_dead_threads
          if proc_finished or dead_threads:
              break
          time.sleep(self.input_sleep)

    One look at the process (and at the workers) per iteration; between two looks the
    thread asks to sleep for exactly [input_sleep] -- the same amount in every iteration,
    however long the command has been running.  [looks]: what the successive looks find
    ([true] = the process has finished or a worker is dead: the loop is left); durations
    in microseconds.  The result is the list of durations handed to [time.sleep].
    No proofs here. *)
From Coq Require Import NArith List Bool.
Import ListNotations.

Fixpoint wait_loop (input_sleep : N) (looks : list bool) : list N :=
  match looks with
  | [] => []                                  (* still waiting: nothing further observed *)
  | true :: _ => []
  | false :: rest => input_sleep :: wait_loop input_sleep rest
  end.

(** the command keeps running for [n] looks and is found finished by the next one *)
Definition wait_sleeps (input_sleep : N) (n : nat) : list N :=
  wait_loop input_sleep (repeat false n ++ [true]).

(** Time in the model (sleeps are exact, a look costs nothing): the looks happen at
    0, input_sleep, 2*input_sleep, ...; a command that ends at time [t] after the loop
    was entered is found finished by look number [looks_before input_sleep t] (counting
    from 0), i.e. at time [noticed_at input_sleep t]. *)
Definition looks_before (input_sleep t : N) : N := ((t + input_sleep - 1) / input_sleep)%N.
Definition noticed_at (input_sleep t : N) : N := (looks_before input_sleep t * input_sleep)%N.
