(** invoke/env.py: Environment._crawl / _to_env_var / load / _path_set / _cast *)
From InvokeVerif Require Export Common.Tree Common.StrUtil Model.MergeModel.

Definition env_var (p : path) : string := upper (join "_" p).

(** An entry of the [env_vars] dict: VAR -> (key path, current value). *)
Definition entry := (string * (path * value))%type.

(** [_crawl]: [rp] is the key path so far, reversed.  Collisions are looked for
    only between what a child returns and what earlier siblings returned. *)
Fixpoint crawl (rp : path) (t : tree) {struct t} : result (list entry) :=
  match t with
  | Leaf v => Ok [(env_var (rev rp), (rev rp, v))]
  | Node kids =>
      (fix go (kids : list (string * tree)) (acc : list entry) {struct kids}
         : result (list entry) :=
         match kids with
         | [] => Ok acc
         | (k, c) :: rest =>
             match crawl (k :: rp) c with
             | Err e => Err e
             | Ok crawled =>
                 if existsb (fun e => mem (fst e) (map fst acc)) crawled
                 then Err EAmbigEnv
                 else go rest (acc ++ crawled)
             end
         end) kids []
  end.

Definition cast (old : value) (new : string) : result value :=
  match old with
  | VBool _ => Ok (VBool (negb (String.eqb new "0" || String.eqb new "")))
  | VStr _ => Ok (VStr new)
  | VNone => Ok (VStr new)
  | VList _ | VTuple _ => Err EUncastable
  | VInt _ => match parse_int new with Some z => Ok (VInt z) | None => Err EValue end
  end.

(** [_path_set] on the accumulator dict. *)
Fixpoint path_set (d : dict) (p : path) (v : value) : dict :=
  match p with
  | [] => d
  | [k] => set k (Leaf v) d
  | k :: p' =>
      match get k d with
      | Some (Node kids) => set k (Node (path_set kids p' v)) d
      | _ => set k (Node (path_set [] p' v)) d
      end
  end.

Definition environ := list (string * string).
Fixpoint env_get (name : string) (e : environ) : option string :=
  match e with
  | [] => None
  | (n, v) :: e' => if String.eqb name n then Some v else env_get name e'
  end.

Fixpoint apply_vars (pfx : string) (env : environ) (vars : list entry) (data : dict)
  : result dict :=
  match vars with
  | [] => Ok data
  | (var, (p, old)) :: rest =>
      match env_get (pfx ++ var) env with
      | Some s =>
          match cast old s with
          | Ok v => apply_vars pfx env rest (path_set data p v)
          | Err e => Err e
          end
      | None => apply_vars pfx env rest data
      end
  end.

(** [Environment(config, prefix).load()] given the merged config [t]. *)
Definition load (t : tree) (pfx : string) (env : environ) : result dict :=
  match crawl [] t with
  | Err e => Err e
  | Ok vars => apply_vars pfx env vars []
  end.
