(** [Runner._handle_output] / [read_proc_output] over a read script, and the
    part of [run] that C02 talks about (capture, mirror, hide normalisation).

    A script is what the OS hands the worker, in order: [RChunk bs] = the reader
    returned [bs]; [RExit] = the process was observed to have exited at that point
    (the loop never looks, which is the point).  The loop stops at the first
    empty read or when the script is exhausted (= EOF).

    Per non-empty read, in this order: decode THE CHUNK ALONE (fresh decoder),
    write+flush to the output stream unless hidden, append to the capture
    buffer, submit the whole joined buffer to the watchers.  The stream objects
    ([mirror], Common/MirrorStream.v) may advertise an encoding; the write hands
    them the decoded text regardless ([write_our_output]).  No proofs here. *)
From InvokeVerif Require Export Model.Utf8Model Common.MirrorStream.
Local Open Scope N_scope.

(** [Runner.write_our_output(stream, string)]: [stream.write(string); stream.flush()].
    The text handed to the stream object is the decoded piece as it is: the
    stream's [encoding] attribute (and what kind of stream it is) is not consulted. *)
Definition write_our_output (m : mirror) (d : text) : text := d.

(** What the mirror stream [m] holds after the loop's writes [ws] (one per decoded piece). *)
Definition mirrored (m : mirror) (ws : list text) : text :=
  stream_content m (map (write_our_output m) ws).

Record loop_out := mkLoop {
  lo_buf : list text;       (* the capture buffer (list of decoded pieces) *)
  lo_writes : list text;    (* what the out/err stream object received, write by write *)
  lo_submits : list text    (* what [respond] handed to the watchers, call by call *)
}.

(** [buf] = capture buffer on entry. *)
Fixpoint handle_output (e : enc) (hide : bool) (script : list rev) (buf : list text) : loop_out :=
  match script with
  | [] => mkLoop buf [] []
  | RExit :: r => handle_output e hide r buf
  | RChunk [] :: _ => mkLoop buf [] []
  | RChunk bs :: r =>
      let d := decode_all e bs in
      let buf' := buf ++ [d] in
      let o := handle_output e hide r buf' in
      mkLoop (lo_buf o) (if hide then lo_writes o else d :: lo_writes o)
             (List.concat buf' :: lo_submits o)
  end.

(** Repaired loop: the decoder state is threaded through the reads and flushed
    at EOF; empty pieces are not yielded. *)
Definition emit (hide : bool) (d : text) (buf : list text) (o : loop_out) : loop_out :=
  mkLoop (lo_buf o) (if hide then lo_writes o else d :: lo_writes o)
         (List.concat (buf ++ [d]) :: lo_submits o).

Definition finish_inc (hide : bool) (st : dstate) (buf : list text) : loop_out :=
  match dflush st with
  | [] => mkLoop buf [] []
  | d => emit hide d buf (mkLoop (buf ++ [d]) [] [])
  end.

Fixpoint handle_output_inc (e : enc) (hide : bool) (st : dstate) (script : list rev)
         (buf : list text) : loop_out :=
  match script with
  | [] => finish_inc hide st buf
  | RExit :: r => handle_output_inc e hide st r buf
  | RChunk [] :: _ => finish_inc hide st buf
  | RChunk bs :: r =>
      let so := drun e st bs in
      match snd so with
      | [] => handle_output_inc e hide (fst so) r buf
      | d => emit hide d buf (handle_output_inc e hide (fst so) r (buf ++ [d]))
      end
  end.

(** * [normalize_hide] and the options that feed it *)
Inductive hide_val := HNone | HFalse | HOut | HStdout | HErr | HStderr | HBoth | HTrue.

(** (stdout hidden, stderr hidden) *)
Definition normalize_hide (h : hide_val) (out_given err_given : bool) : bool * bool :=
  let base :=
    match h with
    | HNone | HFalse => (false, false)
    | HBoth | HTrue => (true, true)
    | HOut | HStdout => (true, false)
    | HErr | HStderr => (false, true)
    end in
  ((if out_given then false else fst base), (if err_given then false else snd base)).

(** [_unify_kwargs_with_config]: asynchronous runs force [hide=True] before
    normalisation. *)
Definition effective_hide (h : hide_val) (async out_given err_given : bool) : bool * bool :=
  normalize_hide (if async then HTrue else h) out_given err_given.

(** * The whole run, as far as C02 observes it *)
Record run_in := mkIn {
  ri_enc : enc;
  ri_out : list rev;        (* stdout read script *)
  ri_err : list rev;        (* stderr read script (never read when a pty is in effect) *)
  ri_hide : hide_val;
  ri_out_given : bool;      (* explicit out_stream *)
  ri_err_given : bool;
  ri_pty : bool;            (* a pty was ASKED for (the pty= option) *)
  ri_stdin_fileno : bool;   (* sys.stdin has a usable fileno *)
  ri_fallback : bool;       (* the fallback= option (default True) *)
  ri_async : bool;
  ri_out_mirror : mirror;   (* the stream stdout is forwarded to: advertised encoding, kind *)
  ri_err_mirror : mirror
}.

(** [Local.should_use_pty(pty, fallback)]: a pty is used when one was asked for, unless
    sys.stdin has no fileno and falling back to plain pipes is allowed. *)
Definition should_use_pty (pty stdin_fileno fallback : bool) : bool :=
  if pty then (if negb stdin_fileno && fallback then false else true) else false.

(** [self.using_pty]: what is in effect for this run.  [create_io_threads] starts the
    stderr reader iff this is false -- whatever was asked for. *)
Definition using_pty (i : run_in) : bool :=
  should_use_pty (ri_pty i) (ri_stdin_fileno i) (ri_fallback i).

Record run_obs := mkObs {
  ro_stdout : text;         (* Result.stdout (or the Result inside the failure) *)
  ro_stderr : text;
  ro_out_stream : text;     (* content of the out stream object ([stream_content]): for a recording
                               stream everything it was handed, for a wrapper what it made of that *)
  ro_err_stream : text;
  ro_out_submits : list text;
  ro_err_submits : list text
}.

Definition run_model (i : run_in) : run_obs :=
  let h := effective_hide (ri_hide i) (ri_async i) (ri_out_given i) (ri_err_given i) in
  let o := handle_output (ri_enc i) (fst h) (ri_out i) [] in
  let e := if using_pty i then mkLoop [] [] []
           else handle_output (ri_enc i) (snd h) (ri_err i) [] in
  mkObs (List.concat (lo_buf o)) (List.concat (lo_buf e))
        (mirrored (ri_out_mirror i) (lo_writes o)) (mirrored (ri_err_mirror i) (lo_writes e))
        (lo_submits o) (lo_submits e).

Definition run_model_inc (i : run_in) : run_obs :=
  let h := effective_hide (ri_hide i) (ri_async i) (ri_out_given i) (ri_err_given i) in
  let o := handle_output_inc (ri_enc i) (fst h) DInit (ri_out i) [] in
  let e := if using_pty i then mkLoop [] [] []
           else handle_output_inc (ri_enc i) (snd h) DInit (ri_err i) [] in
  mkObs (List.concat (lo_buf o)) (List.concat (lo_buf e))
        (mirrored (ri_out_mirror i) (lo_writes o)) (mirrored (ri_err_mirror i) (lo_writes e))
        (lo_submits o) (lo_submits e).

(** The texts handed to [write()] of the out / err mirror stream, call by call. *)
Definition run_writes_inc (i : run_in) : list text * list text :=
  let h := effective_hide (ri_hide i) (ri_async i) (ri_out_given i) (ri_err_given i) in
  let o := handle_output_inc (ri_enc i) (fst h) DInit (ri_out i) [] in
  let e := if using_pty i then mkLoop [] [] []
           else handle_output_inc (ri_enc i) (snd h) DInit (ri_err i) [] in
  (map (write_our_output (ri_out_mirror i)) (lo_writes o),
   map (write_our_output (ri_err_mirror i)) (lo_writes e)).

(** the same run with other mirror streams *)
Definition with_mirrors (i : run_in) (mo me : mirror) : run_in :=
  mkIn (ri_enc i) (ri_out i) (ri_err i) (ri_hide i) (ri_out_given i) (ri_err_given i)
       (ri_pty i) (ri_stdin_fileno i) (ri_fallback i) (ri_async i) mo me.

(** the same run with another pty request / sys.stdin / fallback setting *)
Definition with_pty_request (i : run_in) (pty stdin_fileno fallback : bool) : run_in :=
  mkIn (ri_enc i) (ri_out i) (ri_err i) (ri_hide i) (ri_out_given i) (ri_err_given i)
       pty stdin_fileno fallback (ri_async i) (ri_out_mirror i) (ri_err_mirror i).
