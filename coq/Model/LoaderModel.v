(** Faithful model of invoke/loader.py: FilesystemLoader.find (upward walk
    over the prefixes of the start path) and Loader.load (parent rule), over
    an abstract file system.

    OS contract (assumed, see trusted base): [os.listdir p] answers with the
    listing recorded under the very string [p] or raises FileNotFoundError;
    [os.path.exists p] is membership in [fs_files]; [os.listdir ""] raises
    FileNotFoundError (Linux).  Paths are made of "/"-separated components
    without "." / ".." / empty components (except a leading or one trailing
    separator); Path() normalisation beyond that is not modelled. *)
From InvokeVerif Require Export Common.FsTypes.

Definition sep : ascii := "/"%char.

Fixpoint last_is_sep (s : string) : bool :=
  match s with
  | EmptyString => false
  | String c EmptyString => Ascii.eqb c sep
  | String _ s' => last_is_sep s'
  end.

(** os.path.join(a, b) for b not starting with "/" *)
Definition path_join (a b : string) : string :=
  if String.eqb a "" then b
  else if last_is_sep a then (a ++ b)%string
  else (a ++ "/" ++ b)%string.

(** What find() hands to load(): the spec's origin and whether it is a package
    (spec.parent non-empty), or nothing, or CollectionNotFound. *)
Inductive find_res :=
| FSpec (origin : string) (is_pkg : bool)
| FNone
| FNotFound.

(** The loop [for x in reversed(range(len(paths) + 1))], from [x] downwards. *)
Fixpoint walk (fs : fsys) (name : string) (paths : list string) (x : nat) : find_res :=
  let path := join "/" (firstn x paths) in
  let module := (name ++ ".py")%string in
  match listdir fs path with
  | None => FNotFound            (* FileNotFoundError -> CollectionNotFound *)
  | Some entries =>
      if mem module entries then FSpec (path_join path module) false
      else if mem name entries &&
              path_exists fs (path_join (path_join path name) "__init__.py")
      then FSpec (path_join (path_join path name) "__init__.py") true
      else match x with
           | O => FNone
           | S x' => walk fs name paths x'
           end
  end.

(** FilesystemLoader.find *)
Definition find (fs : fsys) (name start : string) : find_res :=
  let paths := split_char sep start in
  walk fs name paths (List.length paths).

(** str(Path(p).parent): pathlib drops "." components (it keeps ".."), then
    the last component is removed *)
Definition not_dot (c : string) : bool := negb (String.eqb c ".").

Definition path_parent (p : string) : string :=
  let d := join "/" (removelast (filter not_dot (split_char sep p))) in
  if String.eqb d "" then (if starts_with "/" p then "/" else ".") else d.

Inductive load_res :=
| Loaded (file : string) (parent : string)    (* module.__file__, project dir *)
| NotFound                                    (* CollectionNotFound *)
| ImportErr.                                  (* ImportError (find returned None) *)

(** importlib.util.spec_from_file_location makes the location absolute
    (importlib._bootstrap_external._path_abspath: cwd joined in front of a
    relative location); [spec.origin] is that absolute string. *)
Definition abs_location (cwd p : string) : string :=
  if starts_with "/" p then p else path_join cwd p.

(** Loader.load, in a process whose working directory is [cwd] *)
Definition load (fs : fsys) (cwd name start : string) : load_res :=
  match find fs name start with
  | FSpec location is_pkg =>
      let origin := abs_location cwd location in
      let enclosing := path_parent origin in
      Loaded origin (if is_pkg then path_parent enclosing else enclosing)
  | FNone => ImportErr
  | FNotFound => NotFound
  end.
