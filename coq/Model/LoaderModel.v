(** Faithful model of invoke/loader.py (as of a51b5ff): FilesystemLoader.find
    (upward walk over the prefixes of os.path.abspath(start), the root
    included) and Loader.load (parent rule), over an abstract file system.

    OS contract (assumed, see trusted base): [os.listdir p] answers with the
    listing recorded under the very string [p] or raises FileNotFoundError;
    [os.path.exists p] is membership in [fs_files]; [os.path.abspath] is the
    lexical normalisation [abs_comps] against the working directory (no
    symlink resolution; a leading "//" is not modelled). *)
From InvokeVerif Require Export Common.FsTypes.

Definition sep : ascii := "/"%char.

Fixpoint last_is_sep (s : string) : bool :=
  match s with
  | EmptyString => false
  | String c EmptyString => Ascii.eqb c sep
  | String _ s' => last_is_sep s'
  end.

(** os.path.join(a, b) for b not starting with "/" *)
Definition path_join (a b : string) : string :=
  if String.eqb a "" then b
  else if last_is_sep a then (a ++ b)%string
  else (a ++ "/" ++ b)%string.

(** What find() hands to load(): the spec's origin and whether it is a package
    (spec.parent non-empty), or nothing, or CollectionNotFound. *)
Inductive find_res :=
| FSpec (origin : string) (is_pkg : bool)
| FNone                         (* find returned None: no longer reachable since a51b5ff *)
| FNotFound.

(** os.path.abspath(start) *)
Definition abspath (cwd p : string) : string := dir_str (abs_comps cwd p).

(** The loop [for x in reversed(range(1, len(paths) + 1))], from [x] downwards;
    [path = os.sep.join(paths[0:x]) or os.sep].  A directory that cannot be
    listed ends the search (FileNotFoundError is caught, then
    CollectionNotFound is raised), as does running out of prefixes. *)
Fixpoint walk (fs : fsys) (name : string) (paths : list string) (x : nat) : find_res :=
  match x with
  | O => FNotFound
  | S x' =>
      let j := join "/" (firstn x paths) in
      let path := if String.eqb j "" then "/" else j in
      let module := (name ++ ".py")%string in
      match listdir fs path with
      | None => FNotFound
      | Some entries =>
          if mem module entries then FSpec (path_join path module) false
          else if mem name entries &&
                  path_exists fs (path_join (path_join path name) "__init__.py")
          then FSpec (path_join (path_join path name) "__init__.py") true
          else walk fs name paths x'
      end
  end.

(** FilesystemLoader.find (in a process whose working directory is [cwd]) *)
Definition find (fs : fsys) (cwd name start : string) : find_res :=
  let paths := split_char sep (abspath cwd start) in
  walk fs name paths (List.length paths).

(** str(Path(p).parent): pathlib drops "." components (it keeps ".."), then
    the last component is removed *)
Definition not_dot (c : string) : bool := negb (String.eqb c ".").

Definition path_parent (p : string) : string :=
  let d := join "/" (removelast (filter not_dot (split_char sep p))) in
  if String.eqb d "" then (if starts_with "/" p then "/" else ".") else d.

Inductive load_res :=
| Loaded (file : string) (parent : string)    (* module.__file__, project dir *)
| NotFound                                    (* CollectionNotFound *)
| ImportErr.                                  (* ImportError (find returned None) *)

(** importlib.util.spec_from_file_location makes the location absolute
    (importlib._bootstrap_external._path_abspath: cwd joined in front of a
    relative location); [spec.origin] is that absolute string. *)
Definition abs_location (cwd p : string) : string :=
  if starts_with "/" p then p else path_join cwd p.

(** Loader.load, in a process whose working directory is [cwd] *)
Definition load (fs : fsys) (cwd name start : string) : load_res :=
  match find fs cwd name start with
  | FSpec location is_pkg =>
      let origin := abs_location cwd location in
      let enclosing := path_parent origin in
      Loaded origin (if is_pkg then path_parent enclosing else enclosing)
  | FNone => ImportErr
  | FNotFound => NotFound
  end.

(** ** One loader object used several times.

    [FilesystemLoader(start=s)] stores only the start it was *given*; with no
    given start (and no [tasks.search_root]) the [start] property re-reads the
    working directory at every use, so each step of a session -- reading
    [.start], or [load(name)] -- is answered from the working directory of
    that step, whatever happened before (earlier reads, earlier loads, also
    ones that ended in CollectionNotFound). *)
Inductive lstep :=
| LStart (cwd : string)        (* loader.start, read in working directory cwd *)
| LLoad (cwd : string).        (* loader.load(name), in working directory cwd *)

Inductive lres :=
| RStart (s : string)
| RLoad (r : load_res).

Definition eff_start (given : option string) (cwd : string) : string :=
  match given with Some s => s | None => cwd end.

Definition step_run (fs : fsys) (given : option string) (name : string) (st : lstep) : lres :=
  match st with
  | LStart cwd => RStart (eff_start given cwd)
  | LLoad cwd => RLoad (load fs cwd name (eff_start given cwd))
  end.

Definition session_run (fs : fsys) (given : option string) (name : string) (steps : list lstep)
  : list lres := map (step_run fs given name) steps.
