(** invoke/parser/argument.py: the runtime state of an [Argument].

    Static part: [argspec] (Common/ArgSpec.v).  Runtime part: [raw_value]
    (only ever tested for [is None], so a boolean "raw_value is not None") and
    [_value].  What the parser hands to [set_value] is either a token (str) or
    a Python bool ([flag.value = True/False], [set_value(True, cast=False)]). *)
From InvokeVerif Require Export Common.ArgSpec.

Inductive inval := IStr (s : string) | IBool (b : bool).

Record rarg := mkRArg {
  r_spec : argspec;
  r_raw : bool;      (* raw_value is not None *)
  r_val : aval       (* _value *)
}.

Definition aval_is_none (v : aval) : bool :=
  match v with ANone => true | _ => false end.

(** [Argument.__init__]: list kinds start as [], incrementables as their
    default (the second test overrides the first). *)
Definition init_value (a : argspec) : aval :=
  if a_incrementable a then a_default a
  else match a_kind a with KList => AList [] | _ => ANone end.

Definition init_arg (a : argspec) : rarg :=
  mkRArg a (negb (aval_is_none (init_value a))) (init_value a).

(** [Argument.value]: [_value if _value is not None else default]. *)
Definition arg_value (r : rarg) : aval :=
  if aval_is_none (r_val r) then a_default (r_spec r) else r_val r.

(** Python truthiness of the modelled values. *)
Definition py_truthy (v : aval) : bool :=
  match v with
  | ANone => false
  | AStr s => negb (String.eqb s "")
  | AInt z => negb (Z.eqb z 0)
  | ABool b => b
  | AList [] => false
  | AList (_ :: _) => true
  end.

(** [Argument.got_value] *)
Definition got_value (r : rarg) : bool :=
  match a_kind (r_spec r) with
  | KList => py_truthy (r_val r)
  | _ => negb (aval_is_none (r_val r))
  end.

(** [self.kind(value)] for the three scalar kinds.  [int()] is [parse_int]
    (form [+-]?[0-9]+; anything else is a ValueError, which the parse machine
    turns into a ParseError since repair 401bc73 -- see [checked] in ParserModel.v). *)
Definition cast_kind (k : akind) (v : inval) : result aval :=
  match k, v with
  | KStr, IStr s => Ok (AStr s)
  | KStr, IBool b => Ok (AStr (if b then "True" else "False"))
  | KInt, IStr s => match parse_int s with Some z => Ok (AInt z) | None => Err EValue end
  | KInt, IBool b => Ok (AInt (if b then 1 else 0)%Z)
  | KBool, IStr s => Ok (ABool (negb (String.eqb s "")))
  | KBool, IBool b => Ok (ABool b)
  | KList, _ => Err EOther   (* list(...) is never the function applied: see [set_value] *)
  | KOther ty dflt tbl, IStr s =>
      match cast_other dflt tbl s with
      | COk r => Ok (AStr (other_repr ty r))
      | CFailV => Err EValue
      | CFailT => Err EType
      end
  | KOther _ _ _, IBool _ => Err EOther   (* kind(True) with cast: never happens for value-taking arguments *)
  end.

Definition aval_of_inval (v : inval) : aval :=
  match v with IStr s => AStr s | IBool b => ABool b end.

(** [Argument.set_value(value, cast)].  The function applied is chosen by
    three successive overriding tests: cast -> kind; kind is list -> append;
    incrementable -> +1.  [EType] is Python's TypeError of [None + 1],
    ["x" + 1], [None + [x]]... ; [EOther] marks the one combination the model
    cannot represent (a bool appended to a list). *)
Definition new_value (r : rarg) (v : inval) (cast : bool) : result aval :=
  let a := r_spec r in
  if a_incrementable a then
    match arg_value r with
    | AInt z => Ok (AInt (z + 1)%Z)
    | ABool b => Ok (AInt (if b then 2 else 1)%Z)
    | _ => Err EType
    end
  else
    match a_kind a with
    | KList =>
        match arg_value r, v with
        | AList l, IStr s => Ok (AList (l ++ [s]))
        | AList _, IBool _ => Err EOther
        | _, _ => Err EType
        end
    | k => if cast then cast_kind k v else Ok (aval_of_inval v)
    end.

Definition set_value (r : rarg) (v : inval) (cast : bool) : result rarg :=
  match new_value r v cast with
  | Ok x => Ok (mkRArg (r_spec r) true x)
  | Err e => Err e
  end.
