(** invoke/runners.py: [Runner._unify_kwargs_with_config], [normalize_hide],
    [Runner._setup] (env, echo), the head of [Runner._run_body] (dry / start /
    disown / async) and [generate_env]; invoke/config.py [global_defaults]'s
    [run] section and [timeouts.command].

    Option values are kept as they are (no coercion): the code tests some by
    truthiness ([if self._asynchronous]), some by identity ([opts["dry"] is True],
    [opts["hide"] is True or == "both"]) and passes the rest through. *)
From InvokeVerif Require Export Model.RunTypes.

(** [self.context.config.run[key]] *)
Definition cfg_run (c : config) (o : opt) : oval :=
  match cf c o with Some v => v | None => default o end.

(** [runtime = kwargs.pop(key, None); opts[key] = value if runtime is None else runtime] *)
Definition pick (runtime : option oval) (value : oval) : oval :=
  match runtime with
  | None | Some ONone => value
  | Some r => r
  end.

(** [normalize_hide(val, out_stream, err_stream)]; [None] = ValueError. *)
Definition normalize_hide (val out_stream err_stream : oval) : option (list string) :=
  let base :=
    match val with
    | ONone | OBool false => Some []
    | OBool true => Some ["stdout"; "stderr"]
    | OStr s =>
        if String.eqb s "both" then Some ["stdout"; "stderr"]
        else if String.eqb s "out" then Some ["stdout"]
        else if String.eqb s "err" then Some ["stderr"]
        else if String.eqb s "stdout" || String.eqb s "stderr" then Some [s]
        else None
    | _ => None
    end in
  match base with
  | None => None
  | Some hide =>
      let hide := match out_stream with
                  | ONone => hide
                  | _ => filter (fun x => negb (String.eqb x "stdout")) hide
                  end in
      let hide := match err_stream with
                  | ONone => hide
                  | _ => filter (fun x => negb (String.eqb x "stderr")) hide
                  end in
      Some hide
  end.

(** [opts["hide"] is True or opts["hide"] == "both"] (fix f03a111) *)
Definition hide_full (v : oval) : bool :=
  match v with
  | OBool true => true
  | OStr s => String.eqb s "both"
  | _ => false
  end.

Definition unify (c : config) (k : kwargs) : result resolved :=
  let opts0 := fun o => pick (kw k o) (cfg_run c o) in
  let timeout := match kw_timeout k with Some v => v | None => cf_timeout c end in
  match kw_extra k with
  | _ :: _ => Err EType
  | [] =>
      let async := truthy (opts0 Asynchronous) in
      let disown := truthy (opts0 Disown) in
      if async && disown then Err EValue
      else
        let echo1 := if hide_full (opts0 Hide) then OBool false else opts0 Echo in
        let echo2 := if is_True (opts0 Dry) then OBool true else echo1 in
        let hide1 := if async then OBool true else opts0 Hide in
        match normalize_hide hide1 (opts0 OutStream) (opts0 ErrStream) with
        | None => Err EValue
        | Some hide =>
            Ok (mkRes
                  (fun o => match o with Echo => echo2 | Hide => OList hide | _ => opts0 o end)
                  timeout
                  (match opts0 OutStream with ONone => sys_stdout | s => s end)
                  (match opts0 ErrStream with ONone => sys_stderr | s => s end)
                  (match opts0 InStream with
                   | ONone => if async then OBool false else sys_stdin
                   | s => s
                   end)
                  (opts0 Pty)
                  (if truthy (opts0 Watchers) then opts0 Watchers else OList []))
        end
  end.

(** [dict(os.environ, **env)]: parent updated with [env]. *)
Fixpoint env_set (k v : string) (e : env) : env :=
  match e with
  | [] => [(k, v)]
  | (k', v') :: e' => if String.eqb k k' then (k, v) :: e' else (k', v') :: env_set k v e'
  end.

Definition env_update (parent new : env) : env :=
  fold_left (fun acc kv => env_set (fst kv) (snd kv) acc) new parent.

Definition generate_env (envv replace_env : oval) (parent : env) : env :=
  let e := match envv with ODict d => d | _ => [] end in
  if truthy replace_env then e else env_update parent e.

Definition echo_text (fmt : oval) (command : string) : string :=
  match fmt with
  | OStr f => (subst_command 0 f command ++ String (ascii_of_nat 10) "")%string
  | _ => ""
  end.

(** [Runner.run(command, **kwargs)] up to the point where IO begins. *)
Definition run_model (c : config) (parent : env) (command : string) (k : kwargs) : outcome :=
  match unify c k with
  | Err e => mkOut (Some e) None None None RRaised
  | Ok r =>
      let o := r_opts r in
      let child := generate_env (o Env) (o ReplaceEnv) parent in
      let echo := if truthy (o Echo) then Some (echo_text (o EchoFormat) command) else None in
      if truthy (o Dry) then mkOut None None echo (Some r) RResult
      else
        mkOut None (Some (command, o Shell, child)) echo (Some r)
              (if truthy (o Disown) then RNoneK
               else if truthy (o Asynchronous) then RPromise else RResult)
  end.
