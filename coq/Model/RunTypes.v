(** Vocabulary shared by the run-option / command-composition models and the C15
    specification: option values, the option table with its built-in defaults
    ([Config.global_defaults()["run"]]), configuration and keyword arguments,
    what is observed of a call, programs of nested [cd] / [prefix] blocks. *)
From InvokeVerif Require Export Common.Tree Common.StrUtil.

Inductive oval :=
| ONone
| OBool (b : bool)
| OStr (s : string)
| OInt (z : Z)
| ODict (d : list (string * string))     (* env mappings *)
| OStream (tag : string)                 (* a caller-supplied stream object *)
| OList (l : list string).               (* watchers (by tag), hide tuple *)

Definition env := list (string * string).

Inductive opt :=
| Asynchronous | Disown | Dry | Echo | EchoStdin | Encoding | Env | ErrStream
| Fallback | Hide | InStream | OutStream | EchoFormat | Pty | ReplaceEnv | Shell
| Warn | Watchers.

Definition all_opts : list opt :=
  [Asynchronous; Disown; Dry; Echo; EchoStdin; Encoding; Env; ErrStream; Fallback; Hide;
   InStream; OutStream; EchoFormat; Pty; ReplaceEnv; Shell; Warn; Watchers].

Definition esc : string := String (ascii_of_nat 27) "".

(** [Config.global_defaults()["run"]] (non-Windows: shell = /bin/bash). *)
Definition default (o : opt) : oval :=
  match o with
  | Asynchronous | Disown | Dry | Echo | Pty | ReplaceEnv | Warn => OBool false
  | Fallback => OBool true
  | EchoStdin | Encoding | ErrStream | Hide | InStream | OutStream => ONone
  | Env => ODict []
  | EchoFormat => OStr (esc ++ "[1;37m{command}" ++ esc ++ "[0m")
  | Shell => OStr "/bin/bash"
  | Watchers => OList []
  end.

(** Python truthiness of the values that occur. *)
Definition truthy (v : oval) : bool :=
  match v with
  | ONone => false
  | OBool b => b
  | OStr s => negb (String.eqb s "")
  | OInt z => negb (Z.eqb z 0)
  | ODict d => match d with [] => false | _ => true end
  | OStream _ => true
  | OList l => match l with [] => false | _ => true end
  end.

(** [v is True] *)
Definition is_True (v : oval) : bool := match v with OBool true => true | _ => false end.

(** What the caller configured ([run.*] of the merged config minus the defaults,
    [timeouts.command]) and what was passed to [run(...)]. *)
Record config := mkCfg { cf : opt -> option oval; cf_timeout : oval }.
Record kwargs := mkKw {
  kw : opt -> option oval;        (* [Some ONone] = passed explicitly as None *)
  kw_timeout : option oval;
  kw_extra : list string          (* keyword arguments that are not options *)
}.

Definition sys_stdout := OStream "sys.stdout".
Definition sys_stderr := OStream "sys.stderr".
Definition sys_stdin := OStream "sys.stdin".

Record resolved := mkRes {
  r_opts : opt -> oval;            (* self.opts minus timeout *)
  r_timeout : oval;                (* self.opts["timeout"] *)
  r_out : oval; r_err : oval; r_in : oval;   (* self.streams *)
  r_pty : oval;                    (* self.using_pty (base Runner: the option itself) *)
  r_watchers : oval                (* self.watchers *)
}.

(** [fmt.format(command=command)] for formats whose only braces are [{command}]. *)
Fixpoint subst_command (skip : nat) (fmt command : string) : string :=
  match fmt with
  | EmptyString => EmptyString
  | String ch rest =>
      match skip with
      | S n => subst_command n rest command
      | O => if starts_with "{command}" fmt
             then (command ++ subst_command 8 rest command)%string
             else String ch (subst_command 0 rest command)
      end
  end.

Inductive rkind := RResult | RNoneK | RPromise | RRaised.

Record outcome := mkOut {
  o_exc : option err;
  o_started : option (string * oval * env);   (* start(command, shell, env) *)
  o_echo : option string;                     (* text printed by echo() *)
  o_res : option resolved;
  o_kind : rkind                              (* what run() returned *)
}.


(** * Context state, library functions on paths, programs *)
Record cstate := mkC { prefixes : list string; cwds : list string }.

Definition is_abs (p : string) : bool := starts_with "~" p || starts_with "/" p.

(** [path.replace(" ", r"\ ")] *)
Fixpoint escape_spaces (s : string) : string :=
  match s with
  | EmptyString => EmptyString
  | String c s' =>
      if Ascii.eqb c " "%char then String "\"%char (String " "%char (escape_spaces s'))
      else String c (escape_spaces s')
  end.

Fixpoint ends_with_slash (s : string) : bool :=
  match s with
  | EmptyString => false
  | String c EmptyString => Ascii.eqb c "/"%char
  | String _ s' => ends_with_slash s'
  end.

(** [posixpath.join] *)
Definition join2 (path b : string) : string :=
  if starts_with "/" b then b
  else if String.eqb path "" || ends_with_slash path then (path ++ b)%string
  else (path ++ "/" ++ b)%string.

Definition posix_join (l : list string) : string :=
  match l with
  | [] => ""
  | a :: p => fold_left join2 p a
  end.

(** * Programs *)
Inductive block := BCd (p : string) | BPrefix (p : string) | BTry.

(** How a body may be left other than by falling off its end.  [XBoom], [XType],
    [XValue], [XUnexpected] are [Exception] subclasses (an application error; the
    TypeError / ValueError of refused options; the UnexpectedExit of a command that
    exited non-zero); KeyboardInterrupt, SystemExit and GeneratorExit are not. *)
Inductive xkind := XBoom | XType | XValue | XUnexpected | XKbd | XSysExit | XGenExit
                   | XOtherExc.   (* any other Exception subclass (never produced by the model) *)

Definition is_exception (x : xkind) : bool :=
  match x with
  | XBoom | XType | XValue | XUnexpected | XOtherExc => true
  | XKbd | XSysExit | XGenExit => false
  end.

Definition xkind_eqb (a b : xkind) : bool :=
  match a, b with
  | XBoom, XBoom | XType, XType | XValue, XValue | XUnexpected, XUnexpected
  | XKbd, XKbd | XSysExit, XSysExit | XGenExit, XGenExit | XOtherExc, XOtherExc => true
  | _, _ => false
  end.

Definition oxkind_eqb (a b : option xkind) : bool :=
  match a, b with
  | None, None => true
  | Some x, Some y => xkind_eqb x y
  | _, _ => false
  end.

(** [fails]: the command exits non-zero. *)
Inductive stmt :=
| SRun (cmd : string) (k : kwargs) (fails : bool)
| SSudo (cmd : string) (user_kw : option oval) (k : kwargs) (fails : bool)
| SRaise (x : xkind)
| SBlock (b : block) (body : list stmt).

Record ctxcfg := mkCC {
  cc_run : config;        (* run.* / timeouts as configured *)
  cc_prompt : string;     (* sudo.prompt *)
  cc_user : oval;         (* sudo.user *)
  cc_parent : env         (* os.environ *)
}.

(** what the runner's [start] received *)
Definition started := option (string * oval * env).
(** what is observed of one run / sudo call inside a program: everything that is
    observed of a single [run] (exception, [start] arguments, echo, resolved options
    incl. timeout, streams, watchers, kind of return value) *)
Definition call := outcome.


(** * Boolean equalities *)
Definition kv_eqb (a b : string * string) : bool :=
  String.eqb (fst a) (fst b) && String.eqb (snd a) (snd b).

Definition oval_eqb (a b : oval) : bool :=
  match a, b with
  | ONone, ONone => true
  | OBool x, OBool y => Bool.eqb x y
  | OStr x, OStr y => String.eqb x y
  | OInt x, OInt y => Z.eqb x y
  | ODict x, ODict y => list_eqb kv_eqb x y
  | OStream x, OStream y => String.eqb x y
  | OList x, OList y => list_eqb String.eqb x y
  | _, _ => false
  end.

Definition opt_str_eqb (a b : option string) : bool :=
  match a, b with
  | None, None => true
  | Some x, Some y => String.eqb x y
  | _, _ => false
  end.

Definition lookup_env (key : string) (e : env) : option string :=
  match find (fun kv => String.eqb key (fst kv)) e with
  | Some kv => Some (snd kv)
  | None => None
  end.
