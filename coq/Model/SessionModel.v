(** One [Executor.execute] session as far as configuration is concerned
    (invoke/executor.py, lines "for call in calls: ..."): the calls of the
    session in execution order, each with the name it was called as (directly
    requested calls only: pre/post tasks and the implicitly chosen default task
    are [Call]s without [called_as]); before every body the shared [Config]
    gets [load_collection(collection.configuration(called_as))] and
    [load_shell_env()]; the body then performs its edits.
    Composition of CollModel (configuration), ConfigModel (step) and the
    expansion / dedupe of ExecModel specialised to argument-less tasks.
    No proofs here. *)
From InvokeVerif Require Export Model.CollModel Model.ConfigModel.

(** A task with its (recursively expanded) pre- and post-tasks. *)
Inductive scall := SCall (task : nat) (pre post : list scall).

(** an expanded call: the task and how it was called *)
Definition ecall := (nat * option string)%type.

Fixpoint sexpand (called_as : option string) (c : scall) : list ecall :=
  match c with
  | SCall t pre post =>
      (fix go (l : list scall) : list ecall :=
         match l with [] => [] | x :: l' => sexpand None x ++ go l' end) pre
      ++ (t, called_as) ::
      (fix go (l : list scall) : list ecall :=
         match l with [] => [] | x :: l' => sexpand None x ++ go l' end) post
  end.

(** argument-less calls are equal iff they are calls of the same task
    ([called_as] is not compared) *)
Fixpoint sdedupe_from (kept : list ecall) (l : list ecall) : list ecall :=
  match l with
  | [] => kept
  | c :: l' => if existsb (fun d => Nat.eqb (fst d) (fst c)) kept then sdedupe_from kept l'
               else sdedupe_from (kept ++ [c]) l'
  end.

(** requests by name (with the tree of the task the name resolves to); without
    requests, the root collection's default task, as a bare call *)
Definition session_calls (reqs : list (string * scall)) (dflt : option scall) (dedupe_on : bool)
  : list ecall :=
  let expanded :=
    match reqs with
    | [] => match dflt with Some c => sexpand None c | None => [] end
    | _ => flat_map (fun r => sexpand (Some (fst r)) (snd r)) reqs
    end in
  if dedupe_on then sdedupe_from [] expanded else expanded.

(** what one body saw and did: task, view on entry, outcome of each edit, view on exit *)
Definition brecord := (nat * dict * list outcome * dict)%type.

Fixpoint run_body (fs : fsys) (c : cfg) (ops : list op) : cfg * list outcome * option err :=
  match ops with
  | [] => (c, [], None)
  | o :: rest =>
      let '(c', out) := step fs c o in
      match out with
      | OErr e =>
          if abnormal out then (c', [out], Some e)
          else let '(c'', outs, er) := run_body fs c' rest in (c'', out :: outs, er)
      | _ => let '(c'', outs, er) := run_body fs c' rest in (c'', out :: outs, er)
      end
  end.

Definition env := list (string * string).

(** the k-th executed call runs under the k-th environment (the last one
    repeats) *)
Fixpoint run_calls (fs : fsys) (ns : coll) (c : cfg) (bodies : nat -> list op)
         (calls : list ecall) (envs : list env) : list brecord * option err :=
  match calls with
  | [] => ([], None)
  | (t, called_as) :: rest =>
      let e := match envs with e :: _ => e | [] => [] end in
      let envs' := match envs with _ :: (_ :: _) as r => r | _ => envs end in
      match (match called_as with
             | Some n => configuration ns n
             | None => configuration_none ns
             end) with
      | Err er => ([], Some er)
      | Ok coll_cfg =>
          match step fs c (LoadCollection (Node coll_cfg)) with
          | (_, OErr er) => ([], Some er)
          | (c1, _) =>
              match step fs c1 (LoadShellEnv e) with
              | (_, OErr er) => ([], Some er)
              | (c2, _) =>
                  let '(c3, outs, er) := run_body fs c2 (bodies t) in
                  let rec := (t, c_cache c2, outs, c_cache c3) in
                  match er with
                  | Some x => ([rec], Some x)
                  | None =>
                      let '(recs, er') := run_calls fs ns c3 bodies rest envs' in
                      (rec :: recs, er')
                  end
              end
          end
      end
  end.

Definition session (ns : coll) (i : init_args) (bodies : list (nat * list op))
           (reqs : list (string * scall)) (dflt : option scall) (dedupe_on : bool)
           (envs : list env) : result (list brecord * option err) :=
  match start [] i with
  | Err e => Err e
  | Ok c0 =>
      Ok (run_calls [] ns c0
                    (fun t => match find (fun b => Nat.eqb (fst b) t) bodies with
                              | Some b => snd b | None => [] end)
                    (session_calls reqs dflt dedupe_on) envs)
  end.

(** Several [execute()] calls on one Executor: the Config object is the
    Executor's, so the session simply goes on; expansion and deduplication are
    per call of [execute].  [split] = 0: one call with all requests;
    otherwise [execute(first split requests)] then [execute(the rest)]. *)
Definition session_calls_split (reqs : list (string * scall)) (dflt : option scall) (dedupe_on : bool)
           (split : nat) : list ecall :=
  match split with
  | O => session_calls reqs dflt dedupe_on
  | _ => session_calls (firstn split reqs) dflt dedupe_on ++
         session_calls (skipn split reqs) dflt dedupe_on
  end.

Definition session_split (ns : coll) (i : init_args) (bodies : list (nat * list op))
           (reqs : list (string * scall)) (dflt : option scall) (dedupe_on : bool)
           (envs : list env) (split : nat) : result (list brecord * option err) :=
  match start [] i with
  | Err e => Err e
  | Ok c0 =>
      Ok (run_calls [] ns c0
                    (fun t => match find (fun b => Nat.eqb (fst b) t) bodies with
                              | Some b => snd b | None => [] end)
                    (session_calls_split reqs dflt dedupe_on split) envs)
  end.
