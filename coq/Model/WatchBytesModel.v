(** C12, output delivered as BYTES: [Runner.read_proc_output] (invoke/runners.py) makes
    one incremental decoder ([codecs.getincrementaldecoder(encoding)("replace")]) per call,
    i.e. ONE PER IO THREAD -- the stdout reader and the stderr reader each own theirs.  The
    bytes of a read go through that stream's decoder; the characters it completes are the
    piece appended to the capture buffer and submitted to the watchers
    ([_handle_output] -> [respond], Model/WatchModel.v); first bytes of a character cut by
    the read boundary stay in THAT stream's decoder until that stream's next read.

    A byte chunk is a [string] with one character per byte.  The decoder is
    Model/Utf8Model.v ([drun Utf8], shared with C02).  The watcher model works on
    8-bit characters, so only code points below 256 are representable: [in_region]
    says that a schedule stays inside (every decoded code point < 256, and both decoders
    are back in their initial state at the end, so that the flush at EOF yields nothing).

    A read that completes no character yields no piece in the code ([if text: yield]) and
    no [respond] call; here it is a read with the empty text, which answers nothing and
    changes no watcher state. *)
From InvokeVerif Require Import Model.Utf8Model.
From InvokeVerif Require Export Model.WatchModel.

Definition bytes_of_string (s : string) : list N := map N_of_ascii (chars s).
Definition text_of_cps (t : list N) : string := string_of_list_ascii (map ascii_of_N t).
Definition cps_small (t : list N) : bool := forallb (fun n => N.ltb n 256) t.

(** One stream's decoder over that stream's reads: the piece of each read, final state. *)
Fixpoint decode_stream (st : dstate) (chunks : list string) : list (list N) * dstate :=
  match chunks with
  | [] => ([], st)
  | c :: r =>
      let so := drun Utf8 st (bytes_of_string c) in
      let '(ps, fin) := decode_stream (fst so) r in
      (snd so :: ps, fin)
  end.

(** Both threads, each with its own decoder state, under an interleaving of reads. *)
Fixpoint decode_sched (so se : dstate) (sched : list event)
  : list (bool * list N) * (dstate * dstate) :=
  match sched with
  | [] => ([], (so, se))
  | (sid, c) :: rest =>
      let r := drun Utf8 (if sid then se else so) (bytes_of_string c) in
      let '(evs, fin) := decode_sched (if sid then so else fst r) (if sid then fst r else se) rest in
      ((sid, snd r) :: evs, fin)
  end.

Definition decoded (sched : list event) : list (bool * list N) :=
  fst (decode_sched DInit DInit sched).

Definition text_events (d : list (bool * list N)) : list event :=
  map (fun e => (fst e, text_of_cps (snd e))) d.

Definition in_region (sched : list event) : bool :=
  let '(d, (so, se)) := decode_sched DInit DInit sched in
  forallb (fun e => cps_small (snd e)) d && dstate_is_init so && dstate_is_init se.

(** The run on a schedule of byte reads. *)
Definition run_bytes (v : variant) (ws : list watcher) (sched : list event) :=
  run v ws (text_events (decoded sched)).

Definition run_bytes_eof (v : variant) (ws : list watcher) (sched : list event) :=
  run_eof v ws (text_events (decoded sched)).
