(** invoke/parser/parser.py: [Parser.parse_argv] + [ParseMachine] (with the
    vendored fluidity state machine's ordering of enter actions and transition
    actions), and on top of it the two parsing passes of invoke/program.py.

    Object references of the Python code become indices:
    - every [ParserContext] object alive during a parse (the deep copy of the
      initial context, then one deep copy per context switch) sits in
      [m_ctxs] in creation order; [self.context] is an index into it, the
      initial context (when there is one) has index 0;
    - [self.result] (a list of context objects) is a list of such indices;
    - [self.flag] (an [Argument] object of some context) is a pair
      (context index, argument index).  It is never reset by the code, so it
      may go on pointing into a finished context.
    A dangling index cannot exist in Python; the model treats it like
    [None] (lemma [flag_ref_valid] in Proofs/C07_parser.v shows it never
    arises). *)
From InvokeVerif Require Export Model.CtxModel.

Inductive pstate := SContext | SUnknown | SEnd.

Definition pstate_eqb (a b : pstate) : bool :=
  match a, b with
  | SContext, SContext | SUnknown, SUnknown | SEnd, SEnd => true
  | _, _ => false
  end.

Record machine := mkM {
  m_ctxs : list rctx;
  m_init : bool;                 (* self.initial is not None (then it is index 0) *)
  m_cur : option nat;            (* self.context *)
  m_res : list nat;              (* self.result *)
  m_flag : option (nat * nat);   (* self.flag *)
  m_got : bool;                  (* self.flag_got_value *)
  m_st : pstate;                 (* current_state *)
  m_unparsed : list string       (* self.result.unparsed *)
}.

(** The immutable part of a [Parser]: templates, ignore_unknown. *)
Record parser := mkP {
  p_ctxs : list ctxspec;
  p_initial : option ctxspec;
  p_ignore : bool
}.

(** ** Small accessors *)

Definition get_ctx (m : machine) (k : nat) : option rctx := nth_error (m_ctxs m) k.

Definition cur_ctx (m : machine) : option rctx :=
  match m_cur m with Some k => get_ctx m k | None => None end.

Definition init_ctx_of (m : machine) : option rctx :=
  if m_init m then get_ctx m 0 else None.

Definition get_arg (m : machine) (f : nat * nat) : option rarg :=
  match get_ctx m (fst f) with
  | Some c => nth_error (rc_args c) (snd f)
  | None => None
  end.

Definition flag_arg (m : machine) : option rarg :=
  match m_flag m with Some f => get_arg m f | None => None end.

Fixpoint upd_nth {A} (n : nat) (x : A) (l : list A) : list A :=
  match n, l with
  | _, [] => []
  | O, _ :: l' => x :: l'
  | S n', y :: l' => y :: upd_nth n' x l'
  end.

Definition set_ctxs (m : machine) (cs : list rctx) : machine :=
  mkM cs (m_init m) (m_cur m) (m_res m) (m_flag m) (m_got m) (m_st m) (m_unparsed m).

Definition put_arg (m : machine) (f : nat * nat) (r : rarg) : machine :=
  match get_ctx m (fst f) with
  | Some c =>
      set_ctxs m (upd_nth (fst f)
                          (mkRCtx (rc_name c) (rc_aliases c) (upd_nth (snd f) r (rc_args c)))
                          (m_ctxs m))
  | None => m
  end.

(** [arg.set_value(v, cast)] on the argument object [f] refers to. *)
Definition set_arg_value (m : machine) (f : nat * nat) (v : inval) (cast : bool)
  : result machine :=
  match get_arg m f with
  | None => Ok m
  | Some r =>
      match set_value r v cast with
      | Ok r' => Ok (put_arg m f r')
      | Err e => Err e
      end
  end.

Definition set_flag (m : machine) (f : option (nat * nat)) (got : bool) : machine :=
  mkM (m_ctxs m) (m_init m) (m_cur m) (m_res m) f got (m_st m) (m_unparsed m).

Definition set_state (m : machine) (s : pstate) : machine :=
  mkM (m_ctxs m) (m_init m) (m_cur m) (m_res m) (m_flag m) (m_got m) s (m_unparsed m).

(** [name in parser.contexts] / [parser.contexts[name]]: by name or alias. *)
Definition ctx_named (tok : string) (c : ctxspec) : bool :=
  match cx_name c with
  | Some n => String.eqb n tok || mem tok (cx_aliases c)
  | None => false
  end.

Definition find_ctx (cs : list ctxspec) (tok : string) : option ctxspec :=
  find (ctx_named tok) cs.

Definition is_ctx_name (cs : list ctxspec) (tok : string) : bool :=
  existsb (ctx_named tok) cs.

(** ** ParseMachine *)

(** [waiting_for_flag_value] *)
Definition waiting (m : machine) : bool :=
  match flag_arg m with
  | None => false
  | Some r =>
      if takes_value (r_spec r) then
        if akind_eqb (a_kind (r_spec r)) KList && negb (m_got m) then true
        else negb (r_raw r)
      else false
  end.

(** [complete_flag]: never clears [self.flag].  Repair 9120dc5: "needed value and
    was not given one" is judged by [flag_got_value] (whether *this occurrence*
    of the flag received a value), no longer by [raw_value is None]; the
    optional-value branch below still looks at [raw_value]. *)
Definition complete_flag (m : machine) : result machine :=
  match m_flag m, flag_arg m with
  | Some f, Some r =>
      if takes_value (r_spec r) && negb (m_got m) && negb (a_optional (r_spec r))
      then Err EParse
      else if negb (r_raw r) && a_optional (r_spec r)
      then set_arg_value m f (IBool true) false
      else Ok m
  | _, _ => Ok m
  end.

(** [complete_context] *)
Definition complete_context (m : machine) : result machine :=
  match m_cur m, cur_ctx m with
  | Some k, Some c =>
      if has_missing c then Err EParse
      else if existsb (Nat.eqb k) (m_res m) then Ok m
      else Ok (mkM (m_ctxs m) (m_init m) (m_cur m) (m_res m ++ [k]) (m_flag m) (m_got m)
                   (m_st m) (m_unparsed m))
  | _, _ => Ok m
  end.

(** The enter actions shared by the three states. *)
Definition enter_state (m : machine) : result machine :=
  bind (complete_flag m) complete_context.

(** fluidity [_Transition.run]: validity of the source state, new state,
    *enter actions of the target state*, then the transition's own action.
    An invalid source state is fluidity's InvalidTransition ([EOther]). *)
Definition transition (m : machine) (from_ok : bool) (to : pstate)
           (action : machine -> result machine) : result machine :=
  if from_ok then bind (enter_state (set_state m to)) action else Err EOther.

Definition in_context_or_unknown (m : machine) : bool :=
  match m_st m with SContext | SUnknown => true | SEnd => false end.

(** [switch_to_context]: deep copy of the template. *)
Definition switch_to_context (p : parser) (name : string) (m : machine) : result machine :=
  match find_ctx (p_ctxs p) name with
  | None => Err EKey
  | Some c =>
      Ok (mkM (m_ctxs m ++ [init_ctx c]) (m_init m) (Some (List.length (m_ctxs m)))
              (m_res m) (m_flag m) (m_got m) (m_st m) (m_unparsed m))
  end.

Definition see_context (p : parser) (name : string) (m : machine) : result machine :=
  transition m (pstate_eqb (m_st m) SContext) SContext (switch_to_context p name).

Definition store_only (tok : string) (m : machine) : result machine :=
  Ok (mkM (m_ctxs m) (m_init m) (m_cur m) (m_res m) (m_flag m) (m_got m) (m_st m)
          (m_unparsed m ++ [tok])).

Definition see_unknown (tok : string) (m : machine) : result machine :=
  transition m (in_context_or_unknown m) SUnknown (store_only tok).

Definition finish (m : machine) : result machine :=
  transition m (in_context_or_unknown m) SEnd (fun m' => Ok m').

(** [check_ambiguity] *)
Definition check_ambiguity (p : parser) (value : string) (m : machine) : result machine :=
  match flag_arg m with
  | None => Ok m
  | Some r =>
      if negb (a_optional (r_spec r)) then Ok m
      else if r_raw r then Ok m
      else if match cur_ctx m with Some c => has_missing c | None => false end
              || is_ctx_name (p_ctxs p) value
      then Err EParse
      else Ok m
  end.

(** [switch_to_flag] *)
Definition switch_to_flag (p : parser) (tok : string) (inverse : bool) (m : machine)
  : result machine :=
  bind (check_ambiguity p tok m) (fun m =>
  bind (complete_flag m) (fun m =>
  match m_cur m, cur_ctx m with
  | Some k, Some c =>
      match (if inverse then find_inverse (rc_args c) tok else Some tok) with
      | None => Err EKey
      | Some fl =>
          let found :=
            match find_flag (rc_args c) fl with
            | Some i => Some (k, i)
            | None =>
                match init_ctx_of m with
                | Some ic => match find_flag (rc_args ic) fl with
                             | Some i => Some (0, i)
                             | None => None
                             end
                | None => None
                end
            end in
          match found with
          | None => if m_init m then Err EKey else Err EAttr
          | Some f =>
              let m := set_flag m (Some f) false in
              match get_arg m f with
              | Some r =>
                  if takes_value (r_spec r) then Ok m
                  else set_arg_value m f (IBool (negb inverse)) true
              | None => Ok m
              end
          end
      end
  | _, _ => Err EAttr
  end)).

(** [ParseMachine.set_arg_value] (repairs 401bc73, f5d4a34): [arg.value = value]
    inside [try ... except (ValueError, TypeError): self.error(...)] -- a value
    the argument's type cannot convert is a ParseError, whichever of the two
    exceptions the type raises (int/float: ValueError; bytes, date: TypeError).
    Used by [see_value] and [see_positional_arg] only; the other assignments
    ([flag.value = True/False], the --help special case,
    [set_value(True, cast=False)]) are unguarded. *)
Definition checked (r : result machine) : result machine :=
  match r with
  | Err EValue => Err EParse
  | Err EType => Err EParse
  | _ => r
  end.

(** [see_value] *)
Definition see_value (p : parser) (tok : string) (m : machine) : result machine :=
  bind (check_ambiguity p tok m) (fun m =>
  match m_flag m, flag_arg m with
  | Some f, Some r =>
      if takes_value (r_spec r) then
        bind (checked (set_arg_value m f (IStr tok) true))
             (fun m => Ok (set_flag m (m_flag m) true))
      else Err EParse
  | _, _ => Err EParse
  end).

(** [see_positional_arg]: the first positional whose [.value] is None. *)
Definition see_positional_arg (tok : string) (m : machine) : result machine :=
  match m_cur m, cur_ctx m with
  | Some k, Some c =>
      match missing_positional (rc_args c) with
      | i :: _ => checked (set_arg_value m (k, i) (IStr tok) true)
      | [] => Ok m
      end
  | _, _ => Err EAttr
  end.

Definition ctx_has_flag (c : option rctx) (tok : string) : bool :=
  match c with
  | Some c => match find_flag (rc_args c) tok with Some _ => true | None => false end
  | None => false
  end.

Definition ctx_has_inverse (c : option rctx) (tok : string) : bool :=
  match c with
  | Some c => match find_inverse (rc_args c) tok with Some _ => true | None => false end
  | None => false
  end.

(** [handle] *)
Definition handle (p : parser) (tok : string) (m : machine) : result machine :=
  if pstate_eqb (m_st m) SUnknown then see_unknown tok m
  else if ctx_has_flag (cur_ctx m) tok then switch_to_flag p tok false m
  else if ctx_has_inverse (cur_ctx m) tok then switch_to_flag p tok true m
  else if waiting m then see_value p tok m
  else if match cur_ctx m with Some c => has_missing c | None => false end
  then see_positional_arg tok m
  else if is_ctx_name (p_ctxs p) tok then see_context p tok m
  else
    match init_ctx_of m with
    | Some ic =>
        match find_flag (rc_args ic) tok with
        | Some i =>
            match nth_error (rc_args ic) i with
            | Some r =>
                if String.eqb (arg_name (r_spec r)) "help" then
                  (* flag.value = self.context.name *)
                  match cur_ctx m with
                  | Some c =>
                      match rc_name c with
                      | Some n => set_arg_value m (0, i) (IStr n) true
                      | None => Err EOther
                      end
                  | None => Err EAttr
                  end
                else switch_to_flag p tok false m
            | None => Err EOther
            end
        | None => if p_ignore p then see_unknown tok m else Err EParse
        end
    | None => if p_ignore p then see_unknown tok m else Err EParse
    end.

(** [ParseMachine.__init__]: deep copy of the initial context becomes the
    current context; fluidity then runs the enter actions of "context". *)
Definition new_machine (p : parser) : result machine :=
  let m :=
    match p_initial p with
    | Some ic => mkM [init_ctx ic] true (Some 0) [] None false SContext []
    | None => mkM [] false None [] None false SContext []
    end in
  enter_state m.

(** ** Parser.parse_argv *)

Definition is_flag (t : string) : bool := starts_with "-" t.
Definition is_long_flag (t : string) : bool := starts_with "--" t.

Definition dash_each (s : string) : list string :=
  map (fun ch => String "-" (String ch EmptyString)) (list_ascii_of_string s).

(** The token-splitting step: the token actually handled and the tokens
    inserted right after it in [body]. *)
Definition presplit (m : machine) (t : string) : result (string * list string) :=
  if is_flag t && match m_unparsed m with [] => true | _ => false end then
    if contains_char "=" t then
      let '(h, _, v) := partition_char "=" t in Ok (h, [v])
    else if negb (is_long_flag t) && Nat.ltb 2 (String.length t) then
      let h := take 2 t in
      let rest := drop 2 t in
      (* repair dd95c66: the flag is looked up like [handle] does -- the current
         context first ([machine.context is not None and token in ...flags],
         repair e36c9e6), then the initial one; only outside the "unknown" state *)
      let flag_tv (c : rctx) : option bool :=
        match find_flag (rc_args c) h with
        | Some i => Some match nth_error (rc_args c) i with
                         | Some r => takes_value (r_spec r)
                         | None => false
                         end
        | None => None
        end in
      let have :=
        negb (pstate_eqb (m_st m) SUnknown) &&
        match (match cur_ctx m with Some c => flag_tv c | None => None end) with
        | Some b => b
        | None =>
            match init_ctx_of m with
            | Some ic => match flag_tv ic with Some b => b | None => false end
            | None => false
            end
        end in
      if have then Ok (h, [rest]) else Ok (h, dash_each rest)
    else Ok (t, [])
  else Ok (t, []).

(** The roll-back decision ([subtoken_is_valid_flag] is False when there is no
    current context, repair e36c9e6). *)
Definition rollback (m : machine) (orig : string) (sp : string * list string)
  : result (string * list string) :=
  if waiting m then
    let optional := match flag_arg m with Some r => a_optional (r_spec r) | None => false end in
    if optional && ctx_has_flag (cur_ctx m) (fst sp) then Ok sp else Ok (orig, [])
  else Ok sp.

(** One iteration of [for index, token in enumerate(body)]: new machine and
    the tokens inserted in front of the rest of the body. *)
Definition step (p : parser) (m : machine) (t : string) : result (machine * list string) :=
  bind (presplit m t) (fun sp =>
  bind (rollback m t sp) (fun sp =>
  bind (handle p (fst sp) m) (fun m' => Ok (m', snd sp)))).

(** (Before repairs 401bc73 / e36c9e6 the token-splitting step raised
    AttributeError when [machine.context] was None, and a failing [int()]
    escaped as ValueError: findings F-C07b / F-C07a.  Before 9120dc5
    [complete_flag] tested [raw_value is None] (F-C07c / F-C07d); before dd95c66
    the short-cluster split consulted the current context only (F-C18a); before
    f5d4a34 a TypeError of the argument's type escaped (F-C07f).  All "fixed" in
    KNOWN_FINDINGS.json; their witnesses stay in corpus/.) *)

(** Fuel: the loop consumes one unit per token handled.  [None] = fuel
    exhausted (shown impossible for [body_fuel] in Proofs/C07_parser.v). *)
Fixpoint loop (p : parser) (fuel : nat) (m : machine) (body : list string)
  : option (result machine) :=
  match body with
  | [] => Some (Ok m)
  | t :: rest =>
      match fuel with
      | O => None
      | S fuel' =>
          match step p m t with
          | Err e => Some (Err e)
          | Ok (m', pushed) => loop p fuel' m' (pushed ++ rest)
          end
      end
  end.

Definition tok_weight (t : string) : nat :=
  match String.length t with
  | 0 | 1 => 1
  | 2 => 2
  | n => 2 * n
  end.

Fixpoint body_fuel (body : list string) : nat :=
  match body with
  | [] => 0
  | t :: l => tok_weight t + body_fuel l
  end.

(** [argv.index("--")] split. *)
Fixpoint split_ddash (argv : list string) : list string * list string :=
  match argv with
  | [] => ([], [])
  | t :: l =>
      if String.eqb t "--" then ([], l)
      else let '(b, r) := split_ddash l in (t :: b, r)
  end.

(** What a [ParseResult] is, as far as the properties are concerned. *)
Record presult := mkRes {
  pr_ctxs : list rctx;
  pr_unparsed : list string;
  pr_remainder : string
}.

Definition result_ctxs (m : machine) : list rctx :=
  flat_map (fun k => match get_ctx m k with Some c => [c] | None => [] end) (m_res m).

(** [Parser.__init__]: non-initial contexts need names; names and aliases
    must be pairwise distinct (ValueError otherwise). *)
Definition ctx_labels (c : ctxspec) : list string :=
  match cx_name c with Some n => n :: cx_aliases c | None => cx_aliases c end.

Definition parser_ok (cs : list ctxspec) : bool :=
  forallb (fun c => match cx_name c with
                    | Some n => negb (String.eqb n "")
                    | None => false
                    end) cs
  && nodupb (flat_map ctx_labels cs).

Definition parse_argv_fuel (fuel : nat) (p : parser) (argv : list string)
  : option (result presult) :=
  let '(body, remainder) := split_ddash argv in
  match new_machine p with
  | Err e => Some (Err e)
  | Ok m =>
      match loop p fuel m body with
      | None => None
      | Some (Err e) => Some (Err e)
      | Some (Ok m) =>
          match finish m with
          | Err e => Some (Err e)
          | Ok m => Some (Ok (mkRes (result_ctxs m) (m_unparsed m) (join " " remainder)))
          end
      end
  end.

Definition parse_argv (p : parser) (argv : list string) : result presult :=
  match parse_argv_fuel (body_fuel (fst (split_ddash argv))) p argv with
  | Some r => r
  | None => Err EOther
  end.

(** [Parser(contexts, initial, ignore_unknown).parse_argv(argv)] *)
Definition parser_parse (cs : list ctxspec) (initial : option ctxspec) (ignore : bool)
           (argv : list string) : result presult :=
  if parser_ok cs then parse_argv (mkP cs initial ignore) argv else Err EValue.

(** ** invoke/program.py: the two passes *)

(** [_update_core_context]: copy [_value] of every core argument of the task
    pass that [got_value]. *)
Fixpoint update_core (core via : list rarg) : list rarg :=
  match core, via with
  | c :: core', v :: via' =>
      (if got_value v then mkRArg (r_spec c) (r_raw c) (r_val v) else c) :: update_core core' via'
  | _, _ => core
  end.

Record program_result := mkProg {
  pg_core : list rarg;          (* self.core[0] after parse_tasks *)
  pg_unparsed : list string;    (* self.core.unparsed *)
  pg_remainder : string;        (* self.core.remainder *)
  pg_tasks : list rctx          (* self.tasks *)
}.

(** [parse_core_args] then [parse_tasks]. *)
Definition program_parse (core : ctxspec) (tasks : list ctxspec) (argv : list string)
  : result program_result :=
  match parser_parse [] (Some core) true argv with
  | Err e => Err e
  | Ok r1 =>
      match pr_ctxs r1 with
      | [] => Err EOther                      (* self.core[0]: IndexError *)
      | c0 :: _ =>
          match parser_parse tasks (Some core) false (pr_unparsed r1) with
          | Err e => Err e
          | Ok r2 =>
              match pr_ctxs r2 with
              | [] => Err EOther              (* result.pop(0) *)
              | via :: ts =>
                  Ok (mkProg (update_core (rc_args c0) (rc_args via))
                             (pr_unparsed r1) (pr_remainder r1) ts)
              end
          end
      end
  end.

(** ** Program.parse_core: what happens between the two passes

    After the core pass and BEFORE the task pass [Program.parse_core] acts on
    some core values: --write-pyc, --debug (enable_logging), and two early
    exits -- --version (print the version, Exit) and --print-completion-script
    (print the script, Exit); [parse_collection] then uses --collection /
    --search-root.  Core flags seen later inside task contexts are merged by
    [_update_core_context] only after all that.  [program_outline] records
    which way a run goes. *)
Inductive outline :=
| OVersionExit                       (* version printed, nothing runs *)
| OCompletionExit                    (* completion script printed, nothing runs *)
| ORunTasks (r : program_result).    (* both passes done: tasks would be executed *)

Definition core_value (args : list rarg) (name : string) : aval :=
  match find (fun r => String.eqb (arg_name (r_spec r)) name) args with
  | Some r => arg_value r
  | None => ANone
  end.

Definition program_outline (core : ctxspec) (tasks : list ctxspec) (argv : list string)
  : result outline :=
  match parser_parse [] (Some core) true argv with
  | Err e => Err e
  | Ok r1 =>
      match pr_ctxs r1 with
      | [] => Err EOther
      | c0 :: _ =>
          if py_truthy (core_value (rc_args c0) "version") then Ok OVersionExit
          else if py_truthy (core_value (rc_args c0) "print-completion-script") then Ok OCompletionExit
          else match program_parse core tasks argv with
               | Ok r => Ok (ORunTasks r)
               | Err e => Err e
               end
      end
  end.
