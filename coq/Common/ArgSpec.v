(** The static description of an invoke.parser.Argument, shared by the
    signature model (C09: Task.get_arguments produces these) and the parser
    models (C01/C07/C18: ParserContext.add_arg consumes them). *)
From InvokeVerif Require Export Common.Tree Common.StrUtil.

(** [kind]: the type factory.  The four the task decorator produces from
    str/int/bool defaults and [iterable], plus [KOther]: any other callable
    ([type(default)] for a float, bytes, complex, date ... default).  What such a
    callable does with a piece of text is not invoke's business, so it is an
    ORACLE carried by the kind: [ko_default] is the outcome for texts not listed,
    [ko_table] lists the texts with a different outcome.  The harness fills the
    table by calling the callable itself on every text that can reach it (every
    substring of a command-line token, and "-c" for each character c). *)
Inductive cast_out :=
| COk (repr : string)     (* the callable returns a value; its repr *)
| CFailV                  (* raises ValueError *)
| CFailT.                 (* raises TypeError *)

Inductive akind :=
| KStr | KInt | KBool | KList
| KOther (ty : string) (ko_default : cast_out) (ko_table : list (string * cast_out)).

Fixpoint cast_lookup (s : string) (tbl : list (string * cast_out)) : option cast_out :=
  match tbl with
  | [] => None
  | (k, o) :: rest => if String.eqb k s then Some o else cast_lookup s rest
  end.

(** outcome of [kind(text)] for an oracle kind *)
Definition cast_other (dflt : cast_out) (tbl : list (string * cast_out)) (s : string) : cast_out :=
  match cast_lookup s tbl with Some o => o | None => dflt end.

(** values of other types are spelled "<type repr>" (the reserved spelling also
    used for such defaults, Common/SigTypes.v [to_aval]) *)
Definition other_repr (ty r : string) : string := "<" ++ ty ++ " " ++ r ++ ">".

(** Values an Argument can hold or default to. *)
Inductive aval :=
| ANone
| AStr (s : string)
| AInt (z : Z)
| ABool (b : bool)
| AList (l : list string).

Definition akind_eqb (a b : akind) : bool :=
  match a, b with
  | KStr, KStr | KInt, KInt | KBool, KBool | KList, KList => true
  | KOther x _ _, KOther y _ _ => String.eqb x y      (* the same callable, by type name *)
  | _, _ => false
  end.

Definition aval_eqb (a b : aval) : bool :=
  match a, b with
  | ANone, ANone => true
  | AStr x, AStr y => String.eqb x y
  | AInt x, AInt y => Z.eqb x y
  | ABool x, ABool y => Bool.eqb x y
  | AList x, AList y => list_eqb String.eqb x y
  | _, _ => false
  end.

Record argspec := mkArg {
  a_names : list string;        (* names[0] is the main (dashed) name, the rest nicknames *)
  a_kind : akind;
  a_default : aval;
  a_positional : bool;
  a_optional : bool;
  a_incrementable : bool;
  a_attr_name : option string   (* python-friendly name when names[0] contains dashes *)
}.

(** [Argument.name]: attr_name or names[0]. *)
Definition arg_name (a : argspec) : string :=
  match a_attr_name a with
  | Some n => n
  | None => match a_names a with n :: _ => n | [] => "" end
  end.

(** [kind(text)] succeeds: always for str/bool/list, [+-]?[0-9]+ for int, the
    oracle for other callables *)
Definition castable (a : argspec) (s : string) : bool :=
  match a_kind a with
  | KInt => match parse_int s with Some _ => true | None => false end
  | KOther _ d tbl => match cast_other d tbl s with COk _ => true | _ => false end
  | _ => true
  end.

(** [Argument.takes_value] *)
Definition takes_value (a : argspec) : bool :=
  match a_kind a with
  | KBool => false
  | _ => negb (a_incrementable a)
  end.
