(** The static description of an invoke.parser.Argument, shared by the
    signature model (C09: Task.get_arguments produces these) and the parser
    models (C01/C07/C18: ParserContext.add_arg consumes them). *)
From InvokeVerif Require Export Common.Tree Common.StrUtil.

(** [kind]: the type factory.  Only the four the task decorator can produce
    from defaults / iterable are modelled. *)
Inductive akind := KStr | KInt | KBool | KList.

(** Values an Argument can hold or default to. *)
Inductive aval :=
| ANone
| AStr (s : string)
| AInt (z : Z)
| ABool (b : bool)
| AList (l : list string).

Definition akind_eqb (a b : akind) : bool :=
  match a, b with
  | KStr, KStr | KInt, KInt | KBool, KBool | KList, KList => true
  | _, _ => false
  end.

Definition aval_eqb (a b : aval) : bool :=
  match a, b with
  | ANone, ANone => true
  | AStr x, AStr y => String.eqb x y
  | AInt x, AInt y => Z.eqb x y
  | ABool x, ABool y => Bool.eqb x y
  | AList x, AList y => list_eqb String.eqb x y
  | _, _ => false
  end.

Record argspec := mkArg {
  a_names : list string;        (* names[0] is the main (dashed) name, the rest nicknames *)
  a_kind : akind;
  a_default : aval;
  a_positional : bool;
  a_optional : bool;
  a_incrementable : bool;
  a_attr_name : option string   (* python-friendly name when names[0] contains dashes *)
}.

(** [Argument.name]: attr_name or names[0]. *)
Definition arg_name (a : argspec) : string :=
  match a_attr_name a with
  | Some n => n
  | None => match a_names a with n :: _ => n | [] => "" end
  end.

(** [Argument.takes_value] *)
Definition takes_value (a : argspec) : bool :=
  match a_kind a with
  | KBool => false
  | _ => negb (a_incrementable a)
  end.
