(** Values, insertion-ordered nested dictionaries ("trees"), results.
    Shared by every config/collection model.  Stdlib only. *)
From Coq Require Export List String Ascii ZArith Bool Lia.
Export ListNotations.
Open Scope string_scope.
Open Scope list_scope.

(** * Results with the exception classes the properties talk about *)
Inductive err :=
| EKey            (* KeyError *)
| EAttr           (* AttributeError *)
| EValue          (* ValueError *)
| EType           (* TypeError *)
| EAmbigMerge     (* AmbiguousMergeError *)
| EAmbigEnv       (* AmbiguousEnvVar *)
| EUncastable     (* UncastableEnvVar *)
| EParse          (* ParseError *)
| EOther.         (* anything else *)

Definition err_eqb (a b : err) : bool :=
  match a, b with
  | EKey, EKey | EAttr, EAttr | EValue, EValue | EType, EType
  | EAmbigMerge, EAmbigMerge | EAmbigEnv, EAmbigEnv
  | EUncastable, EUncastable | EParse, EParse | EOther, EOther => true
  | _, _ => false
  end.

Lemma err_eqb_eq a b : err_eqb a b = true <-> a = b.
Proof. destruct a, b; simpl; split; intros H; try reflexivity; try discriminate. Qed.

Inductive result (A : Type) := Ok (a : A) | Err (e : err).
Arguments Ok {A} a.
Arguments Err {A} e.

Definition bind {A B} (r : result A) (f : A -> result B) : result B :=
  match r with Ok a => f a | Err e => Err e end.

(** * Leaf values *)
Inductive value :=
| VNone
| VBool (b : bool)
| VInt (z : Z)
| VStr (s : string)
| VList (l : list string)     (* list of strings; only "is a list" matters *)
| VTuple (l : list string).

Definition list_eqb {A} (eqb : A -> A -> bool) : list A -> list A -> bool :=
  fix go l1 l2 :=
    match l1, l2 with
    | [], [] => true
    | a :: l1', b :: l2' => eqb a b && go l1' l2'
    | _, _ => false
    end.

Lemma list_eqb_eq {A} (eqb : A -> A -> bool) :
  (forall a b, eqb a b = true <-> a = b) ->
  forall l1 l2, list_eqb eqb l1 l2 = true <-> l1 = l2.
Proof.
  intros H l1; induction l1 as [|a l1 IH]; intros [|b l2]; simpl; split; intros E;
    try reflexivity; try discriminate.
  - apply andb_true_iff in E as [E1 E2]. apply H in E1. apply IH in E2. congruence.
  - inversion E; subst. apply andb_true_iff; split; [apply H | apply IH]; reflexivity.
Qed.

Definition value_eqb (a b : value) : bool :=
  match a, b with
  | VNone, VNone => true
  | VBool x, VBool y => Bool.eqb x y
  | VInt x, VInt y => Z.eqb x y
  | VStr x, VStr y => String.eqb x y
  | VList x, VList y => list_eqb String.eqb x y
  | VTuple x, VTuple y => list_eqb String.eqb x y
  | _, _ => false
  end.

Lemma value_eqb_eq a b : value_eqb a b = true <-> a = b.
Proof.
  destruct a, b; simpl; split; intros H; try reflexivity; try discriminate;
    try (inversion H; subst).
  - apply Bool.eqb_prop in H; congruence.
  - apply Bool.eqb_reflx.
  - apply Z.eqb_eq in H; congruence.
  - apply Z.eqb_refl.
  - apply String.eqb_eq in H; congruence.
  - apply String.eqb_refl.
  - apply (list_eqb_eq String.eqb String.eqb_eq) in H; congruence.
  - apply (list_eqb_eq String.eqb String.eqb_eq); reflexivity.
  - apply (list_eqb_eq String.eqb String.eqb_eq) in H; congruence.
  - apply (list_eqb_eq String.eqb String.eqb_eq); reflexivity.
Qed.

(** * Trees: a Python dict of dicts, keys in insertion order *)
Inductive tree :=
| Leaf (v : value)
| Node (kids : list (string * tree)).

Definition dict := list (string * tree).
Definition path := list string.

(** Nested induction principle. *)
Section TreeInd.
  Variable P : tree -> Prop.
  Hypothesis HLeaf : forall v, P (Leaf v).
  Hypothesis HNode : forall kids, Forall (fun kt => P (snd kt)) kids -> P (Node kids).
  Fixpoint tree_ind' (t : tree) : P t :=
    match t with
    | Leaf v => HLeaf v
    | Node kids =>
        HNode kids
          ((fix go (l : list (string * tree)) : Forall (fun kt => P (snd kt)) l :=
              match l with
              | [] => Forall_nil _
              | kt :: l' => Forall_cons kt (tree_ind' (snd kt)) (go l')
              end) kids)
    end.
End TreeInd.

Fixpoint tree_eqb (a b : tree) {struct a} : bool :=
  match a, b with
  | Leaf x, Leaf y => value_eqb x y
  | Node ka, Node kb =>
      (fix go (l1 : list (string * tree)) (l2 : list (string * tree)) : bool :=
         match l1, l2 with
         | [], [] => true
         | (k1, t1) :: l1', (k2, t2) :: l2' =>
             String.eqb k1 k2 && tree_eqb t1 t2 && go l1' l2'
         | _, _ => false
         end) ka kb
  | _, _ => false
  end.

Lemma tree_eqb_eq : forall a b, tree_eqb a b = true <-> a = b.
Proof.
  induction a as [v | kids IH] using tree_ind'; intros [w | kb]; simpl;
    try (split; intros; discriminate).
  - rewrite value_eqb_eq. split; congruence.
  - revert kb. induction kids as [|[k t] kids IHk]; intros [|[k2 t2] kb];
      try (split; intros; try reflexivity; discriminate).
    inversion IH as [|? ? Ht Hrest]; subst. simpl in Ht.
    specialize (IHk Hrest kb).
    rewrite !andb_true_iff, String.eqb_eq, Ht, IHk.
    split.
    + intros [[-> ->] E]. inversion E; subst. reflexivity.
    + intros E; inversion E; subst. auto.
Qed.

Lemma tree_eqb_refl a : tree_eqb a a = true.
Proof. apply tree_eqb_eq; reflexivity. Qed.

(** ** One-level dict operations *)
Fixpoint get (k : string) (d : dict) : option tree :=
  match d with
  | [] => None
  | (k', t) :: d' => if String.eqb k k' then Some t else get k d'
  end.

Definition has (k : string) (d : dict) : bool :=
  match get k d with Some _ => true | None => false end.

(** [d[k] = t]: replace in place when present, else append (dict order). *)
Fixpoint set (k : string) (t : tree) (d : dict) : dict :=
  match d with
  | [] => [(k, t)]
  | (k', t') :: d' => if String.eqb k k' then (k', t) :: d' else (k', t') :: set k t d'
  end.

Fixpoint remove (k : string) (d : dict) : dict :=
  match d with
  | [] => []
  | (k', t') :: d' => if String.eqb k k' then d' else (k', t') :: remove k d'
  end.

Definition keys (d : dict) : list string := map fst d.

Lemma get_set_same k t d : get k (set k t d) = Some t.
Proof.
  induction d as [|[k' t'] d IH]; simpl.
  - rewrite String.eqb_refl; reflexivity.
  - destruct (String.eqb k k') eqn:E; simpl; rewrite E; auto.
Qed.

Lemma get_set_other k k' t d : k <> k' -> get k (set k' t d) = get k d.
Proof.
  intros Hne. induction d as [|[k2 t2] d IH]; simpl.
  - destruct (String.eqb k k') eqn:E; [apply String.eqb_eq in E; contradiction | reflexivity].
  - destruct (String.eqb k' k2) eqn:E; simpl.
    + apply String.eqb_eq in E; subst k2.
      destruct (String.eqb k k') eqn:E2; [apply String.eqb_eq in E2; contradiction | reflexivity].
    + rewrite IH; reflexivity.
Qed.

Lemma get_remove_same k d : NoDup (keys d) -> get k (remove k d) = None.
Proof.
  induction d as [|[k' t'] d IH]; simpl; intros ND; [reflexivity|].
  inversion ND as [|? ? Hnin ND']; subst.
  destruct (String.eqb k k') eqn:E; simpl.
  - apply String.eqb_eq in E; subst k'.
    clear IH ND ND'. induction d as [|[k2 t2] d IH]; simpl; [reflexivity|].
    destruct (String.eqb k k2) eqn:E2.
    + apply String.eqb_eq in E2; subst. exfalso; apply Hnin; left; reflexivity.
    + apply IH. intros H; apply Hnin; right; exact H.
  - rewrite E; auto.
Qed.

Lemma get_remove_other k k' d : k <> k' -> get k (remove k' d) = get k d.
Proof.
  intros Hne. induction d as [|[k2 t2] d IH]; simpl; [reflexivity|].
  destruct (String.eqb k' k2) eqn:E; simpl.
  - apply String.eqb_eq in E; subst k2.
    destruct (String.eqb k k') eqn:E2; [apply String.eqb_eq in E2; contradiction | reflexivity].
  - rewrite IH; reflexivity.
Qed.

Lemma get_in_keys k d t : get k d = Some t -> In k (keys d).
Proof.
  induction d as [|[k' t'] d IH]; simpl; [discriminate|].
  destruct (String.eqb k k') eqn:E; intros H.
  - apply String.eqb_eq in E; left; congruence.
  - right; auto.
Qed.

Lemma get_none_not_in k d : get k d = None <-> ~ In k (keys d).
Proof.
  induction d as [|[k' t'] d IH]; simpl; [tauto|].
  destruct (String.eqb k k') eqn:E.
  - apply String.eqb_eq in E; subst. split; [discriminate | intros H; exfalso; apply H; left; reflexivity].
  - apply String.eqb_neq in E. rewrite IH. split; intros H.
    + intros [H1|H1]; [congruence | contradiction].
    + intros H1; apply H; right; exact H1.
Qed.

Lemma keys_set_in k t d : In k (keys d) -> keys (set k t d) = keys d.
Proof.
  induction d as [|[k' t'] d IH]; simpl; [tauto|].
  destruct (String.eqb k k') eqn:E; simpl; [reflexivity|].
  intros [H|H]; [apply String.eqb_neq in E; congruence|]. rewrite IH; auto.
Qed.

Lemma keys_set_notin k t d : ~ In k (keys d) -> keys (set k t d) = keys d ++ [k].
Proof.
  induction d as [|[k' t'] d IH]; simpl; [reflexivity|].
  intros H. destruct (String.eqb k k') eqn:E.
  - apply String.eqb_eq in E; subst; exfalso; apply H; left; reflexivity.
  - simpl. rewrite IH; [reflexivity | intros H1; apply H; right; exact H1].
Qed.

Lemma NoDup_snoc (x : string) l : NoDup l -> ~ In x l -> NoDup (l ++ [x]).
Proof.
  induction l as [|y l IH]; simpl; intros ND Hn.
  - constructor; [intros [] | constructor].
  - inversion ND as [|? ? Hy ND']; subst. constructor.
    + rewrite in_app_iff. intros [H|[H|[]]]; [contradiction | subst; apply Hn; left; reflexivity].
    + apply IH; [assumption | intros H; apply Hn; right; exact H].
Qed.

Lemma NoDup_keys_set k t d : NoDup (keys d) -> NoDup (keys (set k t d)).
Proof.
  intros ND. destruct (List.in_dec string_dec k (keys d)) as [Hin|Hnin].
  - rewrite keys_set_in; assumption.
  - rewrite keys_set_notin by assumption. apply NoDup_snoc; assumption.
Qed.

(** ** Deep well-formedness: no duplicate keys at any level *)
Fixpoint nodupb (l : list string) : bool :=
  match l with
  | [] => true
  | x :: l' => negb (existsb (String.eqb x) l') && nodupb l'
  end.

Lemma nodupb_NoDup l : nodupb l = true <-> NoDup l.
Proof.
  induction l as [|x l IH]; simpl.
  - split; [constructor | reflexivity].
  - rewrite andb_true_iff, negb_true_iff, IH. split.
    + intros [Hn ND]. constructor; [|assumption].
      intros Hin. assert (existsb (String.eqb x) l = true) as E.
      { apply existsb_exists. exists x; split; [assumption | apply String.eqb_refl]. }
      congruence.
    + intros ND; inversion ND as [|? ? Hnin ND']; subst. split; [|assumption].
      destruct (existsb (String.eqb x) l) eqn:E; [|reflexivity].
      apply existsb_exists in E as [y [Hy Exy]]. apply String.eqb_eq in Exy; subst. contradiction.
Qed.

Fixpoint wf (t : tree) : bool :=
  match t with
  | Leaf _ => true
  | Node kids =>
      nodupb (map fst kids) &&
      (fix go (l : list (string * tree)) : bool :=
         match l with [] => true | (_, c) :: l' => wf c && go l' end) kids
  end.

Definition wf_kids (kids : dict) : bool := forallb (fun kt => wf (snd kt)) kids.

Lemma wf_Node kids : wf (Node kids) = nodupb (keys kids) && wf_kids kids.
Proof.
  simpl. f_equal. induction kids as [|[k c] kids IH]; simpl; [reflexivity|].
  rewrite IH; reflexivity.
Qed.

(** ** Paths *)
Fixpoint lookup (p : path) (t : tree) : option tree :=
  match p with
  | [] => Some t
  | k :: p' =>
      match t with
      | Leaf _ => None
      | Node kids => match get k kids with Some c => lookup p' c | None => None end
      end
  end.

Definition leaf_at (p : path) (t : tree) : option value :=
  match lookup p t with Some (Leaf v) => Some v | _ => None end.

Definition is_node (t : tree) : bool := match t with Node _ => true | Leaf _ => false end.

(** All root-to-leaf paths in dict order (empty sections contribute none). *)
Fixpoint leaf_paths (t : tree) : list (path * value) :=
  match t with
  | Leaf v => [([], v)]
  | Node kids =>
      (fix go (l : list (string * tree)) : list (path * value) :=
         match l with
         | [] => []
         | (k, c) :: l' => map (fun pv => (k :: fst pv, snd pv)) (leaf_paths c) ++ go l'
         end) kids
  end.

Definition leaf_paths_kids (kids : dict) : list (path * value) :=
  flat_map (fun kc => map (fun pv => (fst kc :: fst pv, snd pv)) (leaf_paths (snd kc))) kids.

Lemma leaf_paths_Node kids : leaf_paths (Node kids) = leaf_paths_kids kids.
Proof.
  simpl. unfold leaf_paths_kids. induction kids as [|[k c] kids IH]; simpl; [reflexivity|].
  rewrite IH; reflexivity.
Qed.

(** ** Sorting-insensitive comparison (dict equality ignores order) *)
Fixpoint dict_equiv_fuel (fuel : nat) (a b : tree) : bool :=
  match fuel with
  | O => false
  | S f =>
      match a, b with
      | Leaf x, Leaf y => value_eqb x y
      | Node ka, Node kb =>
          Nat.eqb (List.length ka) (List.length kb) &&
          forallb (fun kt => match get (fst kt) kb with
                             | Some t2 => dict_equiv_fuel f (snd kt) t2
                             | None => false end) ka
      | _, _ => false
      end
  end.

Fixpoint depth (t : tree) : nat :=
  match t with
  | Leaf _ => 1
  | Node kids => S (fold_right (fun kt m => Nat.max (depth (snd kt)) m) 0 kids)
  end.

(** Python [==] on dicts: same key set, equal values, order ignored. *)
Definition dict_equiv (a b : tree) : bool := dict_equiv_fuel (depth a + 1) a b.

Definition path_eqb : path -> path -> bool := list_eqb String.eqb.
Lemma path_eqb_eq p q : path_eqb p q = true <-> p = q.
Proof. apply list_eqb_eq, String.eqb_eq. Qed.
