(** Types shared by the signature model (Model/SigModel.v, Model/SigCtxModel.v)
    and the C09 specification: a task function's parameters, the @task
    decorator options, and the observable command-line interface. *)
From InvokeVerif Require Export Common.ArgSpec.

(** Default value of a function parameter.  [DEmpty] = no default
    ([inspect.Signature.empty]). *)
Inductive pdefault :=
| DEmpty
| DNone
| DStr (s : string)
| DInt (z : Z)
| DBool (b : bool)
| DList (l : list string)
| DOther (ty : string) (repr : string).   (* any other type (float, tuple, ...): type name and repr *)

Record param := mkParam { p_name : string; p_default : pdefault }.

(** The @task options that shape the CLI. [d_positional = None] means "not
    given" (implicit positionals). *)
Record deco := mkDeco {
  d_positional : option (list string);
  d_optional : list string;
  d_iterable : list string;
  d_incrementable : list string;
  d_auto_short : bool }.

Record tsig := mkSig { s_params : list param; s_deco : deco }.

(** What one can observe of the ParserContext built from a task:
    - [o_args]: the Argument objects in [get_arguments] order;
    - [o_flags]: real keys of [ctx.flags] with the main name (names[0]) of the
      Argument stored there; [o_flag_aliases]: [ctx.flags.aliases];
    - [o_inverse]: [ctx.inverse_flags];
    - [o_positional]: main names of [ctx.positional_args];
    - [o_kwargs]: [ctx.as_kwargs] of the unparsed context;
    - [o_binds]: [inspect.signature(body).bind(ctx, **as_kwargs)] succeeded. *)
Record cli := mkCli {
  o_args : list argspec;
  o_flags : list (string * string);
  o_flag_aliases : list (string * string);
  o_inverse : list (string * string);
  o_positional : list string;
  o_kwargs : list (string * aval);
  o_binds : bool;
  o_kind_names : list string;   (* Argument.kind.__name__, in [o_args] order *)
  o_takes : list bool }.        (* Argument.takes_value, in [o_args] order *)

(** [inspect.Signature.empty] (a class object) can end up as an Argument's
    default (iterable parameter without default).  [aval] has no constructor
    for it; it is represented by this reserved string, which generators never
    use as a real default. *)
Definition empty_sentinel : aval := AStr "<inspect._empty>".

Definition to_aval (d : pdefault) : aval :=
  match d with
  | DEmpty => empty_sentinel
  | DNone => ANone
  | DStr s => AStr s
  | DInt z => AInt z
  | DBool b => ABool b
  | DList l => AList l
  | DOther ty r => AStr ("<" ++ ty ++ " " ++ r ++ ">")   (* reserved spelling, as for the empty sentinel *)
  end.

(** Polymorphic insertion-ordered association lists (Python dicts). *)
Fixpoint aget {V} (k : string) (l : list (string * V)) : option V :=
  match l with
  | [] => None
  | (k', v) :: l' => if String.eqb k k' then Some v else aget k l'
  end.

Fixpoint aset {V} (k : string) (v : V) (l : list (string * V)) : list (string * V) :=
  match l with
  | [] => [(k, v)]
  | (k', v') :: l' => if String.eqb k k' then (k, v) :: l' else (k', v') :: aset k v l'
  end.

Definition opt_eqb {A} (eqb : A -> A -> bool) (a b : option A) : bool :=
  match a, b with
  | None, None => true
  | Some x, Some y => eqb x y
  | _, _ => false
  end.

Definition argspec_eqb (a b : argspec) : bool :=
  list_eqb String.eqb (a_names a) (a_names b) &&
  akind_eqb (a_kind a) (a_kind b) &&
  aval_eqb (a_default a) (a_default b) &&
  Bool.eqb (a_positional a) (a_positional b) &&
  Bool.eqb (a_optional a) (a_optional b) &&
  Bool.eqb (a_incrementable a) (a_incrementable b) &&
  opt_eqb String.eqb (a_attr_name a) (a_attr_name b).

Definition ss_eqb (a b : string * string) : bool :=
  String.eqb (fst a) (fst b) && String.eqb (snd a) (snd b).

Definition sv_eqb (a b : string * aval) : bool :=
  String.eqb (fst a) (fst b) && aval_eqb (snd a) (snd b).

Definition cli_eqb (a b : cli) : bool :=
  list_eqb argspec_eqb (o_args a) (o_args b) &&
  list_eqb ss_eqb (o_flags a) (o_flags b) &&
  list_eqb ss_eqb (o_flag_aliases a) (o_flag_aliases b) &&
  list_eqb ss_eqb (o_inverse a) (o_inverse b) &&
  list_eqb String.eqb (o_positional a) (o_positional b) &&
  list_eqb sv_eqb (o_kwargs a) (o_kwargs b) &&
  Bool.eqb (o_binds a) (o_binds b) &&
  list_eqb String.eqb (o_kind_names a) (o_kind_names b) &&
  list_eqb Bool.eqb (o_takes a) (o_takes b).
