(** Data types shared by the collection model (Model/CollModel.v) and by the
    specifications that talk about namespace trees (C17, C10, C19).
    No behaviour here: only the shape of a built [Collection] tree, the shape of
    a script that builds one, and trivial accessors. *)
From InvokeVerif Require Export Common.Tree Common.StrUtil.

(** What a [Task] object itself carries (independent of where it is bound). *)
Record taskinfo := mkTask {
  t_id : nat;                 (* identity of the task object (its body) *)
  t_name : string;            (* task.name: own name *)
  t_aliases : list string;    (* task.aliases: own aliases, as written *)
  t_default : bool            (* task.is_default *)
}.

(** A built [Collection]: [name], the [tasks] Lexicon (real keys in insertion
    order + its alias table), the [collections] Lexicon (never has aliases),
    [default], [auto_dash_names], [_configuration]. *)
Inductive coll :=
| Coll (name : option string)
       (tasks : list (string * taskinfo))
       (aliases : list (string * string))
       (subs : list (string * coll))
       (dflt : option string)
       (auto_dash : bool)
       (config : dict).

Definition c_name (c : coll) := match c with Coll n _ _ _ _ _ _ => n end.
Definition c_tasks (c : coll) := match c with Coll _ t _ _ _ _ _ => t end.
Definition c_aliases (c : coll) := match c with Coll _ _ a _ _ _ _ => a end.
Definition c_subs (c : coll) := match c with Coll _ _ _ s _ _ _ => s end.
Definition c_default (c : coll) := match c with Coll _ _ _ _ d _ _ => d end.
Definition c_auto_dash (c : coll) := match c with Coll _ _ _ _ _ a _ => a end.
Definition c_config (c : coll) := match c with Coll _ _ _ _ _ _ g => g end.

(** Nested induction principle for [coll]. *)
Section CollInd.
  Variable P : coll -> Prop.
  Hypothesis H : forall n t a subs d ad g,
      Forall (fun kc => P (snd kc)) subs -> P (Coll n t a subs d ad g).
  Fixpoint coll_ind' (c : coll) : P c :=
    match c with
    | Coll n t a subs d ad g =>
        H n t a subs d ad g
          ((fix go (l : list (string * coll)) : Forall (fun kc => P (snd kc)) l :=
              match l with
              | [] => Forall_nil _
              | kc :: l' => Forall_cons kc (coll_ind' (snd kc)) (go l')
              end) subs)
    end.
End CollInd.

(** Generic association-list lookup (first match). *)
Fixpoint assoc {A} (k : string) (l : list (string * A)) : option A :=
  match l with
  | [] => None
  | (k', v) :: l' => if String.eqb k k' then Some v else assoc k l'
  end.

(** dict-style assignment on association lists: replace in place or append. *)
Fixpoint aset {A} (k : string) (v : A) (l : list (string * A)) : list (string * A) :=
  match l with
  | [] => [(k, v)]
  | (k', v') :: l' => if String.eqb k k' then (k', v) :: l' else (k', v') :: aset k v l'
  end.

Definition akeys {A} (l : list (string * A)) : list string := map fst l.

(** A script building a collection, as the harness executes it:
    [Collection(cname, auto_dash_names=ad)], then the items in order
    ([add_task(t, name=, aliases=, default=)] /
    [add_collection(<sub built first>, name=, default=)]), then
    [configure(config)].  For a sub-collection item, [bind]/[default] are the
    arguments of the parent's [add_collection]; they are ignored at the root. *)
Inductive item :=
| ITask (t : taskinfo) (name : option string) (aliases : list string) (default : option bool)
| ISub (cname : option string) (auto_dash : bool) (config : tree) (items : list item)
       (bind : option string) (default : bool)
(** A module object [modname] whose explicit namespace [ns] is the collection
    built by [nsitem], re-imported with [Collection.from_module(module,
    auto_dash_names=ad)] (what [Program.load_collection] does for the root and
    [add_collection(module)] for a nested one) and then attached like a
    sub-collection. *)
| IMod (modname : string) (ad : option bool) (nsitem : item) (bind : option string) (default : bool).

(** A listing row: indentation depth, displayed name, displayed aliases, and
    the task shown (None for a collection row). *)
Definition row := (nat * string * list string * option nat)%type.

Definition opt_str_eqb (a b : option string) : bool :=
  match a, b with
  | Some x, Some y => String.eqb x y
  | None, None => true
  | _, _ => false
  end.

Definition taskinfo_eqb (a b : taskinfo) : bool :=
  Nat.eqb (t_id a) (t_id b) && String.eqb (t_name a) (t_name b) &&
  list_eqb String.eqb (t_aliases a) (t_aliases b) && Bool.eqb (t_default a) (t_default b).

(** Equality of built trees; configurations are compared as Python dicts
    (key order ignored). *)
Fixpoint coll_eqb (a b : coll) {struct a} : bool :=
  match a, b with
  | Coll n1 t1 a1 s1 d1 ad1 g1, Coll n2 t2 a2 s2 d2 ad2 g2 =>
      opt_str_eqb n1 n2 &&
      list_eqb (fun x y => String.eqb (fst x) (fst y) && taskinfo_eqb (snd x) (snd y)) t1 t2 &&
      list_eqb (fun x y => String.eqb (fst x) (fst y) && String.eqb (snd x) (snd y)) a1 a2 &&
      (fix go (l1 : list (string * coll)) (l2 : list (string * coll)) : bool :=
         match l1, l2 with
         | [], [] => true
         | (k1, c1) :: l1', (k2, c2) :: l2' => String.eqb k1 k2 && coll_eqb c1 c2 && go l1' l2'
         | _, _ => false
         end) s1 s2 &&
      opt_str_eqb d1 d2 && Bool.eqb ad1 ad2 &&
      dict_equiv (Node g1) (Node g2) && dict_equiv (Node g2) (Node g1)
  end.

(** decimal numeral of a natural number (the tallies of a depth-limited listing) *)
Fixpoint nat_str_aux (fuel n : nat) (acc : string) : string :=
  match fuel with
  | O => acc
  | S f =>
      let acc' := String (Ascii.ascii_of_nat (48 + Nat.modulo n 10)) acc in
      match Nat.div n 10 with
      | O => acc'
      | q => nat_str_aux f q acc'
      end
  end.
Definition nat_str (n : nat) : string := nat_str_aux (S n) n EmptyString.
