(** Bytes and text for the runner models (C02, C13, C08, C14).
    A byte is an [N] in 0..255, a text is a list of Unicode code points ([N]).
    Shared by Utf8Model / ReadLoopModel / StdinModel and their specs. *)
From InvokeVerif Require Export Common.Tree Common.StrUtil.
From Coq Require Export NArith.

Definition bytes := list N.
Definition text := list N.

(** U+FFFD, what [errors='replace'] substitutes. *)
Definition REPL : N := 65533%N.

(** The encodings the models cover (stateful UTF-8, two stateless ones). *)
Inductive enc := Utf8 | Latin1 | Ascii.

Definition enc_eqb (a b : enc) : bool :=
  match a, b with
  | Utf8, Utf8 | Latin1, Latin1 | Ascii, Ascii => true
  | _, _ => false
  end.

Definition in_range (lo hi b : N) : bool := (N.leb lo b && N.leb b hi)%bool.

Definition text_eqb : text -> text -> bool := list_eqb N.eqb.
Definition texts_eqb : list text -> list text -> bool := list_eqb text_eqb.

Lemma text_eqb_eq a b : text_eqb a b = true <-> a = b.
Proof. apply list_eqb_eq. intros x y. apply N.eqb_eq. Qed.

Lemma texts_eqb_eq a b : texts_eqb a b = true <-> a = b.
Proof. apply list_eqb_eq. apply text_eqb_eq. Qed.

Lemma text_eqb_refl a : text_eqb a a = true.
Proof. apply text_eqb_eq. reflexivity. Qed.

Lemma texts_eqb_refl a : texts_eqb a a = true.
Proof. apply texts_eqb_eq. reflexivity. Qed.

(** * Read scripts: what the OS hands a reader, in order.
    [RChunk bs] = one read returned [bs] (an empty read is EOF);
    [RExit] = the process was observed to have exited at that point. *)
Inductive rev := RChunk (bs : bytes) | RExit.

(** The reads a script delivers before EOF, and the byte stream they make up. *)
Fixpoint chunks_of (script : list rev) : list bytes :=
  match script with
  | [] => []
  | RExit :: r => chunks_of r
  | RChunk [] :: _ => []
  | RChunk bs :: r => bs :: chunks_of r
  end.

Definition stream_bytes (script : list rev) : bytes := List.concat (chunks_of script).

(** * Encoding ([str.encode(enc)], strict): [None] = UnicodeEncodeError. *)
Definition encode_cp (e : enc) (c : N) : option bytes :=
  match e with
  | Latin1 => if N.ltb c 256 then Some [c] else None
  | Ascii => if N.ltb c 128 then Some [c] else None
  | Utf8 =>
      if N.ltb c 128 then Some [c]
      else if N.ltb c 2048 then Some [192 + c / 64; 128 + c mod 64]%N
      else if N.ltb c 65536 then
        if in_range 55296 57343 c then None      (* lone surrogate *)
        else Some [224 + c / 4096; 128 + (c / 64) mod 64; 128 + c mod 64]%N
      else if N.ltb c 1114112 then
        Some [240 + c / 262144; 128 + (c / 4096) mod 64; 128 + (c / 64) mod 64; 128 + c mod 64]%N
      else None
  end.

Fixpoint encode (e : enc) (t : text) : option bytes :=
  match t with
  | [] => Some []
  | c :: r =>
      match encode_cp e c, encode e r with
      | Some a, Some b => Some (a ++ b)
      | _, _ => None
      end
  end.

Definition bytes_eqb : bytes -> bytes -> bool := list_eqb N.eqb.
Lemma bytes_eqb_refl a : bytes_eqb a a = true.
Proof. apply text_eqb_refl. Qed.
