(** ASCII string helpers shared by the models. *)
From Coq Require Export List String Ascii ZArith Bool Lia.
Export ListNotations.
(* Tree is re-exported last so that its [get]/[set]/[length]-free names win over
   String's ([String.get]) whatever order the two files are imported in. *)
From InvokeVerif Require Export Common.Tree.
Open Scope string_scope.
Open Scope list_scope.

Definition upper_ascii (c : ascii) : ascii :=
  let n := nat_of_ascii c in
  if (Nat.leb 97 n && Nat.leb n 122)%bool then ascii_of_nat (n - 32) else c.

Fixpoint upper (s : string) : string :=
  match s with
  | EmptyString => EmptyString
  | String c s' => String (upper_ascii c) (upper s')
  end.

Fixpoint join (sep : string) (l : list string) : string :=
  match l with
  | [] => ""
  | [x] => x
  | x :: l' => x ++ sep ++ join sep l'
  end.

Definition mem (s : string) (l : list string) : bool := existsb (String.eqb s) l.

Lemma mem_In s l : mem s l = true <-> In s l.
Proof.
  unfold mem. rewrite existsb_exists. split.
  - intros [x [Hx E]]. apply String.eqb_eq in E; subst; assumption.
  - intros H; exists s; split; [assumption | apply String.eqb_refl].
Qed.

Definition is_digit (c : ascii) : bool :=
  let n := nat_of_ascii c in (Nat.leb 48 n && Nat.leb n 57)%bool.

Fixpoint digits_val (s : string) (acc : Z) : option Z :=
  match s with
  | EmptyString => Some acc
  | String c s' =>
      if is_digit c then digits_val s' (acc * 10 + Z.of_nat (nat_of_ascii c - 48))%Z
      else None
  end.

(** Python [int(s)] restricted to the form [+-]?[0-9]+ (no whitespace,
    underscores or non-ASCII digits -- generators never produce those). *)
Definition parse_int (s : string) : option Z :=
  match s with
  | EmptyString => None
  | String "-" EmptyString => None
  | String "+" EmptyString => None
  | String "-" s' => option_map Z.opp (digits_val s' 0)
  | String "+" s' => digits_val s' 0
  | _ => digits_val s 0
  end.

Fixpoint starts_with (pre s : string) : bool :=
  match pre, s with
  | EmptyString, _ => true
  | String a p', String b s' => Ascii.eqb a b && starts_with p' s'
  | _, EmptyString => false
  end.

Fixpoint drop (n : nat) (s : string) : string :=
  match n, s with
  | O, _ => s
  | S n', String _ s' => drop n' s'
  | S _, EmptyString => EmptyString
  end.

Fixpoint take (n : nat) (s : string) : string :=
  match n, s with
  | O, _ => EmptyString
  | S n', String c s' => String c (take n' s')
  | S _, EmptyString => EmptyString
  end.

Fixpoint replace_char (a b : ascii) (s : string) : string :=
  match s with
  | EmptyString => EmptyString
  | String c s' => String (if Ascii.eqb c a then b else c) (replace_char a b s')
  end.

Fixpoint contains_char (a : ascii) (s : string) : bool :=
  match s with
  | EmptyString => false
  | String c s' => Ascii.eqb c a || contains_char a s'
  end.

(** [s.partition(c)]: (before, found?, after) at the first [c]. *)
Fixpoint partition_char (a : ascii) (s : string) : string * bool * string :=
  match s with
  | EmptyString => (EmptyString, false, EmptyString)
  | String c s' =>
      if Ascii.eqb c a then (EmptyString, true, s')
      else let '(x, f, y) := partition_char a s' in (String c x, f, y)
  end.

Fixpoint split_char (a : ascii) (s : string) : list string :=
  match s with
  | EmptyString => [EmptyString]
  | String c s' =>
      if Ascii.eqb c a then EmptyString :: split_char a s'
      else match split_char a s' with
           | [] => [String c EmptyString]
           | x :: l => String c x :: l
           end
  end.

Fixpoint lstrip_char (a : ascii) (s : string) : string :=
  match s with
  | String c s' => if Ascii.eqb c a then lstrip_char a s' else s
  | EmptyString => EmptyString
  end.

Fixpoint string_rev_aux (s acc : string) : string :=
  match s with
  | EmptyString => acc
  | String c s' => string_rev_aux s' (String c acc)
  end.
Definition string_rev (s : string) : string := string_rev_aux s EmptyString.

Definition rstrip_char (a : ascii) (s : string) : string :=
  string_rev (lstrip_char a (string_rev s)).
Definition strip_char (a : ascii) (s : string) : string :=
  rstrip_char a (lstrip_char a s).
