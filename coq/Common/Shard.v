(** Helper used by generated correspondence shards: indices of failing cases. *)
From Coq Require Import List.
Import ListNotations.

Fixpoint fails_from {A} (f : A -> bool) (i : nat) (l : list A) : list nat :=
  match l with
  | [] => []
  | x :: l' => if f x then fails_from f (S i) l' else i :: fails_from f (S i) l'
  end.
Definition fails {A} (f : A -> bool) (l : list A) : list nat := fails_from f 0 l.

From Coq Require Import String Ascii.
Fixpoint str_of_codes (l : list nat) : string :=
  match l with
  | [] => EmptyString
  | c :: l' => String (ascii_of_nat c) (str_of_codes l')
  end.
