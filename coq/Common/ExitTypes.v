(** Observable data of C05 shared by the exit model and the specification. *)
From InvokeVerif Require Export Common.Tree Common.StrUtil.

(** a Result object as far as C05 looks at it *)
Record rview := mkRv {
  rv_exited : option Z;
  rv_ok : bool;
  rv_failed : bool;
  rv_bool : bool;
  rv_return_code : option Z }.

(** what run() / Promise.join() did *)
Inductive raise_kind := RThreadException | RFailure | RCommandTimedOut | RUnexpectedExit | RAuthFailure.

Inductive outcome :=
| Return (r : rview)
| Raise (k : raise_kind) (r : option rview)    (* ThreadException carries no result *)
| OtherOutcome.                               (* any other exception, or an incomplete result *)

(** The per-call keyword of a boolean run option: not passed at all, passed as
    None ("no opinion here" -- what a wrapper forwarding an optional setting
    passes), or passed with a value. *)
Inductive kwopt := KwOmitted | KwNone | KwVal (b : bool).

(** The two places warn can come from: the configuration (run.warn set by a
    file / env / overrides / -w; [None] = configured nowhere, the stock
    default applies) and the keyword of the call. *)
Record warn_src := mkWs { ws_cfg : option bool; ws_kw : kwopt }.

(** what happened inside Program.run and what it did about it *)
Inductive prog_event :=
| PSuccess
| PUnexpectedExit (exited : Z)                       (* UnexpectedExit whose result.exited = exited *)
| PExit (code : option Z) (has_message : bool)       (* Exit(message, code); has_message = truthy message *)
| PParseError
| PKeyboardInterrupt
| POtherException.                                   (* anything else, incl. CommandTimedOut / Failure *)

Inductive prog_out :=
| PReturns              (* run() returns; the interpreter then exits 0 *)
| PSysExit (code : Z)   (* sys.exit(code) *)
| PPropagates.          (* the exception leaves run() *)

