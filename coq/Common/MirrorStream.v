(** The mirror streams of a run as C02 sees them: the [out_stream]/[err_stream]
    objects (or [sys.stdout]/[sys.stderr]) the decoded output is forwarded to.

    A stream object may advertise an [encoding] attribute ([MNone]: no such
    attribute, or [None] as on [io.StringIO]).  Two kinds of stream are
    distinguished by what can be observed of them afterwards:

    - a RECORDING stream ([m_wrap = false]) remembers the text handed to each
      [write()] call; its content is the concatenation of those texts, whatever
      it advertises as its encoding;
    - a WRAPPER ([m_wrap = true]) is a real
      [io.TextIOWrapper(io.BytesIO(), encoding=E, errors="backslashreplace",
      newline="", write_through=True)]: each write is encoded with the stream's
      OWN error handler; its content is the byte buffer decoded back with [E],
      i.e. every character [E] cannot represent shows up as its Python escape
      ([\xNN], [\uNNNN], [\UNNNNNNNN], lowercase hex).

    This file is environment (CPython's text layer), not code under test; [render]
    is validated against CPython by the C02 check (extra check "wrapper-validation").
    Shared by Model/ReadLoopModel.v and Spec/C02Spec.v. *)
From InvokeVerif Require Export Common.ByteText.
Local Open Scope N_scope.

(** what the stream object advertises as [.encoding] *)
Inductive menc := MNone | MUtf8 | MAscii | MLatin1 | MCp1252.

Record mirror := mkMirror {
  m_enc : menc;
  m_wrap : bool      (* a real TextIOWrapper with errors="backslashreplace" (needs an encoding) *)
}.

(** code points of the cp1252 bytes 0x80..0x9F (0x81 0x8D 0x8F 0x90 0x9D are undefined in CPython's table) *)
Definition cp1252_extra : list N :=
  [8364; 8218; 402; 8222; 8230; 8224; 8225; 710; 8240; 352; 8249; 338; 381;
   8216; 8217; 8220; 8221; 8226; 8211; 8212; 732; 8482; 353; 8250; 339; 382; 376].

(** [str.encode(E)] succeeds on the one-character string *)
Definition representable (m : menc) (c : N) : bool :=
  match m with
  | MNone => true
  | MUtf8 => negb (in_range 55296 57343 c)            (* lone surrogates are not *)
  | MAscii => c <? 128
  | MLatin1 => c <? 256
  | MCp1252 => (c <? 128) || in_range 160 255 c || existsb (N.eqb c) cp1252_extra
  end.

Definition hexd (d : N) : N := if d <? 10 then 48 + d else 87 + d.     (* '0'.. / 'a'.. *)

(** [k] lowercase hex digits of [c], most significant first *)
Fixpoint hex_fixed (k : nat) (c : N) : text :=
  match k with
  | O => []
  | S k' => hex_fixed k' (c / 16) ++ [hexd (c mod 16)]
  end.

(** the [backslashreplace] error handler on one character *)
Definition escape (c : N) : text :=
  if c <? 256 then 92 :: 120 :: hex_fixed 2 c              (* \xNN *)
  else if c <? 65536 then 92 :: 117 :: hex_fixed 4 c       (* \uNNNN *)
  else 92 :: 85 :: hex_fixed 8 c.                          (* \UNNNNNNNN *)

Definition render_cp (m : menc) (c : N) : text :=
  if representable m c then [c] else escape c.

(** [t.encode(E, "backslashreplace").decode(E)] *)
Definition render (m : menc) (t : text) : text := flat_map (render_cp m) t.

(** Content of a mirror stream after the given [write()] calls, in order. *)
Definition stream_content (m : mirror) (writes : list text) : text :=
  if m_wrap m then List.concat (map (render (m_enc m)) writes) else List.concat writes.
