(** Python values as call arguments: [==] on them, [dict ==] on keyword
    arguments, and binding (args, kwargs) to a parameter list with defaults.
    Shared by the executor model and the C04/C19 specifications. *)
From InvokeVerif Require Export Common.Tree Common.StrUtil.

(** Python [==] on the leaf values used as arguments ([True == 1], [False == 0]). *)
Definition py_eqb (a b : value) : bool :=
  match a, b with
  | VBool x, VInt z | VInt z, VBool x => Z.eqb (if x then 1 else 0)%Z z
  | _, _ => value_eqb a b
  end.

Definition kwargs := list (string * value).

Fixpoint kw_get (k : string) (d : kwargs) : option value :=
  match d with
  | [] => None
  | (k', v) :: d' => if String.eqb k k' then Some v else kw_get k d'
  end.

(** [dict == dict]: same keys, equal values, order ignored (keys are unique). *)
Definition kw_sub (a b : kwargs) : bool :=
  forallb (fun kv => match kw_get (fst kv) b with Some w => py_eqb (snd kv) w | None => false end) a.
Definition kw_eqb (a b : kwargs) : bool :=
  Nat.eqb (List.length a) (List.length b) && kw_sub a b && kw_sub b a.

(** type-strict variants ([True] is not [1]): used to compare what a body
    received with what was specified *)
Definition kw_sub_s (a b : kwargs) : bool :=
  forallb (fun kv => match kw_get (fst kv) b with Some w => value_eqb (snd kv) w | None => false end) a.
Definition kw_eqb_s (a b : kwargs) : bool :=
  Nat.eqb (List.length a) (List.length b) && kw_sub_s a b && kw_sub_s b a.

(** A task's parameters after the context: name and default, in order. *)
Definition params := list (string * value).

(** Python's binding of a call [f(ctx, *args, **kw)] to [def f(c, p1=d1, ...)]:
    positionals fill parameters left to right, keywords by name, defaults for
    the rest.  [None]: TypeError (too many positionals, unknown or doubly
    given keyword). *)
Fixpoint bind_pos (ps : params) (args : list value) : option (kwargs * params) :=
  match args, ps with
  | [], _ => Some ([], ps)
  | a :: args', (p, _) :: ps' =>
      match bind_pos ps' args' with
      | Some (bound, rest) => Some ((p, a) :: bound, rest)
      | None => None
      end
  | _ :: _, [] => None
  end.

Definition bind (ps : params) (args : list value) (kw : kwargs) : option kwargs :=
  match bind_pos ps args with
  | None => None
  | Some (bound, rest) =>
      if forallb (fun kv => match kw_get (fst kv) rest with Some _ => true | None => false end) kw
      then Some (bound ++ map (fun pd => (fst pd, match kw_get (fst pd) kw with
                                                   | Some v => v
                                                   | None => snd pd end)) rest)
      else None
  end.

(** * Calls *)
(** Acyclic pre/post graphs are finite trees: a [call] carries the (recursively
    expanded) pre- and post-lists of its task. *)
Inductive call :=
| Call (task : nat) (args : list value) (kw : kwargs) (pre post : list call).

(** what is left of a call once expanded: task, positional, keyword arguments *)
Definition flat := (nat * list value * kwargs)%type.
Definition f_task (f : flat) : nat := fst (fst f).
Definition f_args (f : flat) : list value := snd (fst f).
Definition f_kw (f : flat) : kwargs := snd f.


(** A request: the task looked up by name (as a call tree without arguments)
    and the keyword arguments of the request ({} for a bare name, the given
    dict for a (name, kwargs) pair, [as_kwargs] for a parser context). *)
Definition request := (call * kwargs)%type.

Definition with_kwargs (c : call) (k : kwargs) : call :=
  match c with Call t _ _ pre post => Call t [] k pre post end.


(** One log entry per executed body: the task and the values its parameters
    were bound to (Python's own binding). *)
Definition entry := (nat * kwargs)%type.

