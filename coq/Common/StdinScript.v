(** Input-stream read scripts (C13): what the stdin worker's reads return, in order.
      [SNotReady]  the stream is not ready for reading
      [SData u]    the read returned the unit [u] (code points for a text-mode
                   stream, bytes for a byte-mode stream)
      [SEof]       the read returned an empty value (stream exhausted)
      [SFinish]    not a read: the command has finished ([program_finished] set)
                   before the next read.  Data items that follow it directly were
                   already available when the command finished. *)
From InvokeVerif Require Export Common.ByteText.

Inductive in_mode := MText | MBytes.

Inductive sread :=
| SNotReady
| SData (u : list N)
| SEof
| SFinish.
