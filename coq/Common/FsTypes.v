(** An abstract file system as seen through os.listdir / os.path.exists,
    shared by the loader model and the C20 specification. *)
From InvokeVerif Require Export Common.Tree Common.StrUtil.

Record fsys := mkFs {
  fs_dirs : list (string * list string);   (* directory path string -> entries *)
  fs_files : list string }.                (* path strings for which os.path.exists holds *)

Fixpoint dir_lookup (p : string) (l : list (string * list string)) : option (list string) :=
  match l with
  | [] => None
  | (k, v) :: l' => if String.eqb p k then Some v else dir_lookup p l'
  end.

Definition listdir (fs : fsys) (p : string) : option (list string) := dir_lookup p (fs_dirs fs).
Definition path_exists (fs : fsys) (p : string) : bool := mem p (fs_files fs).

