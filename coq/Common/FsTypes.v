(** An abstract file system as seen through os.listdir / os.path.exists,
    shared by the loader model and the C20 specification. *)
From InvokeVerif Require Export Common.Tree Common.StrUtil.

Record fsys := mkFs {
  fs_dirs : list (string * list string);   (* directory path string -> entries *)
  fs_files : list string }.                (* path strings for which os.path.exists holds *)

Fixpoint dir_lookup (p : string) (l : list (string * list string)) : option (list string) :=
  match l with
  | [] => None
  | (k, v) :: l' => if String.eqb p k then Some v else dir_lookup p l'
  end.

Definition listdir (fs : fsys) (p : string) : option (list string) := dir_lookup p (fs_dirs fs).
Definition path_exists (fs : fsys) (p : string) : bool := mem p (fs_files fs).


(** ** Lexical path normalisation (os.path.normpath / abspath for POSIX paths
    without a leading "//") *)

(** Directory of a component list: [] is the root "/". *)
Definition dir_str (comps : list string) : string := ("/" ++ join "/" comps)%string.

(** Components of a path string: empty ones (leading / trailing / doubled
    separator) and "." dropped ... *)
Definition raw_comps (p : string) : list string :=
  filter (fun c => negb (String.eqb c "") && negb (String.eqb c ".")) (split_char "/"%char p).

(** ... then ".." removes the component before it (nothing at the root). *)
Definition resolve (l : list string) : list string :=
  fold_left (fun acc c => if String.eqb c ".." then removelast acc else acc ++ [c]) l [].

Definition comps_of (p : string) : list string := resolve (raw_comps p).

(** the components of os.path.abspath(start) in a process whose working
    directory is [cwd] (absolute) *)
Definition abs_comps (cwd start : string) : list string :=
  if starts_with "/" start then comps_of start else resolve (raw_comps cwd ++ raw_comps start).
