From InvokeVerif Require Import Model.EnvModel Spec.C16Spec.
