(** C16 -- Environment variables override exactly the existing settings they
    name, typed.  Statements only; proofs are in Proofs/C16_env.v. *)
From InvokeVerif Require Import Common.Tree Common.StrUtil Model.EnvModel Spec.C16Spec
     Proofs.C16_env.

(** Flagship: for every well-formed config tree, prefix and environment, what
    the model of Environment.load returns is accepted by the executable spec
    (ambiguity refused; exactly the named existing settings applied, converted
    by the type of the value they override; nothing created). *)
Theorem C16_load_meets_spec : forall kids pfx env,
  wf (Node kids) = true ->
  spec_ok (Node kids) pfx env (load (Node kids) pfx env) = true.
Proof. exact load_meets_spec. Qed.

(** Refused as ambiguous exactly when two distinct setting paths share a name. *)
Theorem C16_ambiguous_iff : forall kids pfx env,
  wf (Node kids) = true ->
  (load (Node kids) pfx env = Err EAmbigEnv <->
   exists p q, In p (map fst (leaf_paths (Node kids))) /\ In q (map fst (leaf_paths (Node kids))) /\
               p <> q /\ var_name p = var_name q).
Proof. exact load_ambiguous_iff. Qed.

(** Never creates settings: every leaf of the result overrides an existing leaf
    named by a present variable, with the converted value. *)
Theorem C16_never_creates : forall kids pfx env d,
  wf (Node kids) = true -> load (Node kids) pfx env = Ok d ->
  forall q w, In (q, w) (leaf_paths (Node d)) ->
    exists old s, In (q, old) (leaf_paths (Node kids)) /\
                  lookup_env (pfx ++ var_name q) env = Some s /\ convert old s = Ok w.
Proof. exact load_never_creates. Qed.

(** Applied exactly: every existing setting named by a present variable is in the result. *)
Theorem C16_applied_exactly : forall kids pfx env d,
  wf (Node kids) = true -> load (Node kids) pfx env = Ok d ->
  forall q old s, In (q, old) (leaf_paths (Node kids)) ->
    lookup_env (pfx ++ var_name q) env = Some s ->
    exists w, convert old s = Ok w /\ In (q, w) (leaf_paths (Node d)).
Proof. exact load_applies_all. Qed.

(** Variables naming no existing setting have no influence at all. *)
Theorem C16_unrelated_ignored : forall kids pfx env env',
  wf (Node kids) = true ->
  (forall p, In p (map fst (leaf_paths (Node kids))) ->
             lookup_env (pfx ++ var_name p) env = lookup_env (pfx ++ var_name p) env') ->
  load (Node kids) pfx env = load (Node kids) pfx env'.
Proof. exact load_unrelated_ignored. Qed.

(** Conversion table of the model. *)
Theorem C16_cast_table :
  (forall b s, cast (VBool b) s = Ok (VBool (negb (String.eqb s "" || String.eqb s "0")))) /\
  (forall x s, cast (VStr x) s = Ok (VStr s)) /\
  (forall s, cast VNone s = Ok (VStr s)) /\
  (forall l s, cast (VList l) s = Err EUncastable) /\
  (forall l s, cast (VTuple l) s = Err EUncastable) /\
  (forall z s, cast (VInt z) s = match parse_int s with Some n => Ok (VInt n) | None => Err EValue end).
Proof. exact cast_table. Qed.

(** Non-vacuity: a well-formed tree where distinct paths collide only at depth,
    and one where a nested setting is overridden. *)
Example C16_example_collision :
  let t := [("a", Node [("b", Leaf (VInt 1))]); ("a_b", Leaf (VInt 2))] in
  wf (Node t) = true /\ load (Node t) "INVOKE_" [("INVOKE_A_B", "5")] = Err EAmbigEnv.
Proof. vm_compute. split; reflexivity. Qed.

Example C16_example_applied :
  let t := [("run", Node [("echo", Leaf (VBool false)); ("shell", Leaf (VStr "sh"))]); ("n", Leaf (VInt 1))] in
  wf (Node t) = true /\
  load (Node t) "INVOKE_" [("INVOKE_RUN_ECHO", "1"); ("INVOKE_N", "-7"); ("INVOKE_NOPE", "x"); ("RUN_SHELL", "zsh")]
  = Ok [("run", Node [("echo", Leaf (VBool true))]); ("n", Leaf (VInt (-7)))].
Proof. vm_compute. split; reflexivity. Qed.

(** Tie to the source text: the branch table of Environment._cast and the
    variable-name rule, regenerated from invoke/env.py on every run
    (Generated/Tables.v), are the ones the model [cast]/[env_var] was written
    from.  [None] = the translator did not recognise the shape (fallback to the
    behavioural correspondence only). *)
From InvokeVerif Require Generated.Tables.
Theorem C16_cast_matches_source :
  match Generated.Tables.cast_src with
  | Some t => t = [("isinstance(old, bool)", "return new not in ('0', '')");
                   ("isinstance(old, str)", "return new");
                   ("old is None", "return new");
                   ("isinstance(old, (list, tuple))",
                    "err = ""Can't adapt an environment string into a {}!""; err = err.format(type(old)); raise UncastableEnvVar(err)");
                   ("else", "return old.__class__(new)")]
  | None => True
  end /\
  match Generated.Tables.to_env_var_src with
  | Some e => e = "'_'.join(key_path).upper()"
  | None => True
  end.
Proof. split; vm_compute; first [reflexivity | exact I]. Qed.

(** ** The configuration after the load (what a user finally reads).
    Proofs are in Proofs/C16_view.v (+ Proofs/C16_view_shapes.v); they reuse the
    merge and obliterate shape theorems of C03/C06. *)
From InvokeVerif Require Import Corr.C16Corr Proofs.C16_view.
From InvokeVerif Require Proofs.C03_merge.

(** Guard (boolean, [Proofs/C16_view.v]): every level of the case (defaults,
    collection / overrides, modifications) is a dict without duplicate keys at
    any depth, and so is the deletions tree:
      view_guard c = forallb wf (levels c) && forallb is_node (levels c) && wf (c_dels c).
    Type consistency of the levels is not a guard: it is implied by [pre c = Ok _]
    (theorem [C16_pre_ok_iff_consistent]).  Nothing is asked of the deletions
    tree beyond well-formedness (whatever leaf marks a path deletes it). *)

(** Flagship for the view: whenever the configuration the environment is read
    against exists ([pre c = Ok t]) and the load was accepted, the view computed
    in Config.merge order (defaults, collection, env, overrides, modifications,
    then deletions) is accepted by the executable [spec_view]: (a) it has exactly
    the defined paths of [t] -- nothing created, nothing lost; (b) every setting
    of [t] reads the converted value of the env level unless a higher level
    (overrides, modifications) defines that path, and otherwise its old value. *)
Theorem C16_view_meets_spec : forall c t d v,
  view_guard c = true ->
  pre c = Ok t -> model_env c = Ok (Node d) -> model_view c = Some v ->
  spec_view t (skipn 1 (c_more c) ++ [c_mods c]) d v = true.
Proof. exact view_meets_spec. Qed.

(** Totality: once the pre-merge and the load succeeded the final merge cannot
    fail (the env level only overrides existing leaves with leaves). *)
Theorem C16_view_total : forall c t e,
  view_guard c = true -> pre c = Ok t -> model_env c = Ok e -> model_view c <> None.
Proof. exact view_total. Qed.

(** Both halves as one boolean judgement of the model's three outputs. *)
Theorem C16_view_flagship : forall c,
  view_guard c = true ->
  match pre c, model_env c with
  | Ok t, Ok (Node d) =>
      match model_view c with
      | Some v => spec_view t (skipn 1 (c_more c) ++ [c_mods c]) d v
      | None => false
      end
  | Ok _, Ok (Leaf _) => false
  | _, _ => true
  end = true.
Proof. exact view_flagship. Qed.

(** The hypothesis [pre c = Ok _] is exactly pairwise type consistency of the
    levels (C03's guard, as a statement about paths). *)
Theorem C16_pre_ok_iff_consistent : forall c,
  view_guard c = true ->
  ((exists t, pre c = Ok t) <->
   (forall a b, In a (levels c) -> In b (levels c) -> C03_merge.agree a b)).
Proof. exact pre_ok_iff_consistent. Qed.

(** Readable corollaries.  No setting or section is created or lost ... *)
Theorem C16_view_nothing_created_or_lost : forall c t d v,
  view_guard c = true -> pre c = Ok t -> model_env c = Ok (Node d) -> model_view c = Some v ->
  forall p, p <> [] -> (lookup p v = None <-> lookup p t = None).
Proof. exact view_nothing_created_or_lost. Qed.

(** ... and every setting reads: the converted value if a variable names it and
    no higher level defines it; its old value otherwise. *)
Theorem C16_view_settings : forall c t d v,
  view_guard c = true -> pre c = Ok t -> model_env c = Ok (Node d) -> model_view c = Some v ->
  forall p x, In (p, x) (leaf_paths t) ->
    leaf_at p v = Some (match leaf_at p (Node d) with
                        | Some w => if existsb (defined_in p) (higher c) then x else w
                        | None => x
                        end).
Proof. exact view_settings. Qed.

(** Non-vacuity: nested settings, a collection level, an overrides level that
    beats the environment ([run.shell]), a runtime modification, a deleted
    setting that a variable names ([run.old]: not resurrected), an unrelated
    variable; all hypotheses hold and the view is the expected one. *)
Example C16_example_view :
  let c := mk (Node [("run", Node [("echo", Leaf (VBool false)); ("shell", Leaf (VStr "sh"));
                                   ("old", Leaf (VInt 3))]);
                     ("n", Leaf (VInt 1))])
              [Node [("n", Leaf (VInt 2)); ("tasks", Node [("dedupe", Leaf (VBool true))])];
               Node [("run", Node [("shell", Leaf (VStr "zsh"))])]]
              (Node [("extra", Leaf (VStr "x"))])
              (Node [("run", Node [("old", Leaf VNone)])])
              "invoke"
              [("INVOKE_RUN_ECHO", "1"); ("INVOKE_RUN_SHELL", "fish"); ("INVOKE_N", "7");
               ("INVOKE_RUN_OLD", "9"); ("INVOKE_NOPE", "x")]
              (Err EOther) None [] in
  view_guard c = true /\
  pre c = Ok (Node [("run", Node [("echo", Leaf (VBool false)); ("shell", Leaf (VStr "zsh"))]);
                    ("n", Leaf (VInt 2)); ("tasks", Node [("dedupe", Leaf (VBool true))]);
                    ("extra", Leaf (VStr "x"))]) /\
  model_env c = Ok (Node [("run", Node [("echo", Leaf (VBool true)); ("shell", Leaf (VStr "fish"))]);
                          ("n", Leaf (VInt 7))]) /\
  model_view c = Some (Node [("run", Node [("echo", Leaf (VBool true)); ("shell", Leaf (VStr "zsh"))]);
                             ("n", Leaf (VInt 7)); ("tasks", Node [("dedupe", Leaf (VBool true))]);
                             ("extra", Leaf (VStr "x"))]).
Proof. vm_compute. repeat split; reflexivity. Qed.

(** ** Settings whose value is an instance of a SUBCLASS of list / tuple / int / str
    (Model/EnvSubModel.v, proofs in Proofs/C16_sub.v).  Environment._cast
    dispatches with isinstance(), so the class only matters in the last branch
    [old.__class__(new)]. *)
From InvokeVerif Require Import Model.EnvSubModel Proofs.C16_sub.

(** Conversion table of the model on subclass instances: list and tuple
    subclasses (namedtuples included) are rejected, str subclasses (Enum members
    included) take the text verbatim, an int subclass converts like int, an
    IntEnum member refuses every text. *)
Theorem C16_cast_subclass_table :
  (forall v s, cast_py (Exact v) s = cast v s) /\
  (forall k l s, cast_py (Sub k (VList l)) s = Err EUncastable) /\
  (forall k l s, cast_py (Sub k (VTuple l)) s = Err EUncastable) /\
  (forall k x s, cast_py (Sub k (VStr x)) s = Ok (VStr s)) /\
  (forall z s, cast_py (Sub SubPlain (VInt z)) s =
               match parse_int s with Some n => Ok (VInt n) | None => Err EValue end) /\
  (forall z s, cast_py (Sub SubEnum (VInt z)) s = Err EValue).
Proof. exact cast_py_table. Qed.

(** Without subclass instances the class-aware model is the plain one. *)
Theorem C16_load_py_no_subclass : forall t pfx env, load_py t [] pfx env = load t pfx env.
Proof. exact load_py_nil. Qed.

(** Guard (boolean): no setting is an IntEnum member
    ([enum_int_free t subs]: no crawled setting is annotated [SubEnum] over an int).
    Under it a configuration with subclass instances loads exactly like the
    configuration of their base values.  Missing for full strength: an IntEnum
    member setting refuses every text (ValueError) where the base int would
    accept digits; the spec has no reading of "through their type" for Enum
    classes, so such settings are only generated with non-numeric text. *)
Theorem C16_subclass_projection_partial : forall t subs pfx env,
  enum_int_free t subs = true -> load_py t subs pfx env = load t pfx env.
Proof. exact load_py_projection. Qed.

Theorem C16_load_py_meets_spec_partial : forall kids subs pfx env,
  wf (Node kids) = true -> enum_int_free (Node kids) subs = true ->
  spec_ok (Node kids) pfx env (load_py (Node kids) subs pfx env) = true.
Proof. exact load_py_meets_spec. Qed.

(** Non-vacuity: a list-subclass setting and a namedtuple setting are rejected,
    a str-Enum and an int-subclass setting are applied; the guard holds.  And an
    IntEnum member setting given digits is refused although its base value
    would convert (the guard is false there). *)
Example C16_example_subclass :
  let t := Node [("deploy", Node [("hosts", Leaf (VList ["web1"; "web2"]))]); ("port", Leaf (VInt 22));
                 ("mode", Leaf (VStr "fast")); ("ep", Leaf (VTuple ["localhost"; "22"]))] in
  let subs := [(["deploy"; "hosts"], SubPlain); (["port"], SubPlain); (["mode"], SubEnum); (["ep"], SubPlain)] in
  wf t = true /\ enum_int_free t subs = true /\
  load_py t subs "INVOKE_" [("INVOKE_DEPLOY_HOSTS", "db1")] = Err EUncastable /\
  load_py t subs "INVOKE_" [("INVOKE_EP", "db1")] = Err EUncastable /\
  load_py t subs "INVOKE_" [("INVOKE_PORT", "2222"); ("INVOKE_MODE", "slow")]
  = Ok [("port", Leaf (VInt 2222)); ("mode", Leaf (VStr "slow"))] /\
  enum_int_free t [(["port"], SubEnum)] = false /\
  load_py t [(["port"], SubEnum)] "INVOKE_" [("INVOKE_PORT", "2222")] = Err EValue /\
  load t "INVOKE_" [("INVOKE_PORT", "2222")] = Ok [("port", Leaf (VInt 2222))].
Proof. vm_compute. repeat split; reflexivity. Qed.
