(** C16 -- Environment variables override exactly the existing settings they
    name, typed.  Statements only; proofs are in Proofs/C16_env.v. *)
From InvokeVerif Require Import Common.Tree Common.StrUtil Model.EnvModel Spec.C16Spec
     Proofs.C16_env.

(** Flagship: for every well-formed config tree, prefix and environment, what
    the model of Environment.load returns is accepted by the executable spec
    (ambiguity refused; exactly the named existing settings applied, converted
    by the type of the value they override; nothing created). *)
Theorem C16_load_meets_spec : forall kids pfx env,
  wf (Node kids) = true ->
  spec_ok (Node kids) pfx env (load (Node kids) pfx env) = true.
Proof. exact load_meets_spec. Qed.

(** Refused as ambiguous exactly when two distinct setting paths share a name. *)
Theorem C16_ambiguous_iff : forall kids pfx env,
  wf (Node kids) = true ->
  (load (Node kids) pfx env = Err EAmbigEnv <->
   exists p q, In p (map fst (leaf_paths (Node kids))) /\ In q (map fst (leaf_paths (Node kids))) /\
               p <> q /\ var_name p = var_name q).
Proof. exact load_ambiguous_iff. Qed.

(** Never creates settings: every leaf of the result overrides an existing leaf
    named by a present variable, with the converted value. *)
Theorem C16_never_creates : forall kids pfx env d,
  wf (Node kids) = true -> load (Node kids) pfx env = Ok d ->
  forall q w, In (q, w) (leaf_paths (Node d)) ->
    exists old s, In (q, old) (leaf_paths (Node kids)) /\
                  lookup_env (pfx ++ var_name q) env = Some s /\ convert old s = Ok w.
Proof. exact load_never_creates. Qed.

(** Applied exactly: every existing setting named by a present variable is in the result. *)
Theorem C16_applied_exactly : forall kids pfx env d,
  wf (Node kids) = true -> load (Node kids) pfx env = Ok d ->
  forall q old s, In (q, old) (leaf_paths (Node kids)) ->
    lookup_env (pfx ++ var_name q) env = Some s ->
    exists w, convert old s = Ok w /\ In (q, w) (leaf_paths (Node d)).
Proof. exact load_applies_all. Qed.

(** Variables naming no existing setting have no influence at all. *)
Theorem C16_unrelated_ignored : forall kids pfx env env',
  wf (Node kids) = true ->
  (forall p, In p (map fst (leaf_paths (Node kids))) ->
             lookup_env (pfx ++ var_name p) env = lookup_env (pfx ++ var_name p) env') ->
  load (Node kids) pfx env = load (Node kids) pfx env'.
Proof. exact load_unrelated_ignored. Qed.

(** Conversion table of the model. *)
Theorem C16_cast_table :
  (forall b s, cast (VBool b) s = Ok (VBool (negb (String.eqb s "" || String.eqb s "0")))) /\
  (forall x s, cast (VStr x) s = Ok (VStr s)) /\
  (forall s, cast VNone s = Ok (VStr s)) /\
  (forall l s, cast (VList l) s = Err EUncastable) /\
  (forall l s, cast (VTuple l) s = Err EUncastable) /\
  (forall z s, cast (VInt z) s = match parse_int s with Some n => Ok (VInt n) | None => Err EValue end).
Proof. exact cast_table. Qed.

(** Non-vacuity: a well-formed tree where distinct paths collide only at depth,
    and one where a nested setting is overridden. *)
Example C16_example_collision :
  let t := [("a", Node [("b", Leaf (VInt 1))]); ("a_b", Leaf (VInt 2))] in
  wf (Node t) = true /\ load (Node t) "INVOKE_" [("INVOKE_A_B", "5")] = Err EAmbigEnv.
Proof. vm_compute. split; reflexivity. Qed.

Example C16_example_applied :
  let t := [("run", Node [("echo", Leaf (VBool false)); ("shell", Leaf (VStr "sh"))]); ("n", Leaf (VInt 1))] in
  wf (Node t) = true /\
  load (Node t) "INVOKE_" [("INVOKE_RUN_ECHO", "1"); ("INVOKE_N", "-7"); ("INVOKE_NOPE", "x"); ("RUN_SHELL", "zsh")]
  = Ok [("run", Node [("echo", Leaf (VBool true))]); ("n", Leaf (VInt (-7)))].
Proof. vm_compute. split; reflexivity. Qed.

(** Tie to the source text: the branch table of Environment._cast and the
    variable-name rule, regenerated from invoke/env.py on every run
    (Generated/Tables.v), are the ones the model [cast]/[env_var] was written
    from.  [None] = the translator did not recognise the shape (fallback to the
    behavioural correspondence only). *)
From InvokeVerif Require Generated.Tables.
Theorem C16_cast_matches_source :
  match Generated.Tables.cast_src with
  | Some t => t = [("isinstance(old, bool)", "return new not in ('0', '')");
                   ("isinstance(old, str)", "return new");
                   ("old is None", "return new");
                   ("isinstance(old, (list, tuple))",
                    "err = ""Can't adapt an environment string into a {}!""; err = err.format(type(old)); raise UncastableEnvVar(err)");
                   ("else", "return old.__class__(new)")]
  | None => True
  end /\
  match Generated.Tables.to_env_var_src with
  | Some e => e = "'_'.join(key_path).upper()"
  | None => True
  end.
Proof. split; vm_compute; first [reflexivity | exact I]. Qed.
