From InvokeVerif Require Import Corr.C08Corr.
