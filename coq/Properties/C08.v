(** C08 -- command execution always terminates, leaving nothing behind.
    Statements only; proofs in Proofs/RunnerSM_facts.v, Proofs/C08_sm.v,
    Proofs/RunnerSM_sweep.v.  All statements are about the RunnerSM model
    (event scripts universally quantified); what the model cannot exhibit is
    listed in harness/props/c08.py ([not_modelled]). *)
From InvokeVerif Require Import Model.RunnerSM Spec.C08Spec Corr.RunnerCorr.
From InvokeVerif Require Import Proofs.RunnerSM_facts Proofs.C08_sm Proofs.RunnerSM_sweep Proofs.C08_flagship.
From InvokeVerif Require Import Model.RunnerBursts Proofs.C08_bursts.

(** Whenever the process comes to an end (exit, kill on timeout, exit right
    after a forwarded interrupt) and the readers get EOF -- for EVERY event
    script and configuration -- run()/join() terminates and by then no worker is
    running, the timer is not armed, program_finished is set and stop() was called. *)
(* Reading notes.  (1) [fair c] ("nobody else keeps the pipes open") is a premise here AND a
   condition inside [C08Spec.spec_ok]: a descendant holding a pipe makes run() block in an untimed
   join although the command has ended -- finding F-C14b, listed for C08 too.  (2) [run_sm] is a
   total fold over the script, so "the model terminates" is definitional; the content of the theorem
   is the settled outcome and the released resources, and [C08_steps_linear] bounds the main thread's
   work.  (3) A KeyboardInterrupt that arrives while the main thread is inside a join is not an event
   of the model; on the real runner it escapes run() and leaves workers unjoined (finding F-C08g). *)
Theorem C08_terminates_when_process_ends :
  forall c script,
    start_raises c = false -> fair c = true -> process_ends c script = true ->
    clean (run_sm c script).
Proof. exact terminates_when_process_ends. Qed.

(** The bound: the number of main-thread transitions plus events processed is
    linear in the length of the script (at most 11 per event, 20 for start and drain). *)
Theorem C08_steps_linear :
  forall c script, start_raises c = false ->
    n_steps (snd (run_sm c script)) <= 11 * List.length script + 20.
Proof. exact steps_linear. Qed.

(** The invariant behind it (the variant: once past the wait loop the main
    thread never returns to it, and every join todo list is duplicate-free, so at
    most 3 joins remain). *)
Theorem C08_invariant :
  forall c script, start_raises c = false -> Inv c (fst (run_events c (advance c (init c)) script)).
Proof. exact invariant_holds. Qed.

(* (definitional: a counting fact about the three-element type [who]) *)
Theorem C08_join_list_bounded : forall l : list who, NoDup l -> List.length l <= 3.
Proof. exact nodup_who_length. Qed.

(** A worker -- stdout, stderr or (since the fix of F-C08c) stdin -- dies while the
    process is still running: whatever happens next (pipes held open or not, the
    process ending or not) the call ends, reports that failure, and at most two
    1 s join timeouts are spent (one per output worker). *)
Theorem C08_dead_worker_bounded :
  forall c script w x,
    start_raises c = false -> death_while_running c script = Some (w, x) ->
    exists o, s_pc (fst (run_sm c script)) = PDone o /\ is_failure_report o = true /\
              n_expired (snd (run_sm c script)) <= 2.
Proof. exact dead_worker_bounded. Qed.

(** The shell cannot be started: reported, nothing started, nothing killed ...
    (guard: the failure is raised in the calling process, i.e. no pty) *)
Theorem C08_start_failure_reported_partial :
  forall c script,
    start_raises c = true ->
    let s := run_sm c script in
    s_pc (fst s) = PDone OStartError /\ (forall w, wget (fst s) w = WAbsent) /\
    s_timer (fst s) = TNone /\ n_kills (snd s) = 0.
Proof. exact start_failure_reported. Qed.

(** ... FALSE under a pty (F-C08a): the parent carries on as if started. *)
Theorem C08_start_failure_reported_refuted :
  exists c script, c_start_fail c = true /\ s_pc (fst (run_sm c script)) <> PDone OStartError.
Proof. exact start_failure_refuted. Qed.

(** "the child has been reaped": true when no worker is made to fail (missing: a
    worker death before the process ends, F-C08d) *)
Theorem C08_reaped_partial :
  forall c script,
    start_raises c = false -> no_exc script = true -> process_ends c script = true ->
    s_reaped (fst (run_sm c script)) = true.
Proof. exact reaped_partial. Qed.

(** "the child has been reaped" / "a documented outcome": FALSE in two corners *)
Theorem C08_reaped_refuted :          (* F-C08d *)
  exists c script, start_raises c = false /\ fair c = true /\ process_ends c script = true /\
    s_reaped (fst (run_sm c script)) = false.
Proof. exact reaped_refuted. Qed.

Theorem C08_outcome_documented_refuted :   (* F-C08b *)
  exists c script, start_raises c = false /\ fair c = true /\ process_ends c script = true /\
    s_pc (fst (run_sm c script)) = PDone OChildProcessError.
Proof. exact outcome_documented_refuted. Qed.

(** Flagship: for EVERY configuration and EVERY event script, outside the three
    catalogued defect regions ([guard08]: not (start failure under a pty) F-C08a,
    not (pty and an interrupt right after the reaping poll) F-C08b, no worker death
    before a process end with fair pipes F-C08d) the model satisfies the
    executable spec. *)
Theorem C08_run_meets_spec_partial :
  forall c script, guard08 c script = true -> C08Spec.spec_ok c script (observe (run_sm c script)) = true.
Proof. exact run_meets_spec08. Qed.

(** The F-C08d region narrowed to its one conjunct: with only F-C08a/b excluded,
    everything the spec demands holds except "the child has been reaped" (the spec
    is met by the observation with that one field forced to true). *)
Theorem C08_run_meets_spec_upto_reaped_partial :
  forall c script, guard08_narrow c script = true ->
    C08Spec.spec_ok c script (with_reaped (observe (run_sm c script))) = true.
Proof. exact run_meets_spec08_upto_reaped. Qed.

(** the outcome is one of the documented ones unless a pty meets an interrupt
    right after the reaping poll (F-C08b) *)
Theorem C08_outcome_documented_partial :
  forall c script o,
    start_raises c = false -> (c_pty c = false \/ no_exit_kbd script = true) ->
    s_pc (fst (run_sm c script)) = PDone o -> documented o = true.
Proof. exact outcome_documented_partial. Qed.

(** reaped whenever no worker died before the process ended *)
Theorem C08_reaped_general_partial :
  forall c script,
    start_raises c = false -> death_while_running c script = None -> process_ends c script = true ->
    s_reaped (fst (run_sm c script)) = true.
Proof. exact reaped_general. Qed.

(** The same flagship statement as a finite sweep (a TEST, not the property): for all 128
    configurations and all 2380 scripts of at most 3 events over a 13-event
    alphabet, outside the three catalogued defect regions the model satisfies
    the executable spec. *)
Theorem C08_run_meets_spec_bounded_3 :
  sweep ok08 (configs true) (scripts_upto alphabet08 3) = true.
Proof. exact sweep08_3. Qed.

(** Tie to the source text (Generated/Tables.v is rewritten from invoke/runners.py
    on every run): [Runner._thread_join_timeout] is, statement for statement, what
    [RunnerSM.join_bounded] was written from -- no timeout for the stdin worker,
    1 s for an output worker iff its out/err sibling or the stdin worker is dead.  [None]: shape not recognised by the
    translator (behavioural correspondence only). *)
From InvokeVerif Require Generated.Tables.
Theorem C08_join_timeout_matches_source :
  match Generated.Tables.join_timeout_src with
  | Some l => l = ["if target == self.handle_stdin: return None";
                   "opposite = self.handle_stderr";
                   "if target == self.handle_stderr: opposite = self.handle_stdout";
                   "if opposite in self.threads and self.threads[opposite].is_dead: return 1";
                   "stdin = self.handle_stdin";
                   "if stdin in self.threads and self.threads[stdin].is_dead: return 1";
                   "return None"]%string
  | None => True
  end.
Proof. vm_compute. first [reflexivity | exact I]. Qed.

(** Non-vacuity *)
Example C08_ex_terminates :     (* output, exit 3, timer after the exit, EOFs: ends, clean *)
  let c := mkCfg false true true false false false false false in
  let script := [EChunk WOut; EExit 3%Z; ETimer; EEof WErr; EEof WOut] in
  start_raises c = false /\ fair c = true /\ process_ends c script = true /\
  observe (run_sm c script) =
    mkSmObs (Some OTimedOut) 1 1 0 1 true [] false true true 1 0
            [(WOut, false); (WIn, false); (WErr, false)].
Proof. vm_compute. auto. Qed.

Example C08_ex_stdin_worker_death :   (* the F-C08c witness: stdin worker dies, the command keeps its pipes open *)
  let c := mkCfg false true false false false false true true in
  death_while_running c [EExc WIn XOther] = Some (WIn, XOther) /\
  s_pc (fst (run_sm c [EExc WIn XOther])) = PDone OThreadException /\
  n_expired (snd (run_sm c [EExc WIn XOther])) = 2.
Proof. exact stdin_death_witness. Qed.

Example C08_ex_dead_worker :    (* stderr worker dies, stdout pipe held: 1 s join timeout, reported *)
  let c := mkCfg false false false false false false true false in
  let script := [EChunk WOut; EExc WErr XWatcher] in
  death_while_running c script = Some (WErr, XWatcher) /\
  s_pc (fst (run_sm c script)) = PDone OFailure /\ n_expired (snd (run_sm c script)) = 1 /\
  o_alive (observe (run_sm c script)) = [WOut].
Proof. vm_compute. auto. Qed.

(** * Poll granularity of the wait loop (Model/RunnerBursts.v)
    The script as a list of BURSTS: the events of one burst fall between the same two
    iterations of [Runner.wait] (the main thread runs once per burst, not once per event).
    One event per burst is the model of all the theorems above. *)
Theorem C08_bursts_refine_scripts :
  forall c script, run_bursts c (group script []) = run_sm c script.
Proof. exact run_bursts_singletons. Qed.

(** The wait loop polls the process FIRST in every iteration ([process_is_finished] is
    evaluated before [has_dead_threads], never short-circuited away): while the loop is
    still waiting, a burst in which the process ends -- whatever else happens in that
    burst, worker deaths before or after the exit included -- is followed by a poll that
    reaps the child.  ([plain]: events that are not themselves tied to a poll, i.e. no
    interrupts; stdin-worker reads happen at that worker's own pace.)  Contrast: the death
    ONE ITERATION before the end leaves the loop without that poll (F-C08d,
    [C08_reaped_refuted]). *)
Theorem C08_burst_end_reaped :
  forall c s b,
    in_wait (fst s) = true -> forallb plain b = true ->
    (s_proc (fst s) <> None \/ existsb is_exit b = true) ->
    s_reaped (fst (step_burst c s b)) = true.
Proof. exact burst_reaps. Qed.

(** ... and the child stays reaped until run()/join() is over, whatever follows. *)
Theorem C08_run_bursts_end_reaped :
  forall c pre b post,
    in_wait (fst (run_burst_events c (advance c (init c)) pre)) = true ->
    forallb plain b = true -> existsb is_exit b = true ->
    s_reaped (fst (run_bursts c (pre ++ b :: post))) = true.
Proof. exact run_bursts_end_reaped. Qed.

Example C08_ex_burst :   (* pty, stdout worker dies, exit 0: same interval (both orders) -> reaped; an iteration apart -> not *)
  let c := mkCfg true false false false false false false false in
  let d := EExc WOut XOther in
  observe (run_bursts c [[d; EExit 0%Z]]) =
    mkSmObs (Some OThreadException) 0 0 0 1 true [] false false true 0 0 [(WOut, false)] /\
  o_reaped (observe (run_bursts c [[EExit 0%Z; d]])) = true /\
  o_reaped (observe (run_bursts c [[d]; [EExit 0%Z]])) = false /\
  in_wait (fst (run_burst_events c (advance c (init c)) [])) = true.
Proof. exact burst_witness. Qed.

(** * Historical record: F-C08c (fixed)
    Before the fix [_thread_join_timeout] looked only at the out/err sibling: with
    the stdin worker dead and the command waiting for input, join(stdout worker)
    had no timeout and run() blocked for ever.  The old rule against the new one: *)
Theorem C08_join_timeout_historical_refuted :
  exists k, is_dead (s_in k) = true /\ is_run (s_out k) = true /\
            join_bounded_legacy k WOut = false /\ join_bounded k WOut = true.
Proof. exact join_timeout_historical_refuted. Qed.
