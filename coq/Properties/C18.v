(** C18 -- core options mean the same anywhere; task tokens and the remainder
    stay intact.  Statements only; proofs in Proofs/C18_parser.v. *)
From InvokeVerif Require Import Corr.C18Corr Proofs.C07_fuel Proofs.C18_parser.
From InvokeVerif Require Import Spec.C01Spec Proofs.C01_steps Proofs.C01_occ Proofs.C01_roundtrip
     Proofs.C01_final Proofs.C18_placement Proofs.C18_program Proofs.C18_values
     Proofs.C18_program_values Proofs.C18_overrides.
From InvokeVerif Require Proofs.C01_widest2 Proofs.C18_wide.
From InvokeVerif Require Import Proofs.C18_remainder.
From InvokeVerif Require Model.ProgramTypes Model.ProgramModel.

(** Remainder (full): everything after the first bare "--" is the remainder,
    verbatim; and the parse of the rest is a function of the tokens before it. *)
Theorem C18_remainder : forall p body rem r,
  no_ddash body = true ->
  parse_argv p (body ++ "--" :: rem) = Ok r -> pr_remainder r = join " " rem.
Proof. exact remainder_verbatim. Qed.

Theorem C18_remainder_influences_nothing : forall p body rem,
  no_ddash body = true ->
  match parse_argv p (body ++ "--" :: rem), parse_argv p body with
  | Ok r1, Ok r2 => pr_ctxs r1 = pr_ctxs r2 /\ pr_unparsed r1 = pr_unparsed r2
  | Err e1, Err e2 => e1 = e2
  | _, _ => False
  end.
Proof. exact body_independent_of_remainder. Qed.

Theorem C18_program_remainder : forall core tasks body rem r,
  no_ddash body = true ->
  program_parse core tasks (body ++ "--" :: rem) = Ok r -> pg_remainder r = join " " rem.
Proof. exact program_remainder. Qed.

(** The same through BOTH passes of Program (full): for every command line
    [body ++ "--" :: rem] with [body] free of "--" -- whatever the last token of
    [body] is (a bare optional-value flag --list / -l / --help / -h, a cluster
    ending in one, a flag still waiting for its value, nothing at all: [body]
    may be empty) and whatever [rem] looks like (task names, flags, further
    "--") -- the parse is that of [body] alone: same Program.args values, same
    tokens handed to the task pass, same task calls, same error if any; the
    remainder is [rem] joined by single spaces, and [body] alone has none. *)
Theorem C18_program_remainder_influences_nothing : forall core tasks body rem,
  no_ddash body = true ->
  match program_parse core tasks (body ++ "--" :: rem), program_parse core tasks body with
  | Ok r1, Ok r2 => pg_core r1 = pg_core r2 /\ pg_unparsed r1 = pg_unparsed r2 /\
                    pg_tasks r1 = pg_tasks r2 /\
                    pg_remainder r1 = join " " rem /\ pg_remainder r2 = ""
  | Err e1, Err e2 => e1 = e2
  | _, _ => False
  end.
Proof. exact program_remainder_influences_nothing. Qed.

(** ... and for a command line that already contains "--": a further
    ["--" :: rem] appended to it changes nothing but the remainder. *)
Theorem C18_program_trailing_remainder_inert : forall core tasks argv rem,
  match program_parse core tasks (argv ++ "--" :: rem), program_parse core tasks argv with
  | Ok r1, Ok r2 => pg_core r1 = pg_core r2 /\ pg_unparsed r1 = pg_unparsed r2 /\
                    pg_tasks r1 = pg_tasks r2
  | Err e1, Err e2 => e1 = e2
  | _, _ => False
  end.
Proof. exact program_trailing_remainder_inert. Qed.

(** The model satisfies the two remainder clauses of the executable
    specification (S1: remainder = the tokens after the first "--" joined; S4:
    the line with the trailing remainder differs from the line without it in
    [remainder] only) on ALL cases -- every signature set, groups, option,
    placement and remainder.  (The placement clause S3 is false at full strength:
    [C18_placement_refuted_*]; S2 is only swept.) *)
Theorem C18_model_remainder_clauses : forall cs groups opt j rem,
  match model_program cs (placed_argv groups opt j rem) with
  | Ok o => s1_remainder (placed_argv groups opt j rem) o
  | Err _ => true
  end
  && s4_remainder_inert rem (model_program cs (placed_argv groups opt j None))
                            (model_program cs (placed_argv groups opt j rem)) = true.
Proof. exact model_remainder_clauses. Qed.

(** A bare optional-value core flag right before "--", every spelling (long,
    short, last letter of a short-flag cluster), the real core context, ANY
    accepted task set, ANY remainder: the option is True (given without value),
    nothing reaches the task pass, no task is called, remainder verbatim.
    [bare_before_ddash tok name] (Proofs/C18_remainder.v) :=
      forall tasks rem, parser_ok tasks = true ->
      exists r, program_parse core_ctx tasks (tok :: "--" :: rem) = Ok r /\
                core_value (pg_core r) name = ABool true /\
                pg_unparsed r = [] /\ pg_tasks r = [] /\ pg_remainder r = join " " rem. *)
Theorem C18_bare_optional_before_ddash :
  bare_before_ddash "--list" "list" /\ bare_before_ddash "-l" "list" /\
  bare_before_ddash "--help" "help" /\ bare_before_ddash "-h" "help" /\
  bare_before_ddash "-wl" "list" /\ bare_before_ddash "-eh" "help".
Proof. exact bare_optional_before_ddash. Qed.

(** A flag that REQUIRES a value directly before "--": the documented error
    (needed value and was not given one), whatever follows -- "--" is never
    taken as the value. *)
Theorem C18_value_flag_before_ddash_is_error : forall tasks rem,
  program_parse core_ctx tasks ("--hide" :: "--" :: rem) = Err EParse /\
  program_parse core_ctx tasks ("-f" :: "--" :: rem) = Err EParse /\
  program_parse core_ctx tasks ("-T" :: "--" :: rem) = Err EParse.
Proof. exact value_flag_before_ddash_is_error. Qed.

(** Non-vacuity: "-F json -l -- build --list" with a task "a": list-format json,
    list True, nothing parsed as a task, remainder "build --list"; the same
    line without the remainder gives the same core values. *)
Example C18_remainder_inhabited :
  no_ddash ["-F"; "json"; "-l"] = true /\
  exists g g0,
    model_program [task_a] (["-F"; "json"; "-l"] ++ "--" :: ["a"; "--list"]) = Ok g /\
    model_program [task_a] ["-F"; "json"; "-l"] = Ok g0 /\
    kw_get "list" (g_core g) = Some (ABool true) /\
    kw_get "list-format" (g_core g) = Some (AStr "json") /\
    g_core g = g_core g0 /\ g_tasks g = [] /\ g_unparsed g = [] /\
    g_remainder g = "a --list" /\ g_remainder g0 = "".
Proof.
  split; [reflexivity|]. eexists. eexists.
  split; [vm_compute; reflexivity|]. split; [vm_compute; reflexivity|].
  repeat split; vm_compute; reflexivity.
Qed.

(** Every command line has exactly one such decomposition. *)
Theorem C18_split_at_first_ddash : forall argv,
  no_ddash (fst (split_ddash argv)) = true /\
  (argv = fst (split_ddash argv) /\ snd (split_ddash argv) = [] \/
   argv = fst (split_ddash argv) ++ "--" :: snd (split_ddash argv)).
Proof. exact split_ddash_spec. Qed.

(** Unparsed tokens (full): once the (core) pass is storing unknown tokens,
    every remaining token is appended unchanged -- no splitting, dropping,
    duplication or consumption. *)
Theorem C18_unparsed_verbatim : forall p fuel m body m',
  m_st m = SUnknown -> m_unparsed m <> [] ->
  loop p fuel m body = Some (Ok m') ->
  m_unparsed m' = m_unparsed m ++ body /\ m_st m' = SUnknown.
Proof. exact unparsed_verbatim. Qed.

(** ... so if the pass consumed [pre] entirely and [t] is the first token it
    stores, the next pass receives exactly [t :: rest]. *)
Theorem C18_tokens_after_first_unknown_intact : forall p fuel1 m0 pre m1 t rest m2,
  loop p fuel1 m0 pre = Some (Ok m1) ->
  step p m1 t = Ok (m2, []) -> m_st m2 = SUnknown -> m_unparsed m2 = [t] ->
  forall fuel m', loop p fuel m0 (pre ++ t :: rest) = Some (Ok m') ->
  m_unparsed m' = t :: rest.
Proof. exact tokens_after_first_unknown_intact. Qed.

(** F-C18a (repaired by dd95c66), now a positive statement: a core option with
    its value glued to the short flag means the same inside a task's argument
    list -- [a -T5] sets the command timeout to 5 like [-T5 a], [a -fpath]
    parses and selects the runtime configuration file; the complete [spec_ok]
    holds on the former witness.  (The universally quantified form is
    [C18_prefix_placement_equiv_partial] below, where CGlued is admissible at
    every placement.) *)
Theorem C18_glued_inside_task :
  model_spec [task_a] [["a"]] ["-T5"] 1 ["-T"] None = true /\
  (exists r, model_program [task_a] ["-T5"; "a"] = Ok r /\ kw_get "command-timeout" (g_core r) = Some (AInt 5)) /\
  (exists r, model_program [task_a] ["a"; "-T5"] = Ok r /\ kw_get "command-timeout" (g_core r) = Some (AInt 5)) /\
  (exists r, model_program [task_a] ["a"; "-fpath"] = Ok r /\ kw_get "config" (g_core r) = Some (AStr "path")).
Proof. exact glued_inside_task. Qed.

(** Historical record (F-C18a, fixed): [presplit_old] is the token-splitting
    rule as it was before dd95c66 (current context only).  On the machine that
    has just entered task "a" it tore "-T5" into "-T" "-5" and "-fpath" into
    "-f" "-p" "-a" "-t" "-h"; the repaired rule yields the flag and its glued
    value.  (A revert is caught by the harness: corpus/C18 keeps the witness.) *)
Theorem C18_placement_glued_historical_refuted :
  (exists fuel m, new_machine (mkP [task_a] (Some core_ctx) false) = Ok m /\
                  loop (mkP [task_a] (Some core_ctx) false) fuel m ["a"] = Some (Ok in_task_a)) /\
  presplit_old in_task_a "-T5" = Ok ("-T", ["-5"]) /\
  presplit in_task_a "-T5" = Ok ("-T", ["5"]) /\
  presplit_old in_task_a "-fpath" = Ok ("-f", ["-p"; "-a"; "-t"; "-h"]) /\
  presplit in_task_a "-fpath" = Ok ("-f", ["path"]).
Proof. exact glued_historical_refuted. Qed.

(** Placement equivalence -- FALSE at full strength, in two ways (plus F-C18d). *)
Theorem C18_placement_refuted_swallowed :
  exists cs groups opt j flags,
    model_spec cs groups opt j flags None = false /\
    (exists r, model_program cs ["-e"; "b"; "q"] = Ok r /\ kw_get "echo" (g_core r) = Some (ABool true)) /\
    model_program cs ["b"; "-e"; "q"] = Err EParse.
Proof. exact refuted_swallowed. Qed.

Theorem C18_placement_refuted_optional_value :
  exists cs groups opt j flags,
    model_spec cs groups opt j flags None = false /\
    (exists r, model_program cs ["n"; "-l"; "-R"] = Ok r /\
               kw_get "dry" (g_core r) = Some (ABool false) /\
               g_tasks r = [(Some "n", [("list", AStr "-R")])]).
Proof. exact refuted_optional_value. Qed.

(** F-C18d: options that Program acts upon BETWEEN the two passes (--version,
    --print-completion-script; likewise --debug, --write-pyc, --collection,
    --search-root) do not mean the same inside a task's argument list. *)
Theorem C18_placement_refuted_early_options :
  program_outline core_ctx [task_a] ["--version"; "a"] = Ok OVersionExit /\
  (exists r, program_outline core_ctx [task_a] ["a"; "--version"] = Ok (ORunTasks r) /\
             core_value (pg_core r) "version" = ABool true /\
             List.length (pg_tasks r) = 1) /\
  program_outline core_ctx [task_a] ["--print-completion-script=zsh"; "a"] = Ok OCompletionExit /\
  (exists r, program_outline core_ctx [task_a] ["a"; "--print-completion-script=zsh"] = Ok (ORunTasks r)).
Proof. exact refuted_early_options. Qed.

(** Placement, the proved part (one machine step, not the end-to-end
    equivalence): in a task context with no missing positional and nothing
    pending ([quiet]), an exact boolean core flag that the task does not shadow
    sets exactly that core argument and leaves every context otherwise
    untouched.  Missing for the full statement: value-taking core options, the
    simulation of the rest of the command line, composition of the two passes --
    covered only by the bounded sweep below and by the correspondence. *)
Theorem C18_placement_step_partial : forall p m k c ic tok i r,
  m_st m = SContext -> m_init m = true -> m_cur m = Some k -> get_ctx m k = Some c ->
  get_ctx m 0 = Some ic ->
  quiet m = true -> has_missing c = false ->
  ctx_has_flag (Some c) tok = false -> ctx_has_inverse (Some c) tok = false ->
  is_ctx_name (p_ctxs p) tok = false ->
  find_flag (rc_args ic) tok = Some i -> nth_error (rc_args ic) i = Some r ->
  a_kind (r_spec r) = KBool -> a_incrementable (r_spec r) = false ->
  String.eqb (arg_name (r_spec r)) "help" = false ->
  handle p tok m =
    Ok (put_arg (set_flag m (Some (0, i)) false) (0, i) (mkRArg (r_spec r) true (ABool true))).
Proof. exact core_bool_flag_in_task_context. Qed.

(** Placement equivalence, the proved part (task-parsing pass, end to end):
    for every simple invocation (the C01 fragment: any number of calls, --flag /
    --no-flag / --name value / --name=value in any order) and every exact
    spelling [tok] of a boolean non-help option of the initial context that the
    task does not shadow and that is not a task name: putting [tok] first, or
    after ANY complete item of ANY call, gives literally the same parse result
    -- the initial context with exactly that option set, and exactly the
    expected calls.  ([spell], [expected], [simple_guard]: Spec/C01Spec.v,
    Proofs/C01_final.v.)
    MISSING for full strength: value-taking core options, spellings other than
    the exact flag (clusters), richer task spellings, and the composition with
    the core pass + _update_core_context (covered by the correspondence and the
    bounded sweep only); and the recorded findings (F-C18b, F-C18c, F-C18d). *)
Theorem C18_placement_equiv_partial :
  forall (cs : list ctxspec) (ic : ctxspec) (tok : string) (i : nat) (r : rarg),
    clean_flag tok = true ->
    find_flag (rc_args (init_ctx ic)) tok = Some i ->
    nth_error (rc_args (init_ctx ic)) i = Some r ->
    a_kind (r_spec r) = KBool -> a_incrementable (r_spec r) = false ->
    String.eqb (arg_name (r_spec r)) "help" = false ->
    forall calls1 t asn items1 items2 calls2 c,
      let inv := calls1 ++ mkCall t asn (items1 ++ items2) :: calls2 in
      simple_guard cs ic inv = true ->
      nth_error cs t = Some c ->
      find_flag_spec (cx_args c) tok = None ->
      find (is_inverse_of tok) (cx_args c) = None ->
      is_ctx_name cs tok = false ->
      exists res,
        parser_parse cs (Some ic) false (tok :: spell cs inv) = Ok res /\
        parser_parse cs (Some ic) false
          (spell cs calls1 ++ (asn :: flat_map (spell_item c) items1)
           ++ tok :: flat_map (spell_item c) items2 ++ spell cs calls2) = Ok res /\
        map obs_of_ctx (tl (pr_ctxs res)) = expected cs inv.
Proof. exact core_flag_placement_equiv. Qed.

(** ... and what that common result is: the option set, nothing else touched. *)
Theorem C18_core_flag_inside_task_partial :
  forall (cs : list ctxspec) (ic : ctxspec) (tok : string) (i : nat) (r : rarg),
    clean_flag tok = true ->
    find_flag (rc_args (init_ctx ic)) tok = Some i ->
    nth_error (rc_args (init_ctx ic)) i = Some r ->
    a_kind (r_spec r) = KBool -> a_incrementable (r_spec r) = false ->
    String.eqb (arg_name (r_spec r)) "help" = false ->
    forall calls1 t asn items1 items2 calls2 c,
      let inv := calls1 ++ mkCall t asn (items1 ++ items2) :: calls2 in
      simple_guard cs ic inv = true ->
      nth_error cs t = Some c ->
      find_flag_spec (cx_args c) tok = None ->
      find (is_inverse_of tok) (cx_args c) = None ->
      is_ctx_name cs tok = false ->
      exists res,
        parser_parse cs (Some ic) false
          (spell cs calls1 ++ (asn :: flat_map (spell_item c) items1)
           ++ tok :: flat_map (spell_item c) items2 ++ spell cs calls2) = Ok res /\
        pr_ctxs res = set_core (init_ctx ic) i r :: map (final_ctx cs) inv /\
        map obs_of_ctx (tl (pr_ctxs res)) = expected cs inv /\
        pr_unparsed res = [] /\ pr_remainder res = "".
Proof. exact core_flag_placed. Qed.

(** The same through BOTH passes of Program (parse_core_args with
    ignore_unknown, parse_tasks with the core context as initial context,
    _update_core_context): the flagship placement statement for this fragment.
    [prog_obs] observes Program.args values, the task calls, core.unparsed and
    core.remainder.  Whether the boolean core option is written before the first
    task (consumed by the core pass) or after any complete item of any call
    (handed to the task pass, recognised there, copied back), the core values
    and the task calls are the same. *)
Theorem C18_program_placement_equiv_partial :
  forall (cs : list ctxspec) (ic : ctxspec) (tok : string) (i : nat) (r : rarg),
    clean_flag tok = true ->
    find_flag (rc_args (init_ctx ic)) tok = Some i ->
    nth_error (rc_args (init_ctx ic)) i = Some r ->
    a_kind (r_spec r) = KBool -> a_incrementable (r_spec r) = false ->
    String.eqb (arg_name (r_spec r)) "help" = false ->
    forall calls1 t asn items1 items2 calls2 c,
      let inv := calls1 ++ mkCall t asn (items1 ++ items2) :: calls2 in
      simple_guard cs ic inv = true ->
      nth_error cs t = Some c ->
      find_flag_spec (cx_args c) tok = None ->
      find (is_inverse_of tok) (cx_args c) = None ->
      is_ctx_name cs tok = false ->
      exists gf gp,
        prog_obs ic cs (tok :: spell cs inv) = Ok gf /\
        prog_obs ic cs (spell cs calls1 ++ (asn :: flat_map (spell_item c) items1)
                        ++ tok :: flat_map (spell_item c) items2 ++ spell cs calls2) = Ok gp /\
        g_core gf = g_core gp /\ g_tasks gf = g_tasks gp /\ g_tasks gp = expected cs inv /\
        g_remainder gf = g_remainder gp.
Proof. exact program_placement_equiv. Qed.

(** Placement equivalence for WHOLE CORE PREFIXES, value-taking options
    included -- the widest proved form.  A list [os] of core options, each
    ([copt_ok], a boolean guard evaluated against the state of the initial
    context left by the options before it):
      - an exact flag spelling ([clean_flag]) that resolves to the argument it
        names, not --help;
      - CBare: a boolean non-counter option;  CNext "--opt value" / CEq
        "--opt=value" / CGlued "-ovalue" (short flag, non-empty value without
        "="): a value-taking, non-list option not given before, value not
        starting with "-", an integer text for int options, and for an
        optional-value option not a task name;
    moved together -- in the very same spellings, glued included (repair
    dd95c66) -- to after ANY complete item of ANY call of a simple invocation,
    provided the task there does not shadow any of them and none is a task name
    ([copt_free]).  Guard of the boolean form: placement after a complete item,
    no pending value, no missing positional (simple fragment: tasks without
    required positionals) -- exactly the complement of F-C18b/c on this
    fragment.
    Task-parsing pass: literally the same result. *)
Theorem C18_prefix_placement_equiv_partial :
  forall cs ic os calls1 t asn items1 items2 calls2 c,
    let inv := calls1 ++ mkCall t asn (items1 ++ items2) :: calls2 in
    simple_guard cs ic inv = true ->
    nth_error cs t = Some c ->
    forallb (copt_free cs c) os = true ->
    copts_ok cs (rc_args (init_ctx ic)) os = true ->
    exists res,
      parser_parse cs (Some ic) false (flat_map spell_copt os ++ spell cs inv) = Ok res /\
      parser_parse cs (Some ic) false
        (spell cs calls1 ++ (asn :: flat_map (spell_item c) items1)
         ++ flat_map spell_copt os ++ flat_map (spell_item c) items2 ++ spell cs calls2)
        = Ok res /\
      map obs_of_ctx (tl (pr_ctxs res)) = expected cs inv.
Proof. exact core_prefix_placement_equiv. Qed.

(** ... and through both passes of Program and _update_core_context: same
    Program.args values, same task calls, same remainder. *)
Theorem C18_program_prefix_placement_equiv_partial :
  forall cs ic os calls1 t asn items1 items2 calls2 c,
    let inv := calls1 ++ mkCall t asn (items1 ++ items2) :: calls2 in
    simple_guard cs ic inv = true ->
    nth_error cs t = Some c ->
    forallb (copt_free cs c) os = true ->
    copts_ok cs (rc_args (init_ctx ic)) os = true ->
    exists gf gp,
      prog_obs ic cs (flat_map spell_copt os ++ spell cs inv) = Ok gf /\
      prog_obs ic cs (spell cs calls1 ++ (asn :: flat_map (spell_item c) items1)
                      ++ flat_map spell_copt os
                      ++ flat_map (spell_item c) items2 ++ spell cs calls2) = Ok gp /\
      g_core gf = g_core gp /\ g_tasks gf = g_tasks gp /\ g_tasks gp = expected cs inv /\
      g_remainder gf = g_remainder gp.
Proof. exact program_prefix_placement_equiv. Qed.

(** The same over the WIDE task fragment (Proofs/C18_wide.v): the invocation may
    use everything [C01_spell_roundtrip_partial_widest2] covers -- positionals
    by position, counters repeated or stacked, clusters, glued values,
    optional-value flags with their value or bare, dash-leading values.  The
    core prefix [os] (same admissible options, same spellings on both sides) is
    moved from the front to after the items [items1] of ANY call, where
    [placement_ok c items1]: no required positional of the task is still missing
    there and the last item is not a bare optional-value flag -- exactly the
    complement of F-C18b and F-C18c on this fragment.  Task-parsing pass:
    literally the same parse result. *)
Theorem C18_prefix_placement_equiv_wide_partial :
  forall cs ic os calls1 t asn items1 items2 calls2 c,
    let inv := calls1 ++ mkCall t asn (items1 ++ items2) :: calls2 in
    C01_widest2.guard_wide2 cs ic inv = true ->
    nth_error cs t = Some c ->
    C18_wide.placement_ok c items1 = true ->
    forallb (copt_free cs c) os = true ->
    copts_ok cs (rc_args (init_ctx ic)) os = true ->
    exists res,
      parser_parse cs (Some ic) false (flat_map spell_copt os ++ spell cs inv) = Ok res /\
      parser_parse cs (Some ic) false
        (spell cs calls1 ++ (asn :: flat_map (spell_item c) items1)
         ++ flat_map spell_copt os ++ flat_map (spell_item c) items2 ++ spell cs calls2)
        = Ok res /\
      map obs_of_ctx (tl (pr_ctxs res)) = expected cs inv.
Proof. exact C18_wide.wide_prefix_placement_equiv_closed. Qed.

(** ... and through both passes of Program and _update_core_context. *)
Theorem C18_program_prefix_placement_equiv_wide_partial :
  forall cs ic os calls1 t asn items1 items2 calls2 c,
    let inv := calls1 ++ mkCall t asn (items1 ++ items2) :: calls2 in
    C01_widest2.guard_wide2 cs ic inv = true ->
    nth_error cs t = Some c ->
    C18_wide.placement_ok c items1 = true ->
    forallb (copt_free cs c) os = true ->
    copts_ok cs (rc_args (init_ctx ic)) os = true ->
    exists gf gp,
      prog_obs ic cs (flat_map spell_copt os ++ spell cs inv) = Ok gf /\
      prog_obs ic cs (spell cs calls1 ++ (asn :: flat_map (spell_item c) items1)
                      ++ flat_map spell_copt os
                      ++ flat_map (spell_item c) items2 ++ spell cs calls2) = Ok gp /\
      g_core gf = g_core gp /\ g_tasks gf = g_tasks gp /\ g_tasks gp = expected cs inv /\
      g_remainder gf = g_remainder gp.
Proof. exact C18_wide.program_wide_placement_equiv. Qed.

(** Non-vacuity: "-e -T5 --config=x.yml" placed inside the second call of
    "test -e=--all --fast build thing --log --no-clean | --out-dir -x -vvj 8 b other -l"
    (after a bare optional-value flag that was completed by --no-clean). *)
Example C18_wide_placement_inhabited :
  let cs := [C01_wide_final.ex_build; C01_wide_final.ex_test] in
  let calls1 := [mkCall 1 "test" [One (mkOcc 0 1 FEq (VS "--all")); One (mkOcc 1 0 FBare (VB true))]] in
  let items1 := [One (mkOcc 0 0 FPos (VS "thing")); One (mkOcc 4 0 FBare VT);
                 One (mkOcc 3 0 FInv (VB false))] in
  let items2 := [One (mkOcc 2 0 FNext (VS "-x"));
                 Cluster [mkOcc 1 1 FStack (VN 2); mkOcc 5 1 FNext (VS "8")]] in
  let calls2 := [mkCall 0 "b" [One (mkOcc 0 0 FPos (VS "other")); One (mkOcc 4 1 FBare VT)]] in
  let inv := calls1 ++ mkCall 0 "build" (items1 ++ items2) :: calls2 in
  C01_widest2.guard_wide2 cs core_ctx inv = true /\
  C18_wide.placement_ok C01_wide_final.ex_build items1 = true /\
  forallb (copt_free cs C01_wide_final.ex_build) C18_wide.ex_os = true /\
  copts_ok cs (rc_args (init_ctx core_ctx)) C18_wide.ex_os = true /\
  spell cs calls1 ++ ("build" :: flat_map (spell_item C01_wide_final.ex_build) items1)
    ++ flat_map spell_copt C18_wide.ex_os ++ flat_map (spell_item C01_wide_final.ex_build) items2
    ++ spell cs calls2
  = ["test"; "-e=--all"; "--fast"; "build"; "thing"; "--log"; "--no-clean";
     "-e"; "-T5"; "--config=x.yml"; "--out-dir"; "-x"; "-vvj"; "8"; "b"; "other"; "-l"] /\
  exists gp,
    prog_obs core_ctx cs
      ["test"; "-e=--all"; "--fast"; "build"; "thing"; "--log"; "--no-clean";
       "-e"; "-T5"; "--config=x.yml"; "--out-dir"; "-x"; "-vvj"; "8"; "b"; "other"; "-l"] = Ok gp /\
    kw_get "echo" (g_core gp) = Some (ABool true) /\
    kw_get "command-timeout" (g_core gp) = Some (AInt 5) /\
    kw_get "config" (g_core gp) = Some (AStr "x.yml") /\
    g_tasks gp = expected cs inv.
Proof. exact C18_wide.wide_placement_example. Qed.

(** The shadowing clause -- "unless that task declares a flag of the same name
    (which then receives it)" -- proved over the wide fragment, through both
    passes of Program: [guard_wide2] does NOT ask the tasks' flags to differ
    from the core flags.  Whatever flags the invoked tasks share with the
    initial context (even with options of the prefix [os] itself), a token
    spelled inside a task's argument list as one of that task's flags is
    received by the task -- every task gets exactly its [expected] arguments --
    and the core values are a function of the prefix [os] alone (for [os] = []:
    the defaults, i.e. those of the command line without the option).  Outside:
    the forms outside [C01_spell_roundtrip_partial_widest2], and the explicit
    don't-care region [glued_cluster_reading] of Spec/C18Spec.v. *)
Theorem C18_shadowing_receives :
  forall cs ic os inv,
    C01_widest2.guard_wide2 cs ic inv = true ->
    copts_ok cs (rc_args (init_ctx ic)) os = true ->
    exists g, prog_obs ic cs (flat_map spell_copt os ++ spell cs inv) = Ok g /\
              g_core g = core_values (apply_copts (rc_args (init_ctx ic)) os) /\
              g_tasks g = expected cs inv /\
              g_unparsed g = spell cs inv /\ g_remainder g = "".
Proof. exact C18_wide.program_wide_front. Qed.

(** Non-vacuity: task "test" declares -e (exclude, a list) and -f (fast); the
    real core context declares -e (echo) and -f (config).  In
    "-e test -e a -f" the first -e is the core option, the other two tokens
    are received by the task. *)
Example C18_shadowing_inhabited :
  let cs := [C01_wide_final.ex_build; C01_wide_final.ex_test] in
  let inv := [mkCall 1 "test" [One (mkOcc 0 1 FNext (VS "a")); One (mkOcc 1 1 FBare (VB true))]] in
  C01_widest2.guard_wide2 cs core_ctx inv = true /\
  spell cs inv = ["test"; "-e"; "a"; "-f"] /\
  (exists i r, find_flag (rc_args (init_ctx core_ctx)) "-e" = Some i /\
               nth_error (rc_args (init_ctx core_ctx)) i = Some r /\ arg_name (r_spec r) = "echo") /\
  (exists i r, find_flag (rc_args (init_ctx core_ctx)) "-f" = Some i /\
               nth_error (rc_args (init_ctx core_ctx)) i = Some r /\ arg_name (r_spec r) = "config") /\
  exists g, prog_obs core_ctx cs ["-e"; "test"; "-e"; "a"; "-f"] = Ok g /\
            kw_get "echo" (g_core g) = Some (ABool true) /\
            kw_get "config" (g_core g) = Some ANone /\
            g_tasks g = [(Some "test", [("exclude", AList ["a"]); ("fast", ABool true)])].
Proof. exact C18_wide.shadowing_example. Qed.

(** C18 x C15 (Model/ProgramModel.v, Program.update_config): the core values
    determine the *overrides* configuration level and the runtime configuration
    file; hence a core prefix placed anywhere admissible yields the SAME
    overrides tree, the same runtime path and the same task calls.
    [coreargs_of] reads Program.args as update_config does; [pw] is what
    getpass() would return (an input of ProgramModel, not a parse result). *)
Theorem C18_placement_same_overrides_partial :
  forall cs ic os calls1 t asn items1 items2 calls2 c pw,
    let inv := calls1 ++ mkCall t asn (items1 ++ items2) :: calls2 in
    simple_guard cs ic inv = true ->
    nth_error cs t = Some c ->
    forallb (copt_free cs c) os = true ->
    copts_ok cs (rc_args (init_ctx ic)) os = true ->
    exists gf gp,
      prog_obs ic cs (flat_map spell_copt os ++ spell cs inv) = Ok gf /\
      prog_obs ic cs (spell cs calls1 ++ (asn :: flat_map (spell_item c) items1)
                      ++ flat_map spell_copt os
                      ++ flat_map (spell_item c) items2 ++ spell cs calls2) = Ok gp /\
      overrides_from gf pw = overrides_from gp pw /\
      ProgramModel.runtime_path_of (coreargs_of (g_core gf) pw) None
        = ProgramModel.runtime_path_of (coreargs_of (g_core gp) pw) None /\
      g_tasks gf = g_tasks gp.
Proof. exact prefix_placement_same_overrides. Qed.

Example C18_overrides_example :
  exists gp,
    prog_obs core_ctx ex_cs ["b"; "-i"; "a"; "-e"; "-T"; "5"; "--clean"; "deploy"; "-t=prod"] = Ok gp /\
    overrides_from gp None =
      Node [("run", Node [("echo", Leaf (VBool true))]); ("tasks", Node []); ("sudo", Node []);
            ("timeouts", Node [("command", Leaf (VInt 5))])].
Proof. exact overrides_example. Qed.

(** [C18_core_prefix]: a prefix made only of admissible core option spellings is
    consumed entirely by the core pass; everything from the first plain word on
    is handed to the task pass. *)
Theorem C18_core_prefix_partial : forall ic cs os t rest,
  has_missing (init_ctx ic) = false ->
  copts_ok cs (rc_args (init_ctx ic)) os = true ->
  starts_with "-" t = false ->
  Forall (fun x => x <> "--") (t :: rest) ->
  parser_parse [] (Some ic) true (flat_map spell_copt os ++ t :: rest)
  = Ok (mkRes [with_args (init_ctx ic) (apply_copts (rc_args (init_ctx ic)) os)] (t :: rest) "").
Proof. exact core_pass_prefix. Qed.

(** Non-vacuity: "-e --config=x.yml -T5 -D 2" (boolean, "=", glued, spaced) of
    the real core context, in front vs. in the middle of the first call (same
    spellings, -T5 included). *)
Example C18_prefix_hypotheses_inhabited :
  let os := [mkCopt "-e" 5 CBare ""; mkCopt "--config" 2 CEq "x.yml";
             mkCopt "-T" 0 CGlued "5"; mkCopt "-D" 9 CNext "2"] in
  copts_ok ex_cs (rc_args (init_ctx core_ctx)) os = true /\
  flat_map spell_copt os = ["-e"; "--config=x.yml"; "-T5"; "-D"; "2"] /\
  exists gf gp,
    prog_obs core_ctx ex_cs ["-e"; "--config=x.yml"; "-T5"; "-D"; "2"; "b"; "-i"; "a"; "--clean"; "deploy"; "-t=prod"] = Ok gf /\
    prog_obs core_ctx ex_cs ["b"; "-i"; "a"; "-e"; "--config=x.yml"; "-T5"; "-D"; "2"; "--clean"; "deploy"; "-t=prod"] = Ok gp /\
    g_core gf = g_core gp /\ g_tasks gf = g_tasks gp /\
    kw_get "command-timeout" (g_core gp) = Some (AInt 5) /\ kw_get "config" (g_core gp) = Some (AStr "x.yml").
Proof.
  cbv zeta. split; [vm_compute; reflexivity|]. split; [reflexivity|].
  eexists. eexists. split; [vm_compute; reflexivity|]. split; [vm_compute; reflexivity|].
  repeat split; vm_compute; reflexivity.
Qed.

(** ... the core pass hands a command line that starts with a task name to the
    task pass untouched ([C18_core_prefix] for the empty prefix) ... *)
Theorem C18_core_pass_consumes_nothing_partial : forall ic t rest,
  has_missing (init_ctx ic) = false -> starts_with "-" t = false ->
  Forall (fun x => x <> "--") (t :: rest) ->
  parser_parse [] (Some ic) true (t :: rest) = Ok (mkRes [init_ctx ic] (t :: rest) "").
Proof. exact core_pass_plain. Qed.

(** ... and consumes exactly a leading boolean core flag. *)
Theorem C18_core_pass_consumes_flag_partial : forall ic tok i r t rest,
  has_missing (init_ctx ic) = false ->
  clean_flag tok = true ->
  find_flag (rc_args (init_ctx ic)) tok = Some i -> nth_error (rc_args (init_ctx ic)) i = Some r ->
  a_kind (r_spec r) = KBool -> a_incrementable (r_spec r) = false ->
  starts_with "-" t = false ->
  Forall (fun x => x <> "--") (t :: rest) ->
  parser_parse [] (Some ic) true (tok :: t :: rest)
  = Ok (mkRes [set_core (init_ctx ic) i r] (t :: rest) "").
Proof. exact core_pass_flag. Qed.

(** Non-vacuity: "-e" (echo) of the real core context, placed in the middle of
    the second call of a three-call chain. *)
Example C18_placement_hypotheses_inhabited :
  exists res,
    parser_parse ex_cs (Some core_ctx) false
      ["-e"; "b"; "-i"; "a"; "--clean"; "deploy"; "-t=prod"; "build"] = Ok res /\
    parser_parse ex_cs (Some core_ctx) false
      ["b"; "-i"; "a"; "-e"; "--clean"; "deploy"; "-t=prod"; "build"] = Ok res.
Proof.
  destruct (core_flag_placement_equiv ex_cs core_ctx "-e" 5
              (init_arg (mkArg ["echo"; "e"] KBool (ABool false) false false false None))
              eq_refl eq_refl eq_refl eq_refl eq_refl eq_refl
              [] 0 "b" [One (mkOcc 4 1 FNext (VS "a"))] [One (mkOcc 2 0 FBare (VB true))]
              [mkCall 1 "deploy" [One (mkOcc 0 1 FEq (VS "prod"))]; mkCall 0 "build" []]
              (mkCtx (Some "build") ["b"]
                 [mkArg ["name"; "n"] KStr (AStr "x") false false false None;
                  mkArg ["jobs"; "j"] KInt (AInt 1%Z) false false false None;
                  mkArg ["clean"; "c"] KBool (ABool false) false false false None;
                  mkArg ["color"] KBool (ABool true) false false false None;
                  mkArg ["inc-dir"; "i"] KList (AList []) false false false (Some "inc_dir")])
              eq_refl eq_refl eq_refl eq_refl eq_refl) as [res [P1 [P2 _]]].
  exists res. split; [exact P1 | exact P2].
Qed.

(** A TEST, not the property: all 440 combinations of (core option except
    --help) x (long/short; spaced, "=", glued) x (8 boundaries of a fixed
    two-call invocation) satisfy the complete [spec_ok] on the model, except
    inside the two catalogued regions (before a pending positional; after a
    value-less optional-value flag) and the spec's explicit don't-care region
    [glued_cluster_reading] (Spec/C18Spec.v). *)
Theorem C18_placement_bounded_440 :
  forallb sweep18_ok sweep_cases = true /\ List.length sweep_cases = 440.
Proof. exact (conj placement_sweep placement_sweep_size). Qed.

(** Non-vacuity of the step theorem's hypotheses: after [t --name x] the
    machine is quiet, and "-e" satisfies every premise. *)
Example C18_step_hypotheses_inhabited :
  exists m c ic i r,
    loop (mkP sweep_cs (Some core_ctx) false) 10
         match new_machine (mkP sweep_cs (Some core_ctx) false) with Ok m0 => m0 | Err _ => mkM [] false None [] None false SEnd [] end
         ["t"; "--name"; "x"] = Some (Ok m) /\
    m_st m = SContext /\ m_cur m = Some 1 /\ get_ctx m 1 = Some c /\ get_ctx m 0 = Some ic /\
    quiet m = true /\ has_missing c = false /\
    ctx_has_flag (Some c) "-e" = false /\ ctx_has_inverse (Some c) "-e" = false /\
    find_flag (rc_args ic) "-e" = Some i /\ nth_error (rc_args ic) i = Some r /\
    a_kind (r_spec r) = KBool.
Proof. do 5 eexists. repeat split; vm_compute; reflexivity. Qed.
