From InvokeVerif Require Import Corr.C14Corr.
