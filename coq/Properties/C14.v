(** C14 -- a timed-out command is killed and reported promptly; a timely one is
    left alone.  Statements only; proofs in Proofs/C14_sm.v and
    Proofs/RunnerSM_sweep.v, on the RunnerSM model (event scripts universally
    quantified). *)
From InvokeVerif Require Import Model.RunnerSM Spec.C08Spec Spec.C14Spec Corr.RunnerCorr Corr.C14Corr.
From InvokeVerif Require Import Proofs.RunnerSM_facts Proofs.C08_sm Proofs.C14_sm Proofs.RunnerSM_sweep Proofs.C14_flagship.
From InvokeVerif Require Import Proofs.C14_pending.

(** A timeout is in effect and expires while the command is still running (no
    worker is made to fail, no interrupt, readers get EOF): it is killed and
    CommandTimedOut is the outcome -- whatever [c_warn c] is. *)
Theorem C14_timeout_kills_and_reports :
  forall c script,
    start_raises c = false -> c_timeout c = true -> fair c = true ->
    has_exc script = false -> has_kbd script = false -> first_of script = ExpiredWhileRunning ->
    s_pc (fst (run_sm c script)) = PDone OTimedOut /\ 1 <= n_kills (snd (run_sm c script)).
Proof. exact timeout_kills_and_reports. Qed.

(** "promptly" is FALSE when a descendant keeps a pipe open (F-C14b): killed, never reported *)
Theorem C14_prompt_refuted :
  exists c script, start_raises c = false /\ c_timeout c = true /\ first_of script = ExpiredWhileRunning /\
    n_kills (snd (run_sm c script)) = 1 /\ s_pc (fst (run_sm c script)) = PHang.
Proof. exact timeout_prompt_refuted. Qed.

(** The command finishes first: normal outcome, nothing killed, timer disarmed.
    FALSE at full strength (F-C14a): *)
Theorem C14_timely_untouched_refuted :
  exists c script code,
    start_raises c = false /\ fair c = true /\ has_exc script = false /\ has_kbd script = false /\
    first_of script = FinishedFirst /\ exit_code script = Some code /\
    s_pc (fst (run_sm c script)) = PDone OTimedOut /\ n_kills_after_exit (snd (run_sm c script)) = 1.
Proof. exact timely_untouched_refuted. Qed.

(** ... true when the timer does not expire before the outcome is settled
    (missing: an expiry between the exit and the [timed_out] check) *)
Theorem C14_timely_untouched_partial :
  forall c script code,
    start_raises c = false -> fair c = true ->
    has_exc script = false -> has_kbd script = false -> no_timer script = true ->
    exit_code script = Some code ->
    s_pc (fst (run_sm c script)) = PDone (normal_outcome c code) /\
    n_kills (snd (run_sm c script)) = 0 /\ s_timer (fst (run_sm c script)) <> TArmed.
Proof. exact timely_untouched_partial. Qed.

(** Tie to the source text: [Runner.timed_out] is "a timer exists and its thread
    is no longer alive" -- what [RunnerSM.decide] tests ([c_timeout] and the timer
    not [TArmed]), whenever the expiry happened (F-C14a); and the tail of
    [_finish] tests it after the thread/watcher errors and before the exit code. *)
From InvokeVerif Require Generated.Tables.
Theorem C14_timed_out_matches_source :
  match Generated.Tables.timed_out_src with
  | Some e => e = "bool(self._timer and (not self._timer.is_alive()))"%string
  | None => True
  end /\
  match Generated.Tables.finish_tail_src with
  | Some l => nth_error l 4 = Some ("timeout is not None and self.timed_out", "CommandTimedOut")%string /\
              nth_error l 0 = Some ("thread_exceptions", "ThreadException")%string /\
              nth_error l 2 = Some ("watcher_errors", "Failure")%string /\
              nth_error l 5 = Some ("not (result or self.opts['warn'])", "UnexpectedExit")%string
  | None => True
  end.
Proof. vm_compute. repeat split; first [reflexivity | exact I]. Qed.

(** Timeout source through the command line (Program.update_config feeding the run
    options): the keyword if given, else -T (a -T 0 is dropped), else the
    configuration below the overrides level ... *)
From InvokeVerif Require Model.RunTypes Model.ProgramModel.
Theorem C14_timeout_source_program :
  forall a lower k r kw cli lw,
    ProgramModel.effective_opts_cli a lower k = Ok r ->
    RunTypes.kw_timeout k = option_map OIntN kw ->
    ProgramTypes.a_timeout a = option_map Z.of_nat cli ->
    RunTypes.cf_timeout lower = oval_of lw ->
    RunTypes.r_timeout r = oval_of (program_timeout kw cli lw).
Proof. exact program_timeout_is_model. Qed.

(** ... in particular a timeout that comes ONLY from configuration (project file,
    collection configuration, environment) is in effect for a task run through the
    CLI without -T and without a timeout= keyword. *)
Theorem C14_timeout_config_only_via_cli :
  forall a lower k r,
    ProgramTypes.a_timeout a = None -> RunTypes.kw_timeout k = None ->
    ProgramModel.effective_opts_cli a lower k = Ok r ->
    RunTypes.r_timeout r = RunTypes.cf_timeout lower.
Proof. exact config_only_via_cli. Qed.

(** Timeout source: the run() keyword if given, else the configured value
    (definitional: [effective_timeout] is that rule; the tie to the code is the
    observed Timer interval in the correspondence) *)
Theorem C14_timeout_source :
  forall kwarg config, timeout_ok kwarg config (effective_timeout kwarg config) = true.
Proof. exact timeout_source. Qed.

(** No timeout in effect: nothing is ever killed and no outcome is a timeout --
    every configuration, every script (worker deaths and interrupts included). *)
Theorem C14_no_timeout_untouched :
  forall c script,
    start_raises c = false -> c_timeout c = false ->
    n_kills (snd (run_sm c script)) = 0 /\
    (forall o, s_pc (fst (run_sm c script)) = PDone o -> o <> OTimedOut).
Proof. exact no_timeout_untouched. Qed.

(** "carrying the output captured so far": the reads captured for a stream are
    exactly the reads delivered to it before its EOF. *)
Theorem C14_captured_reads :
  forall c script w,
    start_raises c = false -> has_exc script = false -> has_kbd script = false -> w <> WIn ->
    worker_exists c w = true ->
    cntw w (snd (run_sm c script)) = count_chunks w script.
Proof. exact captured_reads. Qed.

(** The command finishes first and the timer does not fire during the run, pipes
    held open or not: nothing killed; the normal outcome with the timer
    disarmed -- or no outcome at all, and then only because a pipe is held. *)
Theorem C14_timely_general_partial :
  forall c script code,
    start_raises c = false -> has_exc script = false -> has_kbd script = false -> no_timer script = true ->
    exit_code script = Some code ->
    n_kills (snd (run_sm c script)) = 0 /\
    match s_pc (fst (run_sm c script)) with
    | PDone o => o = normal_outcome c code /\ s_timer (fst (run_sm c script)) <> TArmed
    | PHang => c_hold_out c || c_hold_err c = true
    | _ => False
    end.
Proof. exact timely_general. Qed.

(** Flagship: for EVERY configuration and EVERY event script, outside the two
    catalogued defect regions ([guard14]: not (timeout in effect, the command
    finishes first and the timer fires later in the script) F-C14a, not (timeout
    expires while running and a pipe is held open) F-C14b) the model satisfies
    the executable spec. *)
Theorem C14_run_meets_spec_partial :
  forall c script, guard14 c script = true -> C14Spec.spec_ok c script (observe (run_sm c script)) = true.
Proof. exact run_meets_spec14. Qed.

(** The F-C14a region narrowed to where the defect really is: the timer fires
    after the exit and BEFORE the last reader's EOF.  A timer that expires once
    the process has exited and every reader has had its EOF is harmless ... *)
Theorem C14_timer_after_done_harmless :
  forall c pre post,
    start_raises c = false -> has_exc (pre ++ post) = false -> has_kbd (pre ++ post) = false ->
    no_timer pre = true -> done_prefix (c_pty c) false false false (pre ++ post) = Some (pre, post) ->
    exists code, exit_code (pre ++ post) = Some code /\
      s_pc (fst (run_sm c (pre ++ post))) = PDone (normal_outcome c code) /\
      n_kills (snd (run_sm c (pre ++ post))) = 0 /\ s_timer (fst (run_sm c (pre ++ post))) <> TArmed.
Proof. exact timer_after_done_harmless. Qed.

(** ... so the flagship holds under the narrower guard too. *)
Theorem C14_run_meets_spec_narrow_partial :
  forall c script, guard14_narrow c script = true -> C14Spec.spec_ok c script (observe (run_sm c script)) = true.
Proof. exact run_meets_spec14_narrow. Qed.

(** The same flagship statement as a finite sweep (a TEST, not the property): 128
    configurations x 2801 scripts of at most 4 events over a 7-event alphabet;
    outside the two catalogued defect regions the model satisfies the spec
    (including: the timed-out failure carries every read delivered). *)
Theorem C14_run_meets_spec_bounded_4 :
  sweep ok14 (configs true) (scripts_upto alphabet14 4) = true.
Proof. exact sweep14_4. Qed.

(** Input still queued for the command (reads of the stdin worker, [is_input]) never
    changes what run() does: erasing every input event from ANY script, under ANY
    configuration, leaves every observable as it is.  ([kill] signals the process and
    nothing else; the stdin worker goes on forwarding and ends by itself once the wait
    loop has been left.) *)
Theorem C14_pending_input_irrelevant :
  forall c script, observe (run_sm c script) = observe (run_sm c (strip_input script)).
Proof. exact pending_input_irrelevant. Qed.

(** In particular for a timeout that expires while the command is running and any
    amount of input [ins] is pending at that moment: killed, CommandTimedOut, and the
    reads captured, joins, stop and timer state are those of the run without that input. *)
Theorem C14_timeout_with_pending_input :
  forall c pre ins post,
    start_raises c = false -> c_timeout c = true -> fair c = true ->
    has_exc (pre ++ post) = false -> has_kbd (pre ++ post) = false ->
    first_of (pre ++ ETimer :: post) = ExpiredWhileRunning ->
    forallb is_input ins = true ->
    o_outcome (observe (run_sm c (pre ++ ETimer :: ins ++ post))) = Some OTimedOut /\
    1 <= o_kills (observe (run_sm c (pre ++ ETimer :: ins ++ post))) /\
    observe (run_sm c (pre ++ ETimer :: ins ++ post)) = observe (run_sm c (pre ++ ETimer :: post)).
Proof. exact timeout_with_pending_input. Qed.

(** F-C14e.  The stdin worker leaves its loop only by an iteration whose read is not a
    unit of input ([Model.StdinDrainModel], validated against the real [handle_stdin]
    by [Corr.C14Corr.dcorr]), and [_finish] joins it without a timeout: "promptly" has
    no bound that is independent of the input still queued -- for every bound [b] there
    is a finite queue that keeps the worker going for more than [b] iterations (one
    [input_sleep] each) after the command has finished or has been killed. *)
From InvokeVerif Require Import Model.StdinDrainModel Proofs.C14_drain.
Theorem C14_prompt_pending_refuted :
  forall b, exists q,
    all_data q = true /\ b < iterations_after_finish q /\ forwarded_after_finish q = S b.
Proof. exact prompt_pending_refuted. Qed.

(** ... what does hold: a FINITE queue is drained -- exactly one iteration per queued
    unit and one more, every unit forwarded (missing: an input stream that never runs
    dry is not a finite list; the worker, and with it run(), then never ends). *)
Theorem C14_drain_terminates_partial :
  forall q, all_data q = true ->
    iterations_after_finish q = S (List.length q) /\ forwarded_after_finish q = List.length q.
Proof. exact drain_all_data. Qed.

(** the loop is left by the first read that is not a unit of input (not ready / EOF) *)
Theorem C14_drain_stops_at_first_gap :
  forall q r rest, all_data q = true -> is_data r = false ->
    iterations_after_finish (q ++ r :: rest) = S (List.length q).
Proof. exact drain_stops_at_first_gap. Qed.

Example C14_ex_drain :
  all_data [RData; RData; RData] = true /\
  iterations_after_finish [RData; RData; RData] = 4 /\
  iterations_after_finish [RData; RNotReady; RData] = 2 /\
  iterations_after_finish [RNotReady; RData] = 1 /\ closes_after_finish [RData; REmpty] = true.
Proof. vm_compute. auto. Qed.

(** The AGE of the command.  [Runner.wait] ([Model.WaitLoopModel]: one look at the process
    per iteration, [time.sleep(input_sleep)] between two looks; validated against every
    duration the thread calling run() hands to time.sleep, [Corr.C14Corr.corr]) never pauses
    longer than [input_sleep] -- for EVERY input_sleep and EVERY sequence of looks, i.e.
    however long the command has been running (the executable spec [wait_ok] on the model). *)
From InvokeVerif Require Import Model.WaitLoopModel Spec.C14WaitSpec Proofs.C14_wait.
Theorem C14_wait_pauses_at_most_input_sleep :
  forall input_sleep looks, wait_ok input_sleep (wait_loop input_sleep looks) = true.
Proof. exact wait_meets_spec. Qed.

(** ... the loop has no memory: after [n] looks that found the command running it goes on
    exactly like a fresh one (no backoff, no warm-up) *)
Theorem C14_wait_ageless :
  forall input_sleep n looks,
    wait_loop input_sleep (repeat false n ++ looks) = repeat input_sleep n ++ wait_loop input_sleep looks.
Proof. exact wait_loop_ageless. Qed.

(** ... so, in the model's time (pauses exact, a look costs nothing -- the OS may add to
    both; the real latencies are measured by the real-child runs), a command that ends
    at time [t] after the loop was entered -- by itself or by the timeout's kill -- is
    noticed at or after [t] and LESS than one [input_sleep] later, whatever [t] is. *)
Theorem C14_exit_noticed_within_input_sleep :
  forall input_sleep t, (0 < input_sleep)%N ->
    noticed_promptly input_sleep t (noticed_at input_sleep t) = true.
Proof. exact exit_noticed_promptly. Qed.

Example C14_ex_wait :
  wait_loop 10000 [false; false; false; true; false] = [10000; 10000; 10000]%N /\
  wait_sleeps 500 4 = [500; 500; 500; 500]%N /\
  wait_ok 10000 [10000; 10000; 20000]%N = false /\
  noticed_at 10000 4200000 = 4200000%N /\ noticed_at 10000 4200001 = 4210000%N /\
  noticed_promptly 10000 4200001 5540000 = false.
Proof. vm_compute. repeat split; reflexivity. Qed.

(** Non-vacuity *)
Example C14_ex_pending_input :
  let c := mkCfg false true true false false false false false in
  let script := [EChunk WOut; ETimer; EChunk WIn; EChunk WIn; EChunk WOut; EEof WOut; EEof WErr] in
  forallb is_input [EChunk WIn; EChunk WIn] = true /\
  strip_input script = [EChunk WOut; ETimer; EChunk WOut; EEof WOut; EEof WErr] /\
  first_of script = ExpiredWhileRunning /\
  observe (run_sm c script) = mkSmObs (Some OTimedOut) 1 0 0 1 true [] false true true 2 0
                                       [(WOut, false); (WIn, false); (WErr, false)].
Proof. vm_compute. auto. Qed.

Example C14_ex_expired :
  let c := mkCfg false false true true false false false false in
  let script := [EChunk WOut; ETimer; EChunk WOut; EEof WOut; EEof WErr] in
  first_of script = ExpiredWhileRunning /\ has_exc script = false /\ has_kbd script = false /\
  observe (run_sm c script) = mkSmObs (Some OTimedOut) 1 0 0 1 true [] false true true 2 0
                                       [(WOut, false); (WErr, false)].
Proof. vm_compute. auto. Qed.

Example C14_ex_timely :
  let c := mkCfg false false true false false false false false in
  let script := [EChunk WOut; EExit 3%Z; EEof WOut; EEof WErr] in
  no_timer script = true /\ exit_code script = Some 3%Z /\
  observe (run_sm c script) = mkSmObs (Some OUnexpectedExit) 0 0 0 1 true [] false false true 1 0
                                       [(WOut, false); (WErr, false)].
Proof. vm_compute. auto. Qed.
