(** C01 -- every spelling of an intended invocation parses to exactly that
    invocation.  Statements only; [spell], [expected], [admissible] are in
    Spec/C01Spec.v, proofs in Proofs/C01_*.v. *)
From InvokeVerif Require Import Corr.C01Corr Proofs.C01_witness Proofs.C01_steps Proofs.C01_occ
     Proofs.C01_roundtrip Proofs.C01_final Model.SigToCtx Proofs.C01_sig_bridge.
From InvokeVerif Require Proofs.C01_wide_final Proofs.C01_wide_final2 Proofs.C01_inv Proofs.C01_sig_bridge_w
     Proofs.C01_widest2.

(** The round trip, proved part.  [simple_guard cs ic inv]: the parser is
    well-formed ([parser_ok]: named tasks, distinct names/aliases), the initial
    context needs no positional, there is at least one call, and every call
    - names its task by primary name or alias (a plain word),
    - the task satisfies [ctx_guard]: pairwise distinct, well-formed flag
      spellings, distinct parameter names, no required positional, no non-empty
      list default,
    - every item is one occurrence in one of the forms
        --flag | --no-flag                       (booleans)
        --name value | -n value | --name=value | -n=value
                                                 (non-optional str / int / list arguments,
                                                  lists repeated in any order, single-valued
                                                  arguments given at most once, int values
                                                  [+-]?[0-9]+, values not starting with "-"),
      occurrences in ANY order, any number of calls chained, same task repeated.
    Then the spelled command line parses, with ANY such initial context, to the
    untouched initial context followed by exactly the expected calls: each
    with its primary name, the intended values typed by kind, declared defaults
    for everything else; nothing unparsed, no remainder.
    MISSING for full strength (covered only by the bounded sweep below and by the
    correspondence): glued short values, positionals by position, counters,
    clusters, optional-value flags, dash-leading values; and the two findings. *)
Theorem C01_spell_roundtrip_partial : forall cs ic inv,
  simple_guard cs ic inv = true ->
  exists r,
    parser_parse cs (Some ic) false (spell cs inv) = Ok r /\
    hd_error (pr_ctxs r) = Some (init_ctx ic) /\
    map obs_of_ctx (tl (pr_ctxs r)) = expected cs inv /\
    pr_unparsed r = [] /\ pr_remainder r = "".
Proof. exact spell_roundtrip_simple. Qed.

(** The wider proved fragment (composition of Proofs/C01_generic2.v instantiated
    in Proofs/C01_wide_final.v).  [guard_wide]: tasks MAY have required
    positionals (all must be supplied), counters start from an int/bool default;
    every item is one occurrence in one of the forms
        --flag | --no-flag | --name value | --name=value | -n value | -n=value   (as above)
        -nvalue                        (value glued to a short flag: plain, non-empty, no "=")
        -v -v ... | -vvv               (counters, repeated or stacked)
        value                          (the first still-missing required positional, by position)
        --opt value | --opt=value      (optional-value flag WITH its value: plain, not a task
                                        name, no positional missing, not given before).
    Still MISSING: clusters of short booleans, bare optional-value flags,
    dash-leading values; and the two findings. *)
Theorem C01_spell_roundtrip_partial_wide : forall cs ic inv,
  parser_ok cs = true -> C01_wide_final.guard_wide cs ic inv = true ->
  exists r, parser_parse cs (Some ic) false (spell cs inv) = Ok r /\
            hd_error (pr_ctxs r) = Some (init_ctx ic) /\
            map obs_of_ctx (tl (pr_ctxs r)) = expected cs inv /\
            pr_unparsed r = [] /\ pr_remainder r = "".
Proof. exact C01_wide_final.spell_roundtrip_wide. Qed.

(** Non-vacuity of the wide guard: a two-call chain with an alias, a stacked
    counter, a glued value, an inverse flag, a positional by position, an
    optional-value flag with value, a spaced value and a repeated list flag. *)
Example C01_wide_guard_inhabited :
  parser_ok [C01_wide_final.ex_build; C01_wide_final.ex_test] = true /\
  C01_wide_final.guard_wide [C01_wide_final.ex_build; C01_wide_final.ex_test] core_ctx
                            C01_wide_final.ex_inv = true /\
  spell [C01_wide_final.ex_build; C01_wide_final.ex_test] C01_wide_final.ex_inv =
    ["b"; "-vv"; "-j4"; "--no-clean"; "thing"; "--log=f"; "--out-dir"; "y";
     "test"; "-e"; "a"; "--fast"; "--exclude=b"] /\
  expected [C01_wide_final.ex_build; C01_wide_final.ex_test] C01_wide_final.ex_inv =
    [(Some "build", [("name", AStr "thing"); ("verbose", AInt 2); ("out_dir", AStr "y");
                     ("clean", ABool false); ("log", AStr "f"); ("jobs", AInt 4)]);
     (Some "test", [("exclude", AList ["a"; "b"]); ("fast", ABool true)])].
Proof. exact C01_wide_final.wide_example. Qed.

(** The widest proved fragment: as above plus clusters -- one "-abc" token of
    >= 2 short-named members, each a bare boolean or a stacked counter, the last
    one possibly a non-optional value flag whose value is the next token
    ("-vvj 8").  It strictly extends the previous theorem. *)
Theorem C01_spell_roundtrip_partial_widest : forall cs ic inv,
  parser_ok cs = true -> C01_wide_final2.guard_wide_x cs ic inv = true ->
  exists r, parser_parse cs (Some ic) false (spell cs inv) = Ok r /\
            hd_error (pr_ctxs r) = Some (init_ctx ic) /\
            map obs_of_ctx (tl (pr_ctxs r)) = expected cs inv /\
            pr_unparsed r = [] /\ pr_remainder r = "".
Proof. exact C01_wide_final2.spell_roundtrip_wide_x. Qed.

Example C01_widest_guard_inhabited :
  C01_wide_final2.guard_wide_x [C01_wide_final.ex_build; C01_wide_final.ex_test] core_ctx
                               C01_wide_final2.ex_inv_x = true /\
  spell [C01_wide_final.ex_build; C01_wide_final.ex_test] C01_wide_final2.ex_inv_x =
    ["build"; "thing"; "-vvj"; "8"; "test"; "-fe"; "a"; "--exclude=b"] /\
  expected [C01_wide_final.ex_build; C01_wide_final.ex_test] C01_wide_final2.ex_inv_x =
    [(Some "build", [("name", AStr "thing"); ("verbose", AInt 2); ("out_dir", AStr "x");
                     ("clean", ABool true); ("log", ANone); ("jobs", AInt 8)]);
     (Some "test", [("exclude", AList ["a"; "b"]); ("fast", ABool true)])].
Proof. exact C01_wide_final2.wide_x_example. Qed.

(** The widest proved fragment, second version (Proofs/C01_widest2.v): as above
    plus
      - DASH-LEADING VALUES of non-optional value arguments in all three
        spellings -- "--name VALUE", "--name=VALUE", "-nVALUE" -- for ANY text
        VALUE that is not a flag or inverse flag of the task itself (the
        property's side condition "values not colliding with a flag"), not "--"
        as a token of its own, and for the glued spelling non-empty without "="
        (F-C01b);
      - BARE OPTIONAL-VALUE FLAGS ("--opt" alone means True; no positional still
        missing, not given before), directly followed by an item whose first
        token is an exact flag of the task, a "flag=value" token or an inverse
        flag ([head_own]), or ending the command line in the last call.
    [guard_wide2] additionally asks that no task name or alias starts with "-"
    ([names_plain]; else "--opt --x" could be the documented "value or task?"
    ambiguity error).  The composition threads a machine-state predicate that
    is either quiescent ([inert]) or pending ([Rep]).  It accepts every
    invocation of the previous theorem ([C01_widest2_extends_widest]). *)
Theorem C01_spell_roundtrip_partial_widest2 : forall cs ic inv,
  C01_widest2.guard_wide2 cs ic inv = true ->
  exists r, parser_parse cs (Some ic) false (spell cs inv) = Ok r /\
            hd_error (pr_ctxs r) = Some (init_ctx ic) /\
            map obs_of_ctx (tl (pr_ctxs r)) = expected cs inv /\
            pr_unparsed r = [] /\ pr_remainder r = "".
Proof. exact C01_widest2.spell_roundtrip_widest2_closed. Qed.

Theorem C01_widest2_extends_widest : forall cs ic inv,
  C01_widest2.names_plain cs = true ->
  C01_wide_final2.guard_wide_x cs ic inv = true -> C01_widest2.guard_wide2 cs ic inv = true.
Proof. exact C01_widest2.guard_wide_x_2. Qed.

Example C01_widest2_guard_inhabited :
  C01_widest2.guard_wide2 [C01_wide_final.ex_build; C01_wide_final.ex_test] core_ctx
                          C01_widest2.ex_inv2 = true /\
  spell [C01_wide_final.ex_build; C01_wide_final.ex_test] C01_widest2.ex_inv2 =
    ["test"; "-e=--all"; "--exclude"; "-"; "--fast";
     "build"; "thing"; "--log"; "--no-clean"; "--out-dir"; "-x"; "-vvj"; "8";
     "b"; "other"; "-o-y"; "-l"] /\
  expected [C01_wide_final.ex_build; C01_wide_final.ex_test] C01_widest2.ex_inv2 =
    [(Some "test", [("exclude", AList ["--all"; "-"]); ("fast", ABool true)]);
     (Some "build", [("name", AStr "thing"); ("verbose", AInt 2); ("out_dir", AStr "-x");
                     ("clean", ABool false); ("log", ABool true); ("jobs", AInt 8)]);
     (Some "build", [("name", AStr "other"); ("verbose", AInt 0); ("out_dir", AStr "-y");
                     ("clean", ABool true); ("log", ABool true); ("jobs", AInt 1)])].
Proof. exact C01_widest2.widest2_example. Qed.

(** ... and its per-task guard holds for contexts built from well-formed
    signatures that MAY have required positionals and counters. *)
Theorem C01_wf_ctxs_of_wf_sigs_wide_partial : forall ts,
  forallb C01_sig_bridge_w.task_ok_w ts = true ->
  exists cs, ctxs_of_tasks ts = Ok cs /\
             map cx_name cs = map (fun t => Some (t_name t)) ts /\
             map cx_aliases cs = map t_aliases ts /\
             forallb C01_inv.guard_w cs = true.
Proof. exact C01_sig_bridge_w.wf_ctxs_of_wf_sigs_w. Qed.

(** The same in the flagship shape: on the fragment, the model satisfies the
    executable specification (with the real core context as initial context). *)
Theorem C01_model_satisfies_spec_partial : forall cs inv,
  simple_guard cs core_ctx inv = true -> model_roundtrip cs inv = true.
Proof. exact model_roundtrip_simple. Qed.

(** "No token is attributed to a neighbouring task", one machine step at a
    time: the tokens of one occurrence take the machine from a quiescent state
    [MS i0 done cur ..] to a quiescent state in which only the current context
    changed, by exactly [run_occ]; the initial context [i0] and the finished
    contexts [done] are untouched. *)
Theorem C01_occurrence_frame_partial : forall cs p i0 c given o done cur fl got,
  p_ctxs p = cs ->
  ctx_guard c = true -> occ_simple c given o = true ->
  st_ok c given (rc_args cur) -> inert (MS i0 done cur fl got) ->
  exists fl' got',
    steps p (MS i0 done cur fl got) (spell_occ c o)
            (MS i0 done (with_args cur (run_occ (rc_args cur) o)) fl' got') /\
    inert (MS i0 done (with_args cur (run_occ (rc_args cur) o)) fl' got') /\
    st_ok c (given_after given o) (run_occ (rc_args cur) o).
Proof. exact occ_steps. Qed.

(** The static part of the guard is not vacuous for real signatures: contexts
    built from well-formed task signatures (C09's guard + no required
    positional + plain list defaults) satisfy [ctx_guard]. *)
Theorem C01_wf_ctxs_of_wf_sigs_partial : forall ts,
  forallb task_ok ts = true ->
  exists cs, ctxs_of_tasks ts = Ok cs /\
             map cx_name cs = map (fun t => Some (t_name t)) ts /\
             map cx_aliases cs = map t_aliases ts /\
             forallb ctx_guard cs = true.
Proof. exact wf_ctxs_of_wf_sigs. Qed.

(** Non-vacuity: a three-call chain (alias, 5 parameters of 4 kinds, a value
    equal to a task name, repeated list flag, repeated task) is inside the
    guard, and inside the property's side condition. *)
Example C01_guard_inhabited :
  simple_guard ex_cs core_ctx ex_inv = true /\ admissible ex_cs ex_inv = true /\
  spell ex_cs ex_inv = ["b"; "-i"; "a"; "--clean"; "--jobs=4"; "--inc-dir=b"; "--no-color";
                        "-n"; "deploy"; "deploy"; "-t=prod"; "build"].
Proof. exact example_guard. Qed.

(** The full statement  [C01_spell_roundtrip]:
      forall cs inv, admissible cs inv = true -> model_roundtrip cs inv = true
    is FALSE of the faithful model, three ways (F-C01a, F-C01b, F-C01c below).

    WHAT STILL LIES OUTSIDE the proved fragment ([C01_spell_roundtrip_partial_widest2],
    guard [guard_wide2]) although [admissible] (Spec/C01Spec.v) allows it --
    exactly:
      findings
       1. F-C01a: a task with a NON-EMPTY LIST DEFAULT ([list_default_ok] in [guard_w]);
       2. F-C01b: a glued value "-nVALUE" whose VALUE contains "=";
       2'. F-C01c: a positional parameter WITH A DEFAULT given by position;
      spelling forms not yet proved (the correspondence and the bounded sweep
      cover them; no disagreement known)
       3. optional-value flags (a) with the value GLUED ("-lfile"), (b) of list
          kind (optional + iterable) given with a value, (c) given BARE and
          directly followed by a glued-value token, a stacked counter or a
          cluster ("--log -vv", "--log -j4") -- [admissible] only asks that the
          next token's split head is a flag of the task;
       4. a CLUSTER whose trailing value begins with "-" ("-vj -1"): cluster
          members still take plain values only;
       5. positional arguments declared OPTIONAL given by position;
      side conditions of the guard that [admissible] does not state
       6. every flag spelling of the task is a clean flag and distinct, counters
          start from an int/bool default, positional None-defaults can take a
          value ([guard_w]; implied for contexts built from well-formed
          signatures, [C01_wf_ctxs_of_wf_sigs_wide_partial]; the last one is
          [admissible]'s own [positional_fillable]: a counter declared as a
          required positional can never be supplied -- F-C07e's family); no task name or
          alias starts with "-" ([names_plain]); the initial context has no
          required positional (true of the real core context);
      outside this property
       7. core options interleaved with the task's arguments: C18
          ([C18_prefix_placement_equiv_wide_partial] composes a core prefix with
          this very fragment at every admissible placement; F-C18b/c are the
          known exceptions). *)

(** F-C01a: a list-typed declared default ([x=['p']]) is replaced by [] when the
    flag is not given ("declared defaults for everything not mentioned"). *)
Theorem C01_spell_roundtrip_refuted_list_default :
  exists cs inv,
    admissible cs inv = true /\ model_roundtrip cs inv = false /\
    (exists r, model_parse cs ICore false (spell cs inv) = Ok r /\
               nth_error (o_ctxs r) 1 = Some (Some "t", [("x", AList []); ("n", AStr "d")])) /\
    expected cs inv = [(Some "t", [("x", AList ["p"]); ("n", AStr "d")])].
Proof. exact refuted_list_default. Qed.

(** F-C01b: a value glued to a short flag is torn at an "=" inside it. *)
Theorem C01_spell_roundtrip_refuted_glued_equals :
  exists cs inv,
    admissible cs inv = true /\ model_roundtrip cs inv = false /\
    spell cs inv = ["t"; "-nk=v"] /\
    model_parse cs ICore false (spell cs inv) = Err EParse.
Proof. exact refuted_glued_equals. Qed.

(** F-C01c: a positional parameter that declares a default cannot be given by
    position ("inv t val" for [@task(positional=['name']) def t(c, name='x')]
    is the parse error "No idea what 'val' is!"; "inv t --name val" works):
    only positionals whose value is still None are filled positionally. *)
Theorem C01_spell_roundtrip_refuted_positional_default :
  exists cs inv,
    admissible cs inv = true /\ model_roundtrip cs inv = false /\
    spell cs inv = ["t"; "val"] /\
    expected cs inv = [(Some "t", [("name", AStr "val")])] /\
    model_parse cs ICore false (spell cs inv) = Err EParse /\
    (exists r, model_parse cs ICore false ["t"; "--name"; "val"] = Ok r /\
               nth_error (o_ctxs r) 1 = Some (Some "t", [("name", AStr "val")])).
Proof. exact refuted_positional_default. Qed.

(** A TEST, not the property: all 9576 invocations
      u <name in 6 forms x 4 values (plain, dash-leading, a task name, with "=")>
        [num in 3 forms] [yes: --no-yes | --yes] [v: -vv | -v]   in every order,
      w --lst a -lb --opt
    (9177 of them admissible) round-trip on the model, except glued values
    containing "=" (F-C01b). *)
Theorem C01_roundtrip_bounded_9576 :
  forallb sweep01_ok sweep_invs = true /\
  N.of_nat (List.length sweep_invs) = 9576%N /\
  N.of_nat (List.length (filter (admissible sw_cs) sweep_invs)) = 9177%N.
Proof. exact (conj roundtrip_sweep roundtrip_sweep_counts). Qed.
