(** C01 -- every spelling of an intended invocation parses to exactly that
    invocation.  Statements only; [spell], [expected], [admissible] are in
    Spec/C01Spec.v, proofs in Proofs/C01_*.v. *)
From InvokeVerif Require Import Corr.C01Corr Proofs.C01_witness.

(** The full statement
      forall cs inv, admissible cs inv = true -> model_roundtrip cs inv = true
    is FALSE of the faithful model, two ways. *)

(** F-C01a: a list-typed declared default ([x=['p']]) is replaced by [] when the
    flag is not given ("declared defaults for everything not mentioned"). *)
Theorem C01_spell_roundtrip_refuted_list_default :
  exists cs inv,
    admissible cs inv = true /\ model_roundtrip cs inv = false /\
    (exists r, model_parse cs ICore false (spell cs inv) = Ok r /\
               nth_error (o_ctxs r) 1 = Some (Some "t", [("x", AList []); ("n", AStr "d")])) /\
    expected cs inv = [(Some "t", [("x", AList ["p"]); ("n", AStr "d")])].
Proof. exact refuted_list_default. Qed.

(** F-C01b: a value glued to a short flag is torn at an "=" inside it. *)
Theorem C01_spell_roundtrip_refuted_glued_equals :
  exists cs inv,
    admissible cs inv = true /\ model_roundtrip cs inv = false /\
    spell cs inv = ["t"; "-nk=v"] /\
    model_parse cs ICore false (spell cs inv) = Err EParse.
Proof. exact refuted_glued_equals. Qed.

(** A TEST, not the property: all 9576 invocations
      u <name in 6 forms x 4 values (plain, dash-leading, a task name, with "=")>
        [num in 3 forms] [yes: --no-yes | --yes] [v: -vv | -v]   in every order,
      w --lst a -lb --opt
    (9177 of them admissible) round-trip on the model, except glued values
    containing "=" (F-C01b). *)
Theorem C01_roundtrip_bounded_9576 :
  forallb sweep01_ok sweep_invs = true /\
  N.of_nat (List.length sweep_invs) = 9576%N /\
  N.of_nat (List.length (filter (admissible sw_cs) sweep_invs)) = 9177%N.
Proof. exact (conj roundtrip_sweep roundtrip_sweep_counts). Qed.
