(** C20 -- statements only (stub; extended below). *)
From InvokeVerif Require Import Model.LoaderModel Spec.C20Spec.
