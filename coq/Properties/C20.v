(** C20 -- the nearest enclosing tasks module is the one loaded, with its
    project dir.  Statements only; proofs in Proofs/C20_loader.v.

    Model: Model/LoaderModel.v (FilesystemLoader.find, Loader.load) over the
    abstract file system of Common/FsTypes.v.  [guard_abs]: absolute
    normalised start directory below "/", every ancestor listable,
    os.listdir("") raising FileNotFoundError (OS contract). *)
From InvokeVerif Require Import Model.LoaderModel Spec.C20Spec Proofs.C20_loader.

(** The loaded module is the candidate (module first, else package) of the
    nearest ancestor, start included; otherwise collection-not-found.
    Missing for full strength: a candidate in "/" (F-C20), relative starts (F-C20b). *)
Theorem C20_nearest_partial :
  forall fs cwd name comps,
    guard_abs fs comps name = true -> root_clear fs name = true ->
    load fs cwd name (dir_str comps) = to_loaded (expected fs name comps).
Proof. exact nearest_partial. Qed.

(** Flagship: on that region the model satisfies the executable specification. *)
Theorem C20_spec_partial :
  forall fs cwd name comps,
    guard_abs fs comps name = true -> root_clear fs name = true ->
    spec_ok fs cwd (dir_str comps) name (obs_of (load fs cwd name (dir_str comps))) = true.
Proof. exact spec_partial. Qed.

(** F-C20: tasks.py in "/" is not found from /a. *)
Theorem C20_nearest_refuted :
  guard_abs fs_root ["a"] "tasks" = true /\
  load fs_root "/" "tasks" (dir_str ["a"]) = NotFound /\
  expected fs_root "tasks" ["a"] = Some ("/tasks.py", "/") /\
  spec_ok fs_root "/" (dir_str ["a"]) "tasks" (obs_of (load fs_root "/" "tasks" (dir_str ["a"]))) = false.
Proof. exact root_refutes. Qed.

(** F-C20b: relative start "d1" from cwd /w holding tasks.py: not found. *)
Theorem C20_relative_start_refuted :
  load fs_rel "/w" "tasks" "d1" = NotFound /\
  expected fs_rel "tasks" (abs_comps "/w" "d1") = Some ("/w/tasks.py", "/w") /\
  spec_ok fs_rel "/w" "d1" "tasks" (obs_of (load fs_rel "/w" "tasks" "d1")) = false.
Proof. exact relative_refutes. Qed.

(** Never a farther candidate: whatever is loaded is the candidate of an
    ancestor below the root and no nearer ancestor offers one (full strength on
    [guard_abs], root candidate or not). *)
Theorem C20_never_farther :
  forall fs cwd name comps f p,
    guard_abs fs comps name = true ->
    load fs cwd name (dir_str comps) = Loaded f p ->
    exists j, 1 <= j <= List.length comps /\
      candidate fs name (dir_str (firstn j comps)) = Some (f, p) /\
      forall k, j < k <= List.length comps -> candidate fs name (dir_str (firstn k comps)) = None.
Proof. exact loaded_is_nearest. Qed.

(** Project location, about the model's own answer: what [load] reports is
    Path(file).parent for a module name.py and one level further up for a
    package name/__init__.py. *)
Theorem C20_parent :
  forall fs cwd name comps f p,
    guard_abs fs comps name = true ->
    load fs cwd name (dir_str comps) = Loaded f p ->
    (f = child p (name ++ ".py") /\ p = path_parent f) \/
    (f = child (child p name) "__init__.py" /\ p = path_parent (path_parent f)).
Proof. exact parent_of_loaded. Qed.

(** F-C20c: start "/a/b/.." (= /a) loads /a/b/tasks.py although /a/b is not
    at or above the start point. *)
Theorem C20_dotdot_start_refuted :
  load fs_dotdot "/" "tasks" "/a/b/.." = Loaded "/a/b/tasks.py" "/a/b" /\
  abs_comps "/" "/a/b/.." = ["a"] /\
  expected fs_dotdot "tasks" (abs_comps "/" "/a/b/..") = None /\
  spec_ok fs_dotdot "/" "/a/b/.." "tasks" (obs_of (load fs_dotdot "/" "tasks" "/a/b/..")) = false.
Proof. exact dotdot_refutes. Qed.

(** No candidate at any ancestor (root included): collection-not-found. *)
Theorem C20_not_found :
  forall fs cwd name comps,
    guard_abs fs comps name = true -> expected fs name comps = None ->
    load fs cwd name (dir_str comps) = NotFound.
Proof. exact not_found. Qed.

(** Non-vacuity: a module shadows a farther package; a package found from its parent. *)
Example C20_example :
  guard_abs fs_ex ["p"; "q"; "r"; "s"] "tasks" = true /\ root_clear fs_ex "tasks" = true /\
  load fs_ex "/" "tasks" "/p/q/r/s" = Loaded "/p/q/tasks.py" "/p/q" /\
  load fs_ex "/" "tasks" "/p" = Loaded "/p/tasks/__init__.py" "/p".
Proof. exact example_nearest. Qed.
