(** C20 -- the nearest enclosing tasks module is the one loaded, with its
    project dir.  Statements only; proofs in Proofs/C20_loader.v.

    Model: Model/LoaderModel.v (FilesystemLoader.find as of a51b5ff: walk over
    os.path.abspath(start), root included; Loader.load) over the abstract file
    system of Common/FsTypes.v.
    What is left of the guard, [guard_exists]: the collection name is a plain
    path component, and the start directory exists -- it and every directory
    above it can be listed.  (A start directory that does not exist is outside
    the property's quantifier; the code answers CollectionNotFound at once.)
    The start may be absolute or relative to the working directory and may
    contain ".", "..", doubled or trailing separators: all are normalised
    lexically (abspath, not realpath -- symlinked directories stay as named). *)
From InvokeVerif Require Import Model.LoaderModel Spec.C20Spec Proofs.C20_loader Proofs.C20_historical.

(** The loaded module is the candidate (module first, else package) of the
    nearest directory at or above the start point, the root included;
    otherwise collection-not-found.  Full strength. *)
Theorem C20_nearest :
  forall fs cwd name start,
    guard_exists fs cwd start name = true ->
    load fs cwd name start = to_loaded (expected fs name (abs_comps cwd start)).
Proof. exact nearest. Qed.

(** Flagship: the model satisfies the executable specification. *)
Theorem C20_spec :
  forall fs cwd name start,
    guard_exists fs cwd start name = true ->
    spec_ok fs cwd start name (obs_of (load fs cwd name start)) = true.
Proof. exact spec_full. Qed.

(** Never a farther candidate. *)
Theorem C20_never_farther :
  forall fs cwd name start f p,
    guard_exists fs cwd start name = true ->
    load fs cwd name start = Loaded f p ->
    let comps := abs_comps cwd start in
    exists j, j <= List.length comps /\
      candidate fs name (dir_str (firstn j comps)) = Some (f, p) /\
      forall k, j < k <= List.length comps -> candidate fs name (dir_str (firstn k comps)) = None.
Proof. exact loaded_is_nearest. Qed.

(** Project location, about the model's own answer: Path(file).parent for a
    module name.py, one level further up for a package name/__init__.py. *)
Theorem C20_parent :
  forall fs cwd name start f p,
    guard_exists fs cwd start name = true ->
    load fs cwd name start = Loaded f p ->
    (f = child p (name ++ ".py") /\ p = path_parent f) \/
    (f = child (child p name) "__init__.py" /\ p = path_parent (path_parent f)).
Proof. exact parent_of_loaded. Qed.

(** No candidate at any directory at or above the start: collection-not-found. *)
Theorem C20_not_found :
  forall fs cwd name start,
    guard_exists fs cwd start name = true -> expected fs name (abs_comps cwd start) = None ->
    load fs cwd name start = NotFound.
Proof. exact not_found. Qed.

(** Normalised start components are always plain (no hypothesis on the start string). *)
Theorem C20_start_normalised :
  forall cwd start, comps_okb (abs_comps cwd start) = true.
Proof. exact abs_comps_ok. Qed.

(** Non-vacuity: a module shadows a farther package; a relative start with
    ".." components. *)
Example C20_example :
  guard_exists fs_ex "/" "/p/q/r/s" "tasks" = true /\
  load fs_ex "/" "tasks" "/p/q/r/s" = Loaded "/p/q/tasks.py" "/p/q" /\
  load fs_ex "/p/q" "tasks" "r/../../x/.." = Loaded "/p/tasks/__init__.py" "/p".
Proof. exact example_nearest. Qed.

(** The former witnesses of F-C20 / F-C20b / F-C20c now behave as specified. *)
Example C20_former_findings_fixed :
  load fs_root "/" "tasks" "/a" = Loaded "/tasks.py" "/" /\
  load fs_rel "/w" "tasks" "d1" = Loaded "/w/tasks.py" "/w" /\
  load fs_dotdot "/" "tasks" "/a/b/.." = NotFound /\
  guard_exists fs_root "/" "/a" "tasks" = true /\ guard_exists fs_rel "/w" "d1" "tasks" = true /\
  guard_exists fs_dotdot "/" "/a/b/.." "tasks" = true.
Proof. exact former_findings_fixed. Qed.

(** * Historical (fixed by a51b5ff): the walk over the prefixes of the start
    string as given ([load_old], Proofs/C20_historical.v) *)

(** F-C20: tasks.py in "/" was not found from /a. *)
Theorem C20_nearest_historical_refuted :
  load_old fs_root "/" "tasks" "/a" = NotFound /\
  expected fs_root "tasks" (abs_comps "/" "/a") = Some ("/tasks.py", "/") /\
  spec_ok fs_root "/" "/a" "tasks" (obs_of (load_old fs_root "/" "tasks" "/a")) = false.
Proof. exact root_historical_refutes. Qed.

(** F-C20b: relative start "d1" from cwd /w holding tasks.py: not found. *)
Theorem C20_relative_start_historical_refuted :
  load_old fs_rel_old "/w" "tasks" "d1" = NotFound /\
  expected fs_rel_old "tasks" (abs_comps "/w" "d1") = Some ("/w/tasks.py", "/w") /\
  spec_ok fs_rel_old "/w" "d1" "tasks" (obs_of (load_old fs_rel_old "/w" "tasks" "d1")) = false.
Proof. exact relative_historical_refutes. Qed.

(** F-C20c: start "/a/b/.." (= /a) loaded /a/b/tasks.py. *)
Theorem C20_dotdot_start_historical_refuted :
  load_old fs_dotdot_old "/" "tasks" "/a/b/.." = Loaded "/a/b/tasks.py" "/a/b" /\
  expected fs_dotdot_old "tasks" (abs_comps "/" "/a/b/..") = None /\
  spec_ok fs_dotdot_old "/" "/a/b/.." "tasks" (obs_of (load_old fs_dotdot_old "/" "tasks" "/a/b/..")) = false.
Proof. exact dotdot_historical_refutes. Qed.

(** One loader object built without a start, used in a sequence of steps
    (reading [.start] or loading, each in some working directory): whatever
    the earlier steps were -- loads in other directories, also ones that found
    nothing, reads of [.start] -- the k-th step, if it is a load in working
    directory [cwd], answers the nearest candidate at or above [cwd] and
    satisfies the specification with start := [cwd] (the default start is
    the working directory at the time of the load).  [guard_exists]: that
    directory exists. *)
Theorem C20_session_default_start :
  forall fs name steps k cwd,
    nth_error steps k = Some (LLoad cwd) ->
    guard_exists fs cwd cwd name = true ->
    exists r, nth_error (session_run fs None name steps) k = Some (RLoad r) /\
              r = to_loaded (expected fs name (abs_comps cwd cwd)) /\
              spec_ok fs cwd cwd name (obs_of r) = true.
Proof. exact session_default_start. Qed.
