From InvokeVerif Require Import Corr.C10Corr.
