(** C10 -- CLI task names, collection lookup and listings agree for every
    namespace tree.  Statements only; proofs in Proofs/C10_names.v,
    Proofs/CollStrings.v.

    Kinds: full ([C10_transform_consistent]), refuted (four witnesses that the
    faithful model violates the agreement: F-C10a..d), bounded (finite sweeps
    of the agreement inside the guards -- these are TESTS run by the kernel,
    not the property; the general [_partial] statements they sample are
    written out in the comments). *)
From InvokeVerif Require Import Model.CollModel Spec.C10Spec Corr.C10Corr
     Proofs.CollStrings Proofs.C17_path Proofs.C10_build Proofs.C10_names Proofs.C10_flat Proofs.C10_deep Proofs.C10_token Proofs.C10_parser.

(** Underscore/dash normalisation is consistent: idempotent, the later of two
    normalisations wins (so a name passed down through collections with
    different settings ends up in the spelling of the collection that looks it
    up), and it acts on each segment of a dotted path separately, i.e.
    commutes with dotted-path composition. *)
Theorem C10_transform_consistent :
  (forall ad s, transform ad (transform ad s) = transform ad s) /\
  (forall a b s, transform a (transform b s) = transform a s) /\
  (forall ad s, split_char "." (transform ad s) = map (transform ad) (split_char "." s)) /\
  (forall ad segs, segs <> [] -> Forall (fun x => contains_char "." x = false) segs ->
                   transform ad (join "." segs) = join "." (map (transform ad) segs)).
Proof.
  split; [exact transform_idem|]. split; [exact transform_absorb|].
  split; [exact split_transform | exact transform_join].
Qed.

(** The specification's notion of a normalised name (no rewritten character
    strictly inside a segment) is exactly the fixed points of the
    implementation's [transform]. *)
Theorem C10_normalized_iff_transform_fixed : forall ad n,
  normalized ad n = true <-> transform ad n = n.
Proof. exact normalized_iff_fixed. Qed.

(** Normalisation is applied to everything that is stored: in every tree built
    by a script over dot-free non-empty names -- [add_task] names and aliases
    (own and binding-level), [add_collection] names, collection names, and the
    re-keying done by [from_module] -- every task name, alias and
    sub-collection name of every collection is a fixed point of that
    collection's [transform] (and dot-free, non-empty). *)
Theorem C10_build_canonical : forall script c,
  names_plain script = true -> build script = Ok c -> ns_canon c = true.
Proof. exact build_canonical. Qed.

(** The agreement "accepted on the command line <-> normalised name that
    lookup resolves, and the accepted token runs the task lookup returns" is
    FALSE of the faithful model:
    (F-C10a) a collection below the root whose default is a sub-collection:
    its name resolves but is no parser context; *)
Theorem C10_cli_iff_lookup_refuted_default_subcollection :
  exists s c n, build s = Ok c /\ script_clean s = true /\ ns_wf c = true /\
                no_binding_aliases c = true /\
                contains c n = Ok true /\ normalized (c_auto_dash c) n = true /\
                (exists r, parser_of c = Ok r /\ preg_primary r n = None) /\
                name_ok (c_auto_dash c) n (model_nobs c n) = false.
Proof. exact refuted_default_subcollection. Qed.

(** (F-C10b) aliases given to add_task(aliases=...) resolve, are neither
    parser contexts nor listed. *)
Theorem C10_cli_iff_lookup_refuted_binding_alias :
  exists s c n, build s = Ok c /\ script_clean s = true /\ ns_wf c = true /\
                no_dsub_below true c = true /\
                contains c n = Ok true /\ normalized (c_auto_dash c) n = true /\
                (exists r, parser_of c = Ok r /\ preg_primary r n = None) /\
                name_ok (c_auto_dash c) n (model_nobs c n) = false /\
                listing_ok c 1 (model_rows c 1) = false /\
                listing_ok c 2 (model_rows c 2) = false.
Proof. exact refuted_binding_alias. Qed.

(** Flagship, proved form, ANY DEPTH.  For EVERY built tree inside the guard
    and EVERY token, the observations the model predicts satisfy the executable
    judgement [name_ok]: the token is accepted by the parser built from
    [to_contexts] iff it is a canonical dotted name that [name in collection]
    resolves; an accepted token runs -- through the executor's second lookup
    of the context's primary name -- the very task [collection[token]]
    returns; a token that is not accepted runs nothing.
    Guard [deep_guard]: one auto-dash setting throughout (else F-C10d);
    bindings distinct and canonical ([ns_wf], [ns_canon]: build invariants);
    in every collection the alias table holds exactly the declared aliases
    (excludes F-C10b); no collection other than the root has a sub-collection
    as default (excludes F-C10a); configurations type-consistent along every
    path; the flattened names pairwise distinct.  What is missing from full
    strength is exactly F-C10a, F-C10b, mixed auto-dash settings -- and the
    following premise, which is NOT backed by a finding:

    DISCLOSURE ([compat_down], part of [deep_guard] and a premise of the two
    reference theorems below).  It is the type-consistency premise of C17: no
    settings path is a section in one collection of the path and a plain value
    in another.  Lookup ([collection[name]], [name in collection]) merges the
    configurations along the path before it answers, and merging a section
    with a plain value raises AmbiguousMergeError -- the documented outcome of
    such a merge (invoke.config.merge_dicts), which is why C17 leaves those
    trees outside its statement.  In such a tree the parser still accepts the
    name while lookup raises instead of answering, so the equivalence "accepted
    iff lookup resolves" does not hold there; this is not registered as a
    defect of the code (the error is the documented one and the task could not
    be given a configuration anyway), the theorems simply say nothing about
    those trees, and the generated cases of the check keep configurations
    type-consistent (harness/props/c10.py, assumptions). *)
Theorem C10_cli_iff_lookup_partial : forall c n,
  deep_guard c = true -> n <> "" -> name_ok (c_auto_dash c) n (model_nobs c n) = true.
Proof. exact deep_names_agree. Qed.

(** ... and the whole judgement of a token ([token_ok], what the check applies
    to every observed token): additionally `--help <token>` is offered for
    exactly the accepted names and documents the task lookup returns, and the
    invocation WITHOUT any task runs the task lookup of the empty name returns
    (the default, through default sub-collections too) or nothing. *)
Theorem C10_token_agreement_partial : forall c n,
  deep_guard c = true -> token_ok (c_auto_dash c) n (model_nobs c n) = true.
Proof. exact deep_tokens_agree. Qed.

(** Ingredients, each general: [task_names] is plain prefixing/appending ... *)
Theorem C10_task_names_is_flattening_partial : forall ad c,
  uniform ad c = true -> ns_canon c = true -> NoDup (map fst (tn c)) -> task_names c = tn c.
Proof. exact task_names_tn. Qed.

(** ... every flattened name (primary, alias, default shortcut) is resolved by
    the reference walk to the task of its entry ... *)
Theorem C10_flattened_names_resolve_partial : forall ad c,
  uniform ad c = true -> ns_wf c = true -> ns_canon c = true -> alias_table_own c = true ->
  forall pa, In pa (tn c) ->
  exists t, forall n, In n (fst pa :: snd pa) ->
    exists cfgs, ref_path c (split_char "." n) = Some (t, cfgs).
Proof. exact entries_resolve. Qed.

(** ... and every non-empty name the reference walk resolves is a flattened name. *)
Theorem C10_reference_names_are_flattened_partial : forall ad c root,
  uniform ad c = true -> ns_wf c = true -> ns_canon c = true -> alias_table_own c = true ->
  no_dsub_below root c = true ->
  forall segs t cfgs, segs <> [] -> ref_path c segs = Some (t, cfgs) ->
  exists pa, In pa (tn c) /\ In (join "." segs) (fst pa :: snd pa).
Proof. exact ref_in_tn. Qed.

(** The same agreement for ALL flat namespaces (a root collection holding any number
    of tasks with any number of declared aliases, no sub-collections) and ALL
    tokens: the token is accepted by the parser built from [to_contexts] iff it
    is a canonical name that [name in collection] resolves; an accepted token
    runs (through the executor's second lookup of the context's primary name)
    the very task [collection[token]] returns; anything else runs nothing.
    Guard [flat_guard]: no sub-collections; task names and declared aliases
    pairwise distinct and canonical; the alias table holds exactly the
    declared aliases (this excludes F-C10b).  (Proved first; subsumed by the
    any-depth theorem except that it needs no distinctness of the flattened
    names beyond the declared ones.) *)
Theorem C10_cli_iff_lookup_flat_partial : forall cn tasks aliases dflt ad cfg n,
  flat_guard (Coll cn tasks aliases [] dflt ad cfg) = true ->
  n <> "" ->
  name_ok ad n (model_nobs (Coll cn tasks aliases [] dflt ad cfg) n) = true.
Proof. intros. apply flat_names_agree; assumption. Qed.

(** Any depth, the lookup half of the agreement, proved in general: for EVERY
    tree (any nesting, default tasks and default sub-collections at any level,
    aliases, binding-level aliases included) and EVERY canonical dotted name,
    [collection[name]] returns task t iff the reference walk of Spec/C17Spec
    ([ref_path]: names, aliases and default shortcuts, segment by segment)
    resolves the name to t; in particular [name in collection] holds exactly
    for the canonical names of the reference.  Guards: one auto-dash setting
    throughout ([uniform]; with mixed settings each level re-spells the
    remainder, F-C10d lives there), bindings distinct and canonical ([ns_wf],
    [ns_canon]: invariants of build, C10_build_canonical), configurations
    type-consistent along every path ([compat_down]; otherwise lookup raises
    AmbiguousMergeError). *)
Theorem C10_lookup_iff_reference_partial : forall c n t,
  uniform (c_auto_dash c) c = true -> ns_wf c = true -> ns_canon c = true ->
  compat_down [] c = true -> canonical (c_auto_dash c) n = true ->
  (getitem c n = Ok t <-> exists cfgs, ref_path c (split_char "." n) = Some (t, cfgs)).
Proof. exact lookup_iff_reference. Qed.

Theorem C10_contains_iff_reference_partial : forall c n,
  uniform (c_auto_dash c) c = true -> ns_wf c = true -> ns_canon c = true ->
  compat_down [] c = true -> canonical (c_auto_dash c) n = true ->
  (contains c n = Ok true <-> exists t cfgs, ref_path c (split_char "." n) = Some (t, cfgs)).
Proof. exact contains_iff_reference. Qed.

(** Inside the guards (clean script, no default sub-collection below the root,
    no binding-level aliases) the agreement holds on every tree of the sweep:
    128 trees (root > [top] + sub > [my_task (own alias?, default?)] + in_ner >
    [deep]; every auto-dash combination; root default on/off) x 48 candidate
    tokens in every spelling, MIXED auto-dash settings included (which the
    general theorem above excludes).  A TEST. *)
Theorem C10_cli_iff_lookup_bounded_128 :
  names_sweep (sweep_scripts false) = true /\
  List.length (sweep_scripts false) = 128 /\ List.length names_vocab = 48.
Proof. split; [exact names_bounded | split; apply sweep_size]. Qed.

(** Listings: (F-C10c) the json listing shows own names, not the names bound; *)
Theorem C10_listing_once_refuted_json :
  exists s c, build s = Ok c /\ script_clean s = true /\ ns_wf c = true /\
              no_binding_aliases c = true /\
              listing_ok c 1 (model_rows c 1) = true /\
              listing_ok c 2 (model_rows c 2) = true /\
              listing_ok c 3 (model_rows c 3) = false /\
              contains c "orig" = Ok false.
Proof. exact refuted_json. Qed.

(** (F-C10d) with different auto-dash settings in root and sub-collection the
    listing shows a spelling the command line does not accept. *)
Theorem C10_listing_once_refuted_mixed_autodash :
  exists s c, build s = Ok c /\ script_clean s = true /\ ns_wf c = true /\
              no_binding_aliases c = true /\ bound_by_own_names c = true /\
              listing_ok c 1 (model_rows c 1) = false /\
              model_rows c 1 = Ok [(0, "sub.my-task", [], Some 1)] /\
              (exists r, parser_of c = Ok r /\ preg_primary r "sub.my-task" = None /\
                         preg_primary r "sub.my_task" = Some "sub.my_task").
Proof. exact refuted_mixed_autodash. Qed.

(** Inside the guards (uniform spelling; for json also bindings by own names)
    every binding is listed exactly once under its bound name with exactly its
    aliases, in all three formats, on each of the 192 trees of the sweep
    (default sub-collections at any level included; 48 of them inside the json
    guard).  A TEST; the general statement
      forall s c, build s = Ok c -> script_clean s = true -> no_binding_aliases c = true ->
        keys_normalized (c_auto_dash c) c = true ->
        listing_ok c 1 (model_rows c 1) = true /\ listing_ok c 2 (model_rows c 2) = true /\
        (bound_by_own_names c = true -> listing_ok c 3 (model_rows c 3) = true)
    is not proved. *)
Theorem C10_listing_once_bounded_192 :
  listing_sweep (sweep_scripts true) = true /\ List.length (sweep_scripts true) = 192.
Proof. split; [exact listing_bounded | apply sweep_size]. Qed.

(** Non-vacuity: the sweeps contain trees inside every guard that exercise
    aliases, a default task shortcut and three levels. *)
Example C10_example_in_guards :
  exists s c, In s (sweep_scripts false) /\ build s = Ok c /\ ns_wf c = true /\ script_clean s = true /\
              no_dsub_below true c = true /\ no_binding_aliases c = true /\
              contains c "sub" = Ok true /\ contains c "sub.al-x" = Ok true /\
              contains c "sub.in-ner.deep" = Ok true /\
              (exists r, parser_of c = Ok r /\ preg_primary r "sub" = Some "sub.my-task" /\
                         preg_primary r "sub.in-ner" = Some "sub.in-ner.deep").
Proof.
  exists (ISub None true (Node [])
            [ITask (mkTask 1 "top" ["t_al"] false) None [] None;
             ISub (Some "sub") true (Node [])
                  [ITask (mkTask 2 "my_task" ["al_x"] false) None [] (Some true);
                   ISub (Some "in_ner") true (Node [])
                        [ITask (mkTask 3 "deep" [] false) None [] (Some true)] None false]
                  None true] None false).
  eexists. split; [vm_compute; tauto|].
  split; [vm_compute; reflexivity|].
  repeat split; try (vm_compute; reflexivity).
  eexists. repeat split; vm_compute; reflexivity.
Qed.

(** Non-vacuity of the flat guard: a built collection with underscored names,
    two declared aliases on one task and a default task. *)
Example C10_example_flat_guard :
  exists c,
    build (ISub None true (Node [])
                [ITask (mkTask 1 "my_task" ["mt"; "m_t"] false) None [] None;
                 ITask (mkTask 2 "other" [] true) None [] None] None false) = Ok c /\
    flat_guard c = true /\ contains c "m-t" = Ok true /\ contains c "m_t" = Ok true.
Proof. eexists. split; [vm_compute; reflexivity|]. repeat split; vm_compute; reflexivity. Qed.

(** Non-vacuity of the any-depth guards: three levels, configured collections,
    a default task reached through two collection names. *)
Example C10_example_deep_guards :
  exists c t,
    build (ISub None true (Node [("k", Node [("x", Leaf (VInt 0))])])
                [ITask (mkTask 1 "top" ["t_al"] false) None [] None;
                 ISub (Some "sub") true (Node [("k", Node [("y", Leaf (VInt 1))])])
                      [ITask (mkTask 2 "my_task" ["al_x"] false) None ["extra"] (Some true);
                       ISub (Some "in_ner") true (Node [])
                            [ITask (mkTask 3 "deep" [] false) None [] (Some true)] None false]
                      None true] None false) = Ok c /\
    uniform (c_auto_dash c) c = true /\ ns_wf c = true /\ ns_canon c = true /\
    compat_down [] c = true /\ canonical (c_auto_dash c) "sub.in-ner" = true /\
    getitem c "sub.in-ner" = Ok t /\ t_id t = 3 /\
    (exists cfgs, ref_path c ["sub"; "extra"] = Some (mkTask 2 "my_task" ["al_x"] false, cfgs)).
Proof.
  eexists. eexists. split; [vm_compute; reflexivity|].
  repeat split; try (vm_compute; reflexivity).
  eexists. vm_compute. reflexivity.
Qed.

(** Non-vacuity of [deep_guard]: three levels, declared aliases, default tasks
    at two levels, configured collections. *)
Example C10_example_deep_guard :
  exists c,
    build (ISub None true (Node [("k", Node [("x", Leaf (VInt 0))])])
                [ITask (mkTask 1 "top" ["t_al"] false) None [] None;
                 ISub (Some "sub") true (Node [("k", Node [("y", Leaf (VInt 1))])])
                      [ITask (mkTask 2 "my_task" ["al_x"] false) None [] (Some true);
                       ISub (Some "in_ner") true (Node [])
                            [ITask (mkTask 3 "deep" [] false) None [] (Some true)] None false]
                      None true] None false) = Ok c /\
    deep_guard c = true /\
    tn c = [("top", ["t-al"]); ("sub.my-task", ["sub.al-x"; "sub"]);
            ("sub.in-ner.deep", ["sub.in-ner"])].
Proof. eexists. split; [vm_compute; reflexivity|]. split; vm_compute; reflexivity. Qed.

(** * The listings, any depth (Proofs/C10_listing.v)

    [tnt c] is the reference flattening of the tree with task identities: one
    entry (primary dotted name, task, alias names) per binding of a task,
    built by plain prefixing.  Forgetting the identities it is [tn c], the
    list the parser registry is built from ([C10_listing_reference]); entry by
    entry it is the specification's [flat_expected c]. *)
From Coq Require Import Permutation.
From InvokeVerif Require Import Proofs.C10_listing.

Theorem C10_listing_reference_partial :
  forall c, ns_wf c = true -> ns_canon c = true -> alias_table_own c = true ->
  map (fun e => (le_name e, le_aliases e)) (tnt c) = tn c /\
  Forall2 flat_agrees (tnt c) (flat_expected c).
Proof. intros c H1 H2 H3. split; [apply tnt_tn | apply tnt_expected; assumption]. Qed.

(** The flat listing of EVERY tree (any depth) without colliding bindings
    ([ns_wf]) and with canonical binding keys ([ns_canon]) is, up to the order
    of its lines, one line per entry of the reference: depth 0, the primary
    dotted name, the task, and the entry's aliases up to order.
    Missing: trees whose binding keys are not canonical (F-C10b's ground). *)
Theorem C10_flat_listing_partial :
  forall c, ns_wf c = true -> ns_canon c = true ->
  exists rows', Permutation (flat_rows c []) rows' /\ Forall2 flat_line rows' (tnt c).
Proof. exact flat_listing. Qed.

(** Inside [deep_guard] (uniform auto-dash, no aliases given at binding time,
    no default sub-collection below the root, type-consistent configurations,
    distinct flattened names: the guard that excludes F-C10b/c/d): every
    entry has its line and every line its entry; primary names are pairwise
    distinct, and no name the listing displays (primary or alias) occurs
    twice anywhere in it. *)
Theorem C10_flat_listed_once_partial :
  forall c, deep_guard c = true ->
  Permutation (map r_name (flat_rows c [])) (map le_name (tnt c)) /\
  NoDup (map le_name (tnt c)) /\
  NoDup (flat_map row_names (flat_rows c [])) /\
  (forall e, In e (tnt c) -> exists r, In r (flat_rows c []) /\ flat_line r e) /\
  (forall r, In r (flat_rows c []) -> exists e, In e (tnt c) /\ flat_line r e).
Proof. exact flat_listed_once. Qed.

(** ... and every name a line displays -- its primary name and each alias --
    is canonical, is accepted by the parser registry, runs the task the line
    stands for, and [coll[name]] is that task (composition with
    [C10_cli_iff_lookup_partial]). *)
Theorem C10_flat_listed_accepted_partial :
  forall c, deep_guard c = true ->
  forall r, In r (flat_rows c []) -> forall m, In m (row_names r) ->
    canonical (c_auto_dash c) m = true /\
    accepted (model_nobs c m) = true /\
    cli_run c m = Ok (r_task r) /\
    exists t, getitem c m = Ok t /\ r_task r = Some (t_id t).
Proof. exact flat_listed_accepted. Qed.

(** The nested listing of every tree, read back exactly the way the
    specification reads it ([nested_shown]: depth = scope, leading '.',
    trailing '*' on the default task), shows, up to the order of lines, the
    bindings of the tree ([rel_expected]): collection path, binding key, task,
    the alias names.  [readable]: no task key ends in '*' and normalised
    aliases are dot-free (otherwise the display itself is ambiguous). *)
Theorem C10_nested_listing_partial :
  forall c, ns_wf c = true -> ns_canon c = true -> readable c = true -> alias_table_own c = true ->
  exists ents, Permutation (nested_shown (nested_rows c []) []) ents /\
               Forall2 entry_agrees ents (rel_expected c).
Proof. exact nested_listing_spec. Qed.

(** Non-vacuity: the three-level tree of [C10_example_deep_guard] satisfies
    all guards; its flat listing has the three lines of the reference. *)
Example C10_example_listing :
  exists c,
    build (ISub None true (Node [("k", Node [("x", Leaf (VInt 0))])])
                [ITask (mkTask 1 "top" ["t_al"] false) None [] None;
                 ISub (Some "sub") true (Node [("k", Node [("y", Leaf (VInt 1))])])
                      [ITask (mkTask 2 "my_task" ["al_x"] false) None [] (Some true);
                       ISub (Some "in_ner") true (Node [])
                            [ITask (mkTask 3 "deep" [] false) None [] (Some true)] None false]
                      None true] None false) = Ok c /\
    deep_guard c = true /\ readable c = true /\
    tnt c = [("top", 1, ["t-al"]); ("sub.my-task", 2, ["sub.al-x"; "sub"]);
             ("sub.in-ner.deep", 3, ["sub.in-ner"])] /\
    flat_rows c [] = [(0, "top", ["t-al"], Some 1);
                      (0, "sub.my-task", ["sub"; "sub.al-x"], Some 2);
                      (0, "sub.in-ner.deep", ["sub.in-ner"], Some 3)].
Proof. eexists. split; [vm_compute; reflexivity|]. repeat split; vm_compute; reflexivity. Qed.

(** The JSON listing ([Collection.serialized]) of every tree, any depth, in
    which every task is bound by its own normalised name and every
    sub-collection by its own name ([own_named]: the guard that excludes
    F-C10c), read back the way the specification reads it ([json_shown]),
    shows, up to the order of lines, the bindings of the tree. *)
Theorem C10_json_listing_partial :
  forall c, ns_wf c = true -> own_named c = true -> alias_table_own c = true ->
  exists ents, Permutation (json_shown (json_rows c 0) []) ents /\
               Forall2 entry_agrees ents (rel_expected c).
Proof. exact json_listing_spec. Qed.

Example C10_example_json_listing :
  exists c,
    build (ISub None true (Node [("k", Node [("x", Leaf (VInt 0))])])
                [ITask (mkTask 1 "top" ["t_al"] false) None [] None;
                 ISub (Some "sub") true (Node [("k", Node [("y", Leaf (VInt 1))])])
                      [ITask (mkTask 2 "my_task" ["al_x"] false) None [] (Some true);
                       ISub (Some "in_ner") true (Node [])
                            [ITask (mkTask 3 "deep" [] false) None [] (Some true)] None false]
                      None true] None false) = Ok c /\
    ns_wf c = true /\ own_named c = true /\ alias_table_own c = true /\
    json_shown (json_rows c 0) [] =
      [([], "top", 1, ["t-al"]); (["sub"], "my-task", 2, ["al-x"]);
       (["sub"; "in-ner"], "deep", 3, [])].
Proof. eexists. split; [vm_compute; reflexivity|]. repeat split; vm_compute; reflexivity. Qed.

(** * Scoped and depth-limited listings (Proofs/C10_scoped.v)

    [--list <root>] and [--list-depth N] are modelled by the general row
    generator [pair_rows] ([Program._make_pairs] with its two switches).

    Model sanity lemma: without a root and without a limit the general
    generator IS the plain one the theorems above are about, for every tree. *)
From InvokeVerif Require Import Proofs.C10_scoped.

Theorem C10_scoped_generator_extends_plain : forall c anc,
  pair_rows false false 0 c anc = flat_rows c anc /\ pair_rows true false 0 c anc = nested_rows c anc.
Proof. intros c anc. split; [apply pair_rows_flat | apply pair_rows_nested]. Qed.

(** Every tree of the small scope (192 scripts) x 15 scopes (no root / sub /
    sub.in-ner / a misspelled root / a task name as root, each with no limit,
    depth 1, depth 2), in all three formats, inside the guards of the listing
    statement (uniform spelling; for json: bindings by own names): the rows the
    model predicts satisfy the specification [listing_at] -- same bindings once
    each, relative names with leading dots, truncated collections with their
    tallies, unknown roots refused.  48 trees lie inside both guards. *)
Theorem C10_scoped_listing_bounded_2880 :
  scoped_sweep (sweep_scripts true) = true /\
  List.length (sweep_scripts true) * List.length scoped_views = 2880.
Proof. split; [exact scoped_bounded | apply scoped_sweep_size]. Qed.

(** (F-C10e) `--list docs --list-depth 2`, flat: the collection cut off at the
    limit is shown as "api.deep" -- every other name of the scoped listing has
    the leading dot (".api.gen").  Nested format, limit 1 and the unscoped
    listing of the same tree are as specified. *)
Theorem C10_scoped_listing_refuted_truncated_row :
  exists c, build fc10e_script = Ok c /\
            script_clean fc10e_script = true /\ keys_normalized (c_auto_dash c) c = true /\
            model_rows_at c 1 (Some "docs") 2 =
              Ok [(0, ".build", [], Some 1); (0, ".api.gen", [], Some 2); (0, "api.deep", ["1 tasks"], None)] /\
            judged c 1 (Some "docs") 2 = false /\
            judged c 2 (Some "docs") 2 = true /\ judged c 1 (Some "docs") 1 = true /\
            judged c 1 None 2 = true.
Proof. exact refuted_truncated_row. Qed.
