(** C04 -- Tasks run depth-first in request order; identical invocations run
    once.  Statements only; proofs are in Proofs/C04_exec.v.
    Acyclic pre/post graphs are the finite trees of type [call]; cycles cannot
    be expressed (invoke itself recurses without bound on one). *)
From InvokeVerif Require Import Model.ExecModel Spec.C04Spec Corr.C04Corr Proofs.C04_exec.

(** The recursive expansion of the executor is the depth-first order computed
    by the independent work-list traversal of the specification: each call's
    pre-tasks (recursively) before it, its post-tasks after it, requests in
    the order given.  Full strength, every forest. *)
Theorem C04_expand_is_dfs : forall calls, expand_calls calls = dfs calls.
Proof. exact expand_is_dfs. Qed.

(** What [dedupe] does, for the equality it uses (literal task/args/kwargs):
    the result is a subsequence of the input (so all kept calls keep their
    relative order), no kept call equals an earlier kept one, every input call
    is kept or equals a kept one (so a call is dropped only when an identical
    one was kept before it: first occurrences win).  Full strength. *)
Theorem C04_dedupe_first_occurrence : forall eqk l,
  subseq (dedupe eqk l) l /\
  (forall n1 x n2, dedupe eqk l = n1 ++ x :: n2 -> existsb (fun d => call_eqb eqk d x) n1 = false) /\
  (forall x, In x l -> In x (dedupe eqk l) \/ existsb (fun d => call_eqb eqk d x) (dedupe eqk l) = true).
Proof. exact dedupe_spec. Qed.

(** Flagship, proved form.  For every signature table with distinct parameter
    names, every request list, default task and dedupe setting, the session the
    model executes is accepted by the executable specification (depth-first
    order, each occurrence with the arguments bound as specified, an invocation
    skipped iff one with the same task and same *effective* arguments was
    executed before, the returned mapping covering exactly the executed tasks)
    -- provided dedupe is off, or literal and effective equality agree on the
    calls of the session ([agree]; it also forces distinct tasks of the session
    into distinct Task.__eq__ classes).  What is missing from full strength is
    exactly that guard: see the refutations (F-C04). *)
Theorem C04_dedupe_spec_partial : forall sig eqk reqs dflt dd,
  wf_sig sig ->
  (dd = true -> agree sig eqk (dfs (requested reqs dflt)) = true) ->
  spec_ok sig reqs dflt dd (execute sig eqk reqs dflt dd) = true.
Proof. exact model_meets_spec. Qed.

(** The unguarded statement is FALSE of the faithful model: `inv setup build`
    with build(pre=[setup]) and setup(c, clean=False) runs setup(clean=False)
    twice although dedupe is on ... *)
Theorem C04_dedupe_spec_refuted_effective :
  exists sig reqs,
    wf_sig sig /\
    execute sig (fun t => t) reqs None true =
      Ok ([(1, [("clean", VBool false)]); (1, [("clean", VBool false)]); (0, [])], [(1, 1); (0, 2)]) /\
    spec_ok sig reqs None true (execute sig (fun t => t) reqs None true) = false.
Proof. exact refuted_effective. Qed.

(** ... and so do call(setup, False) and call(setup, clean=False). *)
Theorem C04_dedupe_spec_refuted_effective_positional :
  exists sig reqs,
    spec_ok sig reqs None true (execute sig (fun t => t) reqs None true) = false /\
    agree sig (fun t => t) (dfs (requested reqs None)) = false.
Proof. exact refuted_effective_positional. Qed.

(** ... and so does Task.__eq__ itself: tasks made by one factory function
    (same name, same code object, different closure) are "the same task" for
    dedupe, so `execute("staging", "prod")` runs only one of two non-identical
    invocations (F-C04c; with identity as task equality the same session is
    accepted). *)
Theorem C04_dedupe_spec_refuted_factory :
  exists sig eqk reqs,
    wf_sig sig /\ eqk 1 = eqk 2 /\
    execute sig eqk reqs None true = Ok ([(1, [])], [(1, 0)]) /\
    spec_ok sig reqs None true (execute sig eqk reqs None true) = false /\
    spec_ok sig reqs None true (execute sig (fun t => t) reqs None true) = true.
Proof. exact refuted_factory. Qed.

(** With deduplication off nothing is skipped: the log is the depth-first
    order, call by call, each with its bound arguments. *)
Theorem C04_no_dedupe_identity : forall sig eqk reqs dflt log res,
  execute sig eqk reqs dflt false = Ok (log, res) ->
  Forall2 (fun f e => eff sig f = Some e) (dfs (requested reqs dflt)) log.
Proof. exact no_dedupe_identity. Qed.

(** The returned mapping: exactly the executed tasks, one entry each, holding
    the return value of an execution of that task ... *)
Theorem C04_results_map : forall log, results_ok log (results_from 0 log []) = true.
Proof. exact results_map. Qed.

(** ... namely of its last one (a task executed several times with different
    arguments keeps only the last return value). *)
Theorem C04_results_last_wins : forall log t v,
  In (t, v) (results_from 0 log []) ->
  exists e, nth_error log v = Some e /\ fst e = t /\
            forall j e', v < j -> nth_error log j = Some e' -> fst e' <> t.
Proof. exact results_last_wins. Qed.

(** Autoprint.  The positions at which the model prints a return value
    ([call in direct and call.autoprint]: the call equals a directly requested
    call -- the implicitly chosen default call included -- and its task is an
    autoprint task) are exactly those the specification demands (autoprint task,
    invocation identical to a directly requested one), dedupe on or off, under
    the same guard as above: literal and effective equality agree on the
    session. *)
Theorem C04_autoprint_partial : forall sig eqk autop reqs dflt dd,
  agree sig eqk (dfs (requested reqs dflt)) = true ->
  print_ok entry_eqb sig autop reqs dflt dd (run_once []) (printed eqk autop reqs dflt dd) = true.
Proof. exact printed_meets_spec. Qed.

(** Non-vacuity: a diamond (leaf reached three times, once as post-task) with
    positional and keyword arguments, inside the guard, dedupe on: 7 calls
    expanded, 5 executed. *)
Example C04_example_guard_inhabited :
  wf_sig ex_sig /\ agree ex_sig (fun t => t) (dfs (requested [(ex_top, [])] None)) = true /\
  execute ex_sig (fun t => t) [(ex_top, [])] None true =
    Ok ([(3, []); (1, []); (2, [("n", VInt 5)]); (4, [("xx", VInt 1); ("yy", VNone)]); (0, [])],
        [(3, 0); (1, 1); (2, 2); (4, 3); (0, 4)]) /\
  List.length (dfs (requested [(ex_top, [])] None)) = 7.
Proof. exact example_guard. Qed.
