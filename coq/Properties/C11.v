(** C11 -- Clones are faithful and independent; supplied data is never mutated.
    Statements only; proofs are in Proofs/C11_clone.v.

    What is proved is the "faithful" half on the pure model.  Independence of
    original and clone and non-mutation of supplied data are statements about
    object identity, which a pure functional model cannot express (they would be
    vacuously true): they are checked by the snapshot / object-identity test of
    the correspondence harness (harness/props/c11.py), and the evidence says so. *)
From InvokeVerif Require Import Common.Tree Common.StrUtil Model.MergeModel Model.ConfigModel
     Spec.C03Spec Proofs.C03_order Proofs.C11_clone.

(** [copy_dict] (the recursive copy used for every level) returns an equal
    dict: same keys, same order, same values, at every depth. *)
Theorem C11_copy_dict_identity : forall kids,
  wf (Node kids) = true -> copy_dict (Node kids) = Ok kids.
Proof. exact copy_dict_identity. Qed.

(** Guard [clone_guard c]: every level of [c] is a well-formed dict, the cache is
    the merge of the levels (both hold in every state the correspondence has
    ever observed; the sweep below checks them on all short histories), and the
    system/user files have been looked for.  MISSING for the full statement: the
    last conjunct -- a Config created with lazy=True whose base files were never
    loaded gets them loaded by clone() (F-C11c, refuted below) -- and cloning
    into a subclass whose global defaults disagree with the original's (F-C11b,
    refuted below).
    Under the guard, clone() yields a state equal to the original in every
    component: all nine levels, the deletions mask (the repaired F-C11), the
    found flags and the merged view. *)
Theorem C11_clone_faithful_partial : forall fs c,
  clone_guard c = true -> clone fs c None = (c, ONone).
Proof. exact clone_faithful. Qed.

Theorem C11_clone_view_equal_partial : forall fs c,
  clone_guard c = true ->
  c_cache (fst (clone fs c None)) = c_cache c /\ snd (clone fs c None) = ONone.
Proof. exact clone_view_equal. Qed.

Theorem C11_clone_levels_equal_partial : forall fs c,
  clone_guard c = true -> strip (fst (clone fs c None)) = strip c.
Proof. exact clone_levels_equal. Qed.

(** In particular deleted keys stay deleted in the clone. *)
Theorem C11_clone_keeps_deletions_partial : forall fs c,
  clone_guard c = true -> c_dels (fst (clone fs c None)) = c_dels c.
Proof. intros fs c H. rewrite clone_faithful by exact H. reflexivity. Qed.

(** F-C11c: the full statement fails for a lazy, never-loaded original. *)
Theorem C11_clone_view_equal_refuted_lazy :
  exists fs c, state_ok c = true /\ c_cache (fst (clone fs c None)) <> c_cache c.
Proof.
  exists [(("sys", "json"), FData (Node [("k", Leaf (VInt 1))]))].
  exists (blank (Node []) (Node []) (Some "sys") (Some "usr") None None "INVOKE_").
  split; [vm_compute; reflexivity|]. vm_compute. discriminate.
Qed.

(** F-C11b: cloning into a subclass lets the subclass' global defaults override
    a default the original defines. *)
Theorem C11_clone_into_refuted :
  exists fs c g p, clone_guard c = true /\
    shape_at p (Node (c_cache c)) <> None /\
    shape_at p (Node (c_cache (fst (clone fs c (Some g))))) <> shape_at p (Node (c_cache c)).
Proof.
  exists [].
  exists (set_cache (set_user (set_system
            (blank (Node [("a", Leaf (VInt 1))]) (Node []) (Some "sys") (Some "usr") None None "INVOKE_")
            (Node []) FTrue (Some "py")) (Node []) FTrue (Some "py")) [("a", Leaf (VInt 1))]).
  exists (Node [("a", Leaf (VInt 2)); ("new", Leaf (VInt 1))]), ["a"].
  split; [vm_compute; reflexivity|]. split; vm_compute; discriminate.
Qed.

(** A test, not the property: on every history of at most 3 operations from a
    12-letter alphabet (writes, nested writes, deletions, pop, clear, reloads,
    dict write) over a two-level configuration, the guard holds afterwards and
    clone() returns an equal state. *)
Definition sweep_alphabet : list op :=
  [ SetV Item ["a"] "x" (Leaf (VInt 1)); SetV Attr [] "k" (Leaf (VInt 2));
    SetV Item [] "n" (Node [("m", Leaf (VInt 1))]); SetV Item [] "a" (Node [("x", Leaf (VInt 7))]);
    Del Item ["a"] "x"; Del Attr [] "a"; Del Item [] "k"; Pop Item ["a"] "y" None;
    Clear Item ["a"]; SetDefault Item ["a"] "z" (Some (Leaf (VInt 2)));
    LoadDefaults (Node [("a", Node [("x", Leaf (VInt 5))])]);
    LoadOverrides (Node [("a", Node [("y", Leaf (VInt 7))])]) ].

Fixpoint histories (n : nat) : list (list op) :=
  match n with
  | O => [[]]
  | S n' => [] :: flat_map (fun h => map (fun o => o :: h) sweep_alphabet) (histories n')
  end.

Definition sweep_start : result cfg :=
  start [] (mkInit (Node [("a", Node [("x", Leaf (VInt 0)); ("y", Leaf (VInt 0))]); ("k", Leaf (VInt 1))])
                   (Node []) None None false).

Definition sweep_ok (h : list op) : bool :=
  match sweep_start with
  | Err _ => false
  | Ok c0 =>
      let c := fst (run [] c0 h) in
      clone_guard c &&
      match clone [] c None with
      | (c', ONone) => tree_eqb (Node (c_cache c')) (Node (c_cache c)) &&
                       tree_eqb (Node (c_dels c')) (Node (c_dels c)) &&
                       tree_eqb (Node (c_mods c')) (Node (c_mods c))
      | _ => false
      end
  end.

Theorem C11_clone_faithful_bounded_3 : forallb sweep_ok (histories 3) = true.
Proof. vm_compute. reflexivity. Qed.

(** Non-vacuity: a state after a nested write and a deletion satisfies the guard. *)
Example C11_example_guard :
  match sweep_start with
  | Ok c0 =>
      let c := fst (run [] c0 [SetV Item ["a"] "z" (Leaf (VInt 5)); Del Item [] "k"]) in
      clone_guard c = true /\ c_dels c = [("k", Leaf VNone)] /\
      c_cache c = [("a", Node [("x", Leaf (VInt 0)); ("y", Leaf (VInt 0)); ("z", Leaf (VInt 5))])]
  | Err _ => False
  end.
Proof. vm_compute. repeat split; reflexivity. Qed.
