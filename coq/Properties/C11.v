From InvokeVerif Require Import Corr.C11Corr.
