(** C11 -- Clones are faithful and independent; supplied data is never mutated.
    Statements only; proofs are in Proofs/C11_clone.v.

    Two models.  The pure one (ConfigModel) carries the "faithful" half.
    Independence and non-mutation are statements about object identity, which a
    pure model cannot express; they are PROVED on the explicit-heap model of
    merge_dicts / copy_dict / clone's per-level copy (Model/HeapMerge.v: a heap
    of dict objects, references, allocation) in the second half of this file, and
    the heap model is tied to the real code by comparing the sharing relation
    (which paths denote the same dict object, which objects changed) observed
    with id() on inputs that deliberately share sub-dict objects.  The parts of
    Config outside these three functions (proxies writing to _modifications,
    reloads) are covered by the snapshot / object-identity test of the harness. *)
From InvokeVerif Require Import Common.Tree Common.StrUtil Model.MergeModel Model.ConfigModel
     Spec.C03Spec Spec.C06Spec Proofs.C03_merge Proofs.C03_order Proofs.C06_shapes Proofs.C06_refine
     Proofs.C06_held Proofs.C11_clone Proofs.C11_clone_into Proofs.C11_history
     Model.HeapMerge Proofs.C11_heap Proofs.C11_heap_abs.

(** [copy_dict] (the recursive copy used for every level) returns an equal
    dict: same keys, same order, same values, at every depth. *)
Theorem C11_copy_dict_identity : forall kids,
  wf (Node kids) = true -> copy_dict (Node kids) = Ok kids.
Proof. exact copy_dict_identity. Qed.

(** Guard [clone_guard c]: every level of [c] is a well-formed dict, the cache is
    the merge of the levels, and the system/user files have been looked for.
    "The cache is the merge of the levels" does NOT hold in every reachable
    state: an untracked edit of the cache -- through the raw dict handed out by
    get()/setdefault()/pop()/items() (F-C06h), or an in-place edit of a mutable
    leaf (list.append, set.add, bytearray.extend) -- and levels left unmerged by
    merge=False loads or re-pointings make the view differ from the merge of
    the levels; clone() copies the LEVELS and re-merges, so the clone then does
    not read like its original (the edit / the stale view is not carried over).
    Such states are outside the guard; the generator re-merges before cloning
    whenever the history before the clone contains such a call
    (harness/props/c11.py, gen_one), and F-C06h is registered for C11 as well.  MISSING for the full statement: the
    last conjunct -- a Config created with lazy=True whose base files were never
    loaded gets them loaded by clone() (F-C11c, refuted below) -- and cloning
    into a subclass whose global defaults disagree with the original's (F-C11b,
    refuted below).
    Under the guard, clone() yields a state equal to the original in every
    component: all nine levels, the deletions mask (the repaired F-C11), the
    found flags and the merged view. *)
Theorem C11_clone_faithful_partial : forall fs c,
  clone_guard c = true -> clone fs c None = (c, ONone).
Proof. exact clone_faithful. Qed.

Theorem C11_clone_view_equal_partial : forall fs c,
  clone_guard c = true ->
  c_cache (fst (clone fs c None)) = c_cache c /\ snd (clone fs c None) = ONone.
Proof. exact clone_view_equal. Qed.

Theorem C11_clone_levels_equal_partial : forall fs c,
  clone_guard c = true -> strip (fst (clone fs c None)) = strip c.
Proof. exact clone_levels_equal. Qed.

(** In particular deleted keys stay deleted in the clone. *)
Theorem C11_clone_keeps_deletions_partial : forall fs c,
  clone_guard c = true -> c_dels (fst (clone fs c None)) = c_dels c.
Proof. intros fs c H. rewrite clone_faithful by exact H. reflexivity. Qed.

(** F-C11c: the full statement fails for a lazy, never-loaded original. *)
Theorem C11_clone_view_equal_refuted_lazy :
  exists fs c, state_ok c = true /\ c_cache (fst (clone fs c None)) <> c_cache c.
Proof.
  exists [(("sys", "json"), FData (Node [("k", Leaf (VInt 1))]))].
  exists (blank (Node []) (Node []) (Some "sys") (Some "usr") None None "INVOKE_").
  split; [vm_compute; reflexivity|]. vm_compute. discriminate.
Qed.

(** Cloning INTO A SUBCLASS, the part that holds: if the subclass'
    [global_defaults()] ([g]) agree with the original's defaults at every path
    both define (same leaf value, or a section in both; [g] may define more),
    then whenever the clone is made it reads exactly like the original at every
    setting the original shows -- through all ten levels, the deletions
    included.  (The clone may show more: the subclass' own extra defaults.  It
    may also fail to be made, with AmbiguousMergeError, when an extra default of
    the subclass clashes in kind with a higher level of the original; that is
    the "type-consistent" quantifier.)  What is MISSING for the full statement is
    exactly the disagreement case, refuted next (F-C11b). *)
Theorem C11_clone_into_partial : forall fs c g cl,
  clone_guard c = true -> wf_node g = true -> agrees_with g (c_defaults c) ->
  clone fs c (Some g) = (cl, ONone) ->
  forall p, shape_at p (Node (c_cache c)) <> None ->
    shape_at p (Node (c_cache cl)) = shape_at p (Node (c_cache c)).
Proof. exact clone_into_partial. Qed.

(** Non-vacuity: a subclass with one agreeing and one extra default; the clone is
    made, reads the original's settings and the extra one. *)
Example C11_example_clone_into :
  let c := set_cache (set_user (set_system
            (blank (Node [("a", Leaf (VInt 1)); ("s", Node [("x", Leaf (VInt 2))])]) (Node [])
                   (Some "sys") (Some "usr") None None "INVOKE_")
            (Node []) FTrue (Some "py")) (Node []) FTrue (Some "py"))
            [("a", Leaf (VInt 1)); ("s", Node [("x", Leaf (VInt 2))])] in
  let g := Node [("a", Leaf (VInt 1)); ("s", Node [("y", Leaf (VInt 3))]); ("new", Leaf (VInt 9))] in
  clone_guard c = true /\ wf_node g = true /\
  snd (clone [] c (Some g)) = ONone /\
  c_cache (fst (clone [] c (Some g))) =
    [("a", Leaf (VInt 1)); ("s", Node [("x", Leaf (VInt 2)); ("y", Leaf (VInt 3))]); ("new", Leaf (VInt 9))].
Proof. vm_compute. repeat split; reflexivity. Qed.

(** F-C11b: cloning into a subclass lets the subclass' global defaults override
    a default the original defines. *)
Theorem C11_clone_into_refuted :
  exists fs c g p, clone_guard c = true /\
    shape_at p (Node (c_cache c)) <> None /\
    shape_at p (Node (c_cache (fst (clone fs c (Some g))))) <> shape_at p (Node (c_cache c)).
Proof.
  exists [].
  exists (set_cache (set_user (set_system
            (blank (Node [("a", Leaf (VInt 1))]) (Node []) (Some "sys") (Some "usr") None None "INVOKE_")
            (Node []) FTrue (Some "py")) (Node []) FTrue (Some "py")) [("a", Leaf (VInt 1))]).
  exists (Node [("a", Leaf (VInt 2)); ("new", Leaf (VInt 1))]), ["a"].
  split; [vm_compute; reflexivity|]. split; vm_compute; discriminate.
Qed.

(** * Clone fidelity over HISTORIES (the guard is an invariant)

    The theorems above are about a state; these are about how it was reached.
    Guard, all boolean: [S] is a schema (which paths are sections, which are
    leaves: the "type-consistent" quantifier); [good0 S c0]: the levels the
    constructor merged are well-formed dicts conforming to [S], no edits yet,
    cache = merge; [raw_files_ok c0]: the four file levels are well-formed dicts
    whether or not they take part; [base_loaded c0] (not lazy-and-never-loaded:
    F-C11c); every operation satisfies [op_ok S]: root-navigated reads, leaf
    writes ([c.a.b = v], [update], [setdefault(k[, leaf])]), and EVERY removal --
    [del], [pop(k)], [pop(k, default)] with ANY default (no condition on
    [dflt]: the stored value itself included), [popitem], [clear] -- plus
    load_defaults / load_overrides / load_collection of conforming data and
    load_shell_env.  Then the state after the history satisfies [clone_guard]
    and clone() returns an equal state: all levels, the deletions mask and the
    merged view -- at whatever point of the history the clone is taken, in
    particular right after a removal, with nothing in between that re-merges.
    MISSING for the full statement: dict-valued writes (F-C06a merges them),
    file-level reloads / merge=False loads / re-pointings inside the history,
    raw edits of handed-out dicts and mutable leaves (F-C06h), cloning into a
    subclass (C11_clone_into_partial), lazy originals (F-C11c). *)
Theorem C11_clone_after_history_partial : forall S fs c0 ops,
  is_node S = true -> good0 S c0 = true -> raw_files_ok c0 = true -> base_loaded c0 = true ->
  forallb (op_ok S) ops = true ->
  let c := fst (run fs c0 ops) in
  clone_guard c = true /\ clone fs c None = (c, ONone).
Proof. exact history_clone_faithful. Qed.

(** The same for histories WITH HELD PROXIES ([Hold]/[Via], the histories the
    correspondence runs): guard [sguard] = [op_ok] on every operation and, for an
    operation through a held proxy, its section still navigable in the live view
    (C06_refines_nested_dict_held_partial's guard). *)
Theorem C11_clone_after_held_history_partial : forall S fs c0 ops,
  is_node S = true -> good0 S c0 = true -> raw_files_ok c0 = true -> base_loaded c0 = true ->
  sguard S fs (sstart c0) ops = true ->
  let c := s_cfg (fst (srun fs (sstart c0) ops)) in
  clone_guard c = true /\ clone fs c None = (c, ONone).
Proof. exact session_clone_faithful. Qed.

(** pop(key, default) on a key that IS there, on a state reached by a guarded
    history, WHATEVER the default (it may be the very value stored: [dflt = Some t]):
    the stored value comes back, the key (and everything below it) is gone from
    the original's view, a clone taken at once equals the original -- deletions
    mask included -- and does not show the key either. *)
Theorem C11_pop_default_then_clone_partial : forall S fs c0 ops fl kp k dflt d0 t,
  is_node S = true -> good0 S c0 = true -> raw_files_ok c0 = true -> base_loaded c0 = true ->
  forallb (op_ok S) ops = true ->
  let c := fst (run fs c0 ops) in
  nav fl (c_cache c) kp = Ok d0 -> get k d0 = Some t ->
  let r := step fs c (Pop fl kp k dflt) in
  snd r = OVal t /\
  clone fs (fst r) None = (fst r, ONone) /\
  (forall q, shape_at ((kp ++ [k]) ++ q) (Node (c_cache (fst r))) = None) /\
  (forall q, shape_at ((kp ++ [k]) ++ q) (Node (c_cache (fst (clone fs (fst r) None)))) = None).
Proof. exact pop_default_then_clone_hist. Qed.

(** ... and on a key that is NOT there: the default comes back, nothing changes
    (so a clone taken next is as faithful as before). *)
Theorem C11_pop_missing_default_no_change : forall fs c fl kp k dv d0,
  nav fl (c_cache c) kp = Ok d0 -> get k d0 = None ->
  step fs c (Pop fl kp k (Some dv)) = (c, OVal dv).
Proof. exact pop_missing_default_no_change. Qed.

(** Non-vacuity: a schema, a constructed configuration, and a history that ends
    in pop(key, <the value stored>) at top level (None / None), in a nested
    section (0 / 0), of a whole section, of a missing key, setdefault, popitem;
    the guard holds, the keys popped are recorded as deleted, absent from the
    original and from the clone. *)
Example C11_example_history :
  let S := Node [("a", Node [("x", Leaf (VInt 0)); ("y", Leaf (VInt 0)); ("z", Leaf VNone)]);
                 ("b", Node [("p", Leaf (VStr ""))]);
                 ("k", Leaf (VInt 0)); ("n", Leaf VNone); ("t", Leaf (VBool true))] in
  let i := mkInit (Node [("a", Node [("x", Leaf (VInt 0)); ("y", Leaf (VInt 0))]);
                         ("b", Node [("p", Leaf (VStr "v"))]);
                         ("k", Leaf (VInt 1)); ("n", Leaf VNone)])
                  (Node [("a", Node [("y", Leaf (VInt 7))])]) None None false in
  let ops := [ SetV Item ["a"] "z" (Leaf VNone);
               Pop Item [] "n" (Some (Leaf VNone));               (* None is None *)
               Pop Attr ["a"] "x" (Some (Leaf (VInt 0)));          (* 0 is 0 *)
               Pop Item ["a"] "z" (Some (Leaf VNone));
               Pop Item [] "zz" (Some (Leaf (VInt 1)));            (* missing *)
               SetDefault Item [] "t" (Some (Leaf (VBool true)));
               Pop Item [] "t" (Some (Leaf (VBool true)));
               Pop Item [] "b" (Some (Node [("p", Leaf (VStr "v"))])) ] in   (* a whole section *)
  match start [] i with
  | Ok c0 =>
      is_node S = true /\ good0 S c0 = true /\ raw_files_ok c0 = true /\ base_loaded c0 = true /\
      forallb (op_ok S) ops = true /\
      let c := fst (run [] c0 ops) in
      c_dels c = [("n", Leaf VNone); ("a", Node [("x", Leaf VNone); ("z", Leaf VNone)]);
                  ("t", Leaf VNone); ("b", Leaf VNone)] /\
      c_cache c = [("a", Node [("y", Leaf (VInt 7))]); ("k", Leaf (VInt 1))] /\
      c_cache (fst (clone [] c None)) = c_cache c /\ c_dels (fst (clone [] c None)) = c_dels c
  | Err _ => False
  end.
Proof. vm_compute. repeat split; reflexivity. Qed.

(** A test, not the property: on every history of at most 3 operations from a
    14-letter alphabet (writes, nested writes, deletions, pop, pop with a
    default equal to the value stored, clear, reloads, dict write -- the last
    one outside the guard of the history theorems) over a two-level
    configuration, the guard holds afterwards and clone() returns an equal
    state. *)
Definition sweep_alphabet : list op :=
  [ SetV Item ["a"] "x" (Leaf (VInt 1)); SetV Attr [] "k" (Leaf (VInt 2));
    SetV Item [] "n" (Node [("m", Leaf (VInt 1))]); SetV Item [] "a" (Node [("x", Leaf (VInt 7))]);
    Del Item ["a"] "x"; Del Attr [] "a"; Del Item [] "k"; Pop Item ["a"] "y" None;
    Pop Item ["a"] "y" (Some (Leaf (VInt 0))); Pop Attr [] "k" (Some (Leaf (VInt 1)));
    Clear Item ["a"]; SetDefault Item ["a"] "z" (Some (Leaf (VInt 2)));
    LoadDefaults (Node [("a", Node [("x", Leaf (VInt 5))])]);
    LoadOverrides (Node [("a", Node [("y", Leaf (VInt 7))])]) ].

Fixpoint histories (n : nat) : list (list op) :=
  match n with
  | O => [[]]
  | S n' => [] :: flat_map (fun h => map (fun o => o :: h) sweep_alphabet) (histories n')
  end.

Definition sweep_start : result cfg :=
  start [] (mkInit (Node [("a", Node [("x", Leaf (VInt 0)); ("y", Leaf (VInt 0))]); ("k", Leaf (VInt 1))])
                   (Node []) None None false).

Definition sweep_ok (h : list op) : bool :=
  match sweep_start with
  | Err _ => false
  | Ok c0 =>
      let c := fst (run [] c0 h) in
      clone_guard c &&
      match clone [] c None with
      | (c', ONone) => tree_eqb (Node (c_cache c')) (Node (c_cache c)) &&
                       tree_eqb (Node (c_dels c')) (Node (c_dels c)) &&
                       tree_eqb (Node (c_mods c')) (Node (c_mods c))
      | _ => false
      end
  end.

Theorem C11_clone_faithful_bounded_3 : forallb sweep_ok (histories 3) = true.
Proof. vm_compute. reflexivity. Qed.

(** Non-vacuity: a state after a nested write and a deletion satisfies the guard. *)
Example C11_example_guard :
  match sweep_start with
  | Ok c0 =>
      let c := fst (run [] c0 [SetV Item ["a"] "z" (Leaf (VInt 5)); Del Item [] "k"]) in
      clone_guard c = true /\ c_dels c = [("k", Leaf VNone)] /\
      c_cache c = [("a", Node [("x", Leaf (VInt 0)); ("y", Leaf (VInt 0)); ("z", Leaf (VInt 5))])]
  | Err _ => False
  end.
Proof. vm_compute. repeat split; reflexivity. Qed.

(** * Independence and non-mutation on the explicit heap

    [hwf h]: every reference of the heap points to an object of the heap.
    [reach h a x]: object [x] is reachable from object [a] through dict values.
    [merge_h fuel b u h = Ok h']: merge_dicts(base, updates) ran to completion
    on the objects at addresses [b], [u] (no type conflict, no dict resized under
    iteration, enough fuel), leaving heap [h'].  No hypothesis restricts sharing
    between or inside [base] and [updates]. *)

(** merge_dicts writes only objects reachable from [base]: every other object
    -- in particular everything hanging off [updates] only -- is bit-for-bit
    unchanged. *)
Theorem C11_merge_writes_only_base : forall f b u h h',
  hwf h -> b < List.length h -> merge_h f b u h = Ok h' ->
  forall z, z < List.length h -> ~ reach h b z -> hget h' z = hget h z.
Proof. exact merge_writes_only_base. Qed.

(** Everything reachable from [base] afterwards was reachable from it before or
    was allocated by the call: no object of [updates] (or of anything else) is
    adopted by reference. *)
Theorem C11_merge_adopts_nothing : forall f b u h h',
  hwf h -> b < List.length h -> merge_h f b u h = Ok h' ->
  forall x, reach h' b x -> reach h b x \/ List.length h <= x.
Proof. exact merge_no_adoption. Qed.

(** If [base] and [updates] shared no object before, [updates] is untouched,
    reaches exactly what it reached, and they share no object afterwards. *)
Theorem C11_merge_no_new_sharing : forall f b u h h',
  hwf h -> b < List.length h -> u < List.length h -> merge_h f b u h = Ok h' ->
  (forall z, reach h b z -> reach h u z -> False) ->
  (forall z, reach h u z -> hget h' z = hget h z) /\
  (forall z, reach h' u z <-> reach h u z) /\
  (forall z, reach h' b z -> reach h' u z -> False).
Proof. exact merge_no_new_sharing. Qed.

(** copy_dict: the result is a new object, no existing object changes, and
    every object reachable from the result was allocated by the call -- whatever
    sharing the source had. *)
Theorem C11_copy_fresh : forall f src h a h',
  hwf h -> copy_h f src h = Ok (a, h') ->
  a = List.length h /\ hwf h' /\ List.length h < List.length h' /\
  (forall z, z < List.length h -> hget h' z = hget h z) /\
  (forall x, reach h' a x -> List.length h <= x).
Proof. exact copy_fresh. Qed.

(** clone's copies of the dict-valued levels: no existing object changes, each
    copy consists of fresh objects only, and the copies are pairwise disjoint. *)
Theorem C11_clone_levels_fresh : forall f roots h l h',
  hwf h -> clone_levels_h f roots h = Ok (l, h') ->
  hwf h' /\ List.length h <= List.length h' /\
  (forall z, z < List.length h -> hget h' z = hget h z) /\
  Forall (fun a => a < List.length h' /\ forall x, reach h' a x -> List.length h <= x) l /\
  ForallOrdPairs (fun a1 a2 => forall x, reach h' a1 x -> reach h' a2 x -> False) l.
Proof. exact clone_levels_fresh. Qed.

(** The clone's levels share no object with anything that existed before the
    clone -- the original's levels and every caller-held dict included. *)
Theorem C11_clone_shares_nothing : forall f roots h l h',
  hwf h -> clone_levels_h f roots h = Ok (l, h') ->
  forall r a x, In a l -> r < List.length h -> reach h' r x -> reach h' a x -> False.
Proof. exact clone_shares_nothing. Qed.

(** * The heap model is the pure model with identities added

    [rep h t a]: object [a] reads as the pure tree [t] (same keys, same order,
    same values at every depth; sharing allowed).  [own h t a F]: moreover [a]
    is a tree in the heap occupying exactly the objects [F] ([NoDup F]: no
    internal sharing).
    If [base] is such a tree and shares no object with [updates] (which may
    share sub-dicts internally as it likes), then merge_dicts on the heap fails
    exactly when the pure merge_dicts of the two readings fails (with the same
    error), and otherwise leaves [base] reading as the pure result and still a
    tree.  So the heap model and MergeModel.v are one story. *)
Theorem C11_heap_refines_pure_merge : forall f h b u db us F,
  depth (Node us) <= f -> wf (Node us) = true -> hwf h ->
  own h (Node db) b F -> NoDup F -> rep h (Node us) u ->
  (forall z, In z F -> reach h u z -> False) ->
  match merge_dicts db (Node us) with
  | Ok dm => exists h' F', merge_h f b u h = Ok h' /\ own h' (Node dm) b F' /\ NoDup F' /\
                           rep h' (Node dm) b
  | Err e => merge_h f b u h = Err e
  end.
Proof. exact merge_h_refines_merge_dicts. Qed.

(** copy_dict on the heap yields a tree reading as the pure copy_dict of the
    source's reading -- whatever sharing the source has. *)
Theorem C11_heap_refines_pure_copy : forall f h src us,
  depth (Node us) <= f -> wf (Node us) = true -> hwf h -> rep h (Node us) src ->
  match copy_dict (Node us) with
  | Ok dm => exists a h' F', copy_h f src h = Ok (a, h') /\ own h' (Node dm) a F' /\ NoDup F'
  | Err e => copy_h f src h = Err e
  end.
Proof. exact copy_h_refines_copy_dict. Qed.

(** [rep] is what the executable reader used by the correspondence computes. *)
Theorem C11_rep_is_hview : forall t h a f, rep h t a -> depth t <= f -> hview f h a = Some t.
Proof. exact rep_hview. Qed.

(** Non-vacuity: a heap where [updates] shares one sub-dict between two keys and
    [base] holds an empty placeholder section; the merge succeeds, the
    placeholder is filled by value, the shared object is neither written nor
    adopted. *)
Example C11_example_heap :
  let h := [ [("s", HRef 2); ("k", HLeaf (VInt 1))];          (* 0: base *)
             [("s", HRef 3); ("t", HRef 3)];                  (* 1: updates, sharing object 3 *)
             [];                                              (* 2: base.s, empty placeholder *)
             [("x", HLeaf (VInt 7))] ] in                     (* 3 *)
  merge_h 8 0 1 h =
    Ok [ [("s", HRef 2); ("k", HLeaf (VInt 1)); ("t", HRef 4)];
         [("s", HRef 3); ("t", HRef 3)];
         [("x", HLeaf (VInt 7))];
         [("x", HLeaf (VInt 7))];
         [("x", HLeaf (VInt 7))] ].
Proof. vm_compute. reflexivity. Qed.
