(** C13 -- input-stream text reaches the command complete, in order, then EOF.
    Statements only; proofs in Proofs/C13_stdin.v.
    [wf_script]: data units are non-empty values (an empty value is the stream's
    EOF signal, written [SEof]); "encodable": the text can be represented in the
    effective encoding (otherwise the worker dies with UnicodeEncodeError --
    outside the statement). *)
From InvokeVerif Require Import Corr.C13Corr Proofs.C02_decode Proofs.C13_stdin Proofs.C13_streams.
Local Open Scope N_scope.

(** Each delivered unit is written to the command's stdin exactly once, in
    order, encoded; the worker does not die. *)
Theorem C13_forward_in_order_once :
  forall m e pty echo s,
    wf_script m e s = true ->
    forallb (encodable e) (texts_of m e (deliverable false s)) = true ->
    so_writes (handle_stdin m e pty echo false false s) =
      map (enc_or_nil e) (texts_of m e (deliverable false s)) /\
    so_died (handle_stdin m e pty echo false false s) = false.
Proof. exact forward_in_order_once. Qed.

(** The command's stdin is closed exactly once when the input stream is seen
    exhausted and no pty is used; never with a pty; never otherwise. *)
Theorem C13_close_once_on_eof :
  forall m e pty echo s,
    wf_script m e s = true ->
    forallb (encodable e) (texts_of m e (deliverable false s)) = true ->
    so_closes (handle_stdin m e pty echo false false s) =
      (if pty then 0 else if eof_reached false s then 1 else 0)%nat.
Proof. exact close_once_on_eof. Qed.

(** Whatever was read before the command finished has been forwarded (the writes
    start with exactly those units). *)
Theorem C13_all_data_before_finish_delivered :
  forall m e pty echo s,
    wf_script m e s = true ->
    forallb (encodable e) (texts_of m e (deliverable false s)) = true ->
    exists rest,
      so_writes (handle_stdin m e pty echo false false s) =
      map (enc_or_nil e) (texts_of m e (before_finish s)) ++ rest.
Proof. exact all_data_before_finish_delivered. Qed.

(** Once the command has finished the worker leaves its loop (no guard at all:
    also when it dies, for any script) ... *)
Theorem C13_terminates_after_finish :
  forall m e pty echo s closed fin,
    fin || finishes s = true -> so_terminated (handle_stdin m e pty echo closed fin s) = true.
Proof. exact terminates_after_finish. Qed.

(** ... after at most (units already available) + 1 further reads. *)
Theorem C13_reads_after_finish_bounded :
  forall s, (reads_used true s <= List.length (deliverable true s) + 1)%nat.
Proof. exact reads_after_finish_bounded. Qed.

(** Echo: requested explicitly, or by default for terminal input without a pty
    (finite table 3 x 2 x 2; definitional -- model and spec state the same rule in
    two ways; the tie to the code is the correspondence), and then exactly the
    forwarded text. *)
Theorem C13_echo_table :
  forall echo pty tty, echo_effective echo pty tty = echo_wanted echo pty tty.
Proof. exact echo_table. Qed.

Theorem C13_echo_text :
  forall m e pty echo s,
    wf_script m e s = true ->
    forallb (encodable e) (texts_of m e (deliverable false s)) = true ->
    so_echo (handle_stdin m e pty echo false false s) =
      if echo then texts_of m e (deliverable false s) else [].
Proof. exact echo_text. Qed.

(** Input stream disabled: nothing forwarded, nothing closed, nothing echoed;
    watcher responses still reach the command.  (Definitional: [stdin_model] has no
    stdin worker then, exactly as create_io_threads creates none.) *)
Theorem C13_disabled_forwards_nothing :
  forall e echo pty s resp,
    stdin_model (mkSin e None echo pty s resp) = mkSobs (Some []) 0 [] true (encode e (List.concat resp)).
Proof. exact disabled_forwards_nothing. Qed.

(** Flagship: the model satisfies the executable spec on all inputs ...
    FALSE at full strength: byte-mode streams are decoded one read at a time (F-C13) *)
Theorem C13_stdin_meets_spec_refuted :
  exists i, (match si_stream i with Some (m, _) => wf_script m (si_enc i) (si_script i) | None => true end) = true
            /\ spec_in i (stdin_model i) = false.
Proof. exact stdin_meets_spec_refuted. Qed.

(** ... true for every text-mode stream and for byte-mode streams whose reads end
    between characters (missing: a byte-mode read boundary inside a character) ... *)
Theorem C13_stdin_meets_spec_partial :
  forall i, stdin_guard i = true -> spec_in i (stdin_model i) = true.
Proof. exact stdin_meets_spec_partial. Qed.

(** ... in particular, unguarded (beyond well-formedness), for text-mode streams
    and for a disabled input stream. *)
Theorem C13_stdin_meets_spec_text_mode :
  forall i,
    (match si_stream i with
     | Some (MBytes, _) => false
     | Some (MText, _) => wf_script MText (si_enc i) (si_script i)
     | None => true
     end) = true -> spec_in i (stdin_model i) = true.
Proof. exact stdin_meets_spec_text. Qed.

(** ** The kind of input stream (real, non-terminal text streams of any length).

    [real_in k e echo pty p t]: the input stream is an in-memory text stream
    ([KMemory]), a regular file opened in text mode ([KFile]), the read end of a pipe
    behind a TextIOWrapper ([KPipe]) or a duck-typed object with a descriptor
    ([KProxy]); [t] is the text its text layer yields (decoded with the FILE's
    encoding, newlines translated as the file was opened) -- of any length, no bound;
    the command finishes before read number [p].  Model/InStreamModel.v: the code
    asks every non-terminal stream for one character at a time through the object's
    own [read], whatever it is. *)

(** The command receives exactly the text, encoded in the effective encoding;
    its stdin is closed once (never under a pty); the text is mirrored exactly when
    wanted; the worker leaves its loop. *)
Theorem C13_real_stream_receives_whole_text :
  forall k e echo pty p t w,
    encode e t = Some w ->
    stdin_model (real_in k e echo pty p t) =
    mkSobs (Some w) (if pty then 0 else 1)%nat (if echo_wanted echo pty false then t else []) true (Some []).
Proof. exact real_stream_receives_whole_text. Qed.

(** Neither the kind of stream nor the moment the command finishes changes anything
    that is observed (no guard: also when the text is not encodable). *)
Theorem C13_stream_kind_irrelevant :
  forall k1 k2 e echo pty p q t,
    stdin_model (real_in k1 e echo pty p t) = stdin_model (real_in k2 e echo pty q t).
Proof. exact real_stream_independent. Qed.

(** Against the executable spec, which is told only "this text is on the stream,
    then end-of-file; the command finishes" ([spec_view]: no reads, no kinds): no guard. *)
Theorem C13_real_stream_meets_spec :
  forall k e echo pty p t,
    spec_in (spec_view e echo pty t) (stdin_model (real_in k e echo pty p t)) = true.
Proof. exact real_stream_meets_spec. Qed.

(** The same through the correspondence record of the checked cases: a real-stream
    case whose observation is the model's passes [corr] and [spec]. *)
Theorem C13_real_case_model_meets_spec :
  forall i k p t,
    si_stream i = Some (MText, false) -> si_responses i = [] ->
    let o := stdin_model (real_in k (si_enc i) (si_echo i) (si_pty i) p t) in
    corr (mk i (Some (mkReal k p t)) true true true o) = true /\
    spec (mk i (Some (mkReal k p t)) true true true o) = true.
Proof. exact real_case_model_meets_spec. Qed.

(** Findings witnessed on real processes only.  F-C13b (buffered text stream over an
    open pipe strands characters), F-C13c (a BOM per read for BOM encodings), F-C13d
    (a multi-byte key typed at a terminal is held back) and F-C12d (a watcher response
    after the input's EOF hits the closed pipe) have NO [_refuted] theorem here: the
    model has three BOM-less codecs, scripted streams whose reads never block, and
    keeps responses apart from the stdin worker's writes.  They are attributed by the
    real-child checks of harness/props/c13.py, each by its specific symptom, without
    a model that agrees. *)

(** Non-vacuity. *)
Example C13_ex_text_run :       (* "h", e-acute, then the command finishes with "!" already available, then EOF *)
  let i := mkSin Utf8 (Some (MText, true)) None false
                 [SData [104]; SNotReady; SData [233]; SFinish; SData [33]; SEof; SData [120]] [[121]] in
  stdin_guard i = true /\
  stdin_model i = mkSobs (Some [104; 195; 169; 33]) 1 [104; 233; 33] true (Some [121]).
Proof. vm_compute. split; reflexivity. Qed.

Example C13_ex_bytes_guard :    (* byte-mode, whole characters per read: inside the guard *)
  let i := mkSin Utf8 (Some (MBytes, false)) (Some true) true [SData [195; 169]; SData [97]; SEof; SFinish] [] in
  stdin_guard i = true /\ stdin_model i = mkSobs (Some [195; 169; 97]) 0 [233; 97] true (Some []).
Proof. vm_compute. split; reflexivity. Qed.

Example C13_ex_witness :        (* the refutation witness: two U+FFFD (EF BF BD) instead of C3 A9 *)
  stdin_model witness_c13 = mkSobs (Some [239; 191; 189; 239; 191; 189]) 1 [] true (Some []).
Proof. vm_compute. reflexivity. Qed.

Example C13_ex_real_stream :    (* a file holding "x", U+1F600, e-acute, LF; the command finishes after two reads; echo on *)
  let t := [120; 128512; 233; 10] in
  encode Utf8 t = Some [120; 240; 159; 152; 128; 195; 169; 10] /\
  real_script KFile 2 t = [SData [120]; SData [128512]; SFinish; SData [233]; SData [10]; SEof] /\
  stdin_model (real_in KFile Utf8 (Some true) false 2 t) =
    mkSobs (Some [120; 240; 159; 152; 128; 195; 169; 10]) 1 t true (Some []) /\
  stdin_model (real_in KPipe Utf8 (Some true) false 9 t) = stdin_model (real_in KFile Utf8 (Some true) false 2 t).
Proof. vm_compute. repeat split; reflexivity. Qed.
