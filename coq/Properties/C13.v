From InvokeVerif Require Import Corr.C13Corr.
