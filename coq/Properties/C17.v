(** C17 -- A task's namespace settings are the deep merge along its path,
    outer wins.  Statements only; proofs are in Proofs/C17_path.v,
    Proofs/C17_merge.v, Proofs/CollStrings.v.

    The "fresh copy" half of the property is an aliasing statement; the
    functional model has no sharing, so it is checked on the real objects by
    snapshot comparison (harness/props/c17.py, extra check
    "fresh-copy-snapshot"), not by a theorem.

    History: the unguarded statement used to be false of the faithful model for
    names resolving through a default *sub-collection* (F-C17b, found by this
    check); /repo commit 432fa0a repaired the code, the model follows the code,
    and the theorem below no longer has that guard. *)
From InvokeVerif Require Import Model.CollModel Spec.C17Spec Corr.C17Corr Proofs.C17_path
     Proofs.C10_build Proofs.C17_built Proofs.C17_spelling.

(** Flagship.  For EVERY built tree [c] and EVERY name, what the model of
    [Collection.task_with_config] returns is accepted by the executable
    specification: if [name] is a canonical name, alias or default shortcut
    (default task or default sub-collection, at any depth) of a task
    (reference walk [ref_path]) and the configurations on its path are
    type-consistent, the result is that task together with, at every setting
    path, the value of the outermost collection on the path that defines it,
    and nothing else (siblings contribute nothing).
    Hypothesis [ns_canon]: binding names are fixed points of their collection's
    [transform], dot-free and non-empty -- an invariant of trees built by
    [add_task]/[add_collection] from dot-free non-empty names.
    Inside [spec_ok]: trees where bindings of one collection collide
    ([ns_wf]) and type-inconsistent configurations along the path (where
    merge_dicts raises AmbiguousMergeError) are outside the statement. *)
Theorem C17_path_deep_merge : forall c name,
  ns_canon c = true ->
  spec_ok c name (model_obs c name) = true.
Proof. exact model_meets_spec. Qed.

(** End to end: for EVERY script of [Collection(...)] / [add_task] /
    [add_collection] / [configure] / [from_module] calls whose names are
    dot-free and non-empty, if the script builds a tree, then every lookup on
    that tree meets the specification (the hypothesis [ns_canon] above is an
    invariant of [build]). *)
Theorem C17_path_deep_merge_built : forall script c name,
  names_plain script = true -> build script = Ok c ->
  C17Spec.spec_ok c name (model_obs c name) = true.
Proof. exact built_meets_spec. Qed.

(** "Whichever name ... the task was invoked by" also covers spellings: two
    names whose segments normalise alike (the specification's own
    [norm_name], proved equal to the implementation's transform) get the same
    task and the same configuration from the model, on every tree. *)
Theorem C17_spelling_invariant : forall c a b,
  same_spelling a b = true -> model_obs c a = model_obs c b.
Proof. exact spelling_invariance. Qed.

Theorem C17_norm_is_transform : forall ad n, norm_name ad n = transform ad n.
Proof. exact norm_name_transform. Qed.

(** The same in Prop form, without the executable wrapper. *)
Theorem C17_setting_from_outermost : forall c name t cfgs,
  ns_wf c = true -> ns_canon c = true ->
  ref_path c (segs_of name) = Some (t, cfgs) -> all_compatible cfgs = true ->
  exists d, task_with_config c name = Ok (t, d) /\ wf (Node d) = true /\
            forall p, leaf_at p (Node d) = first_some (map (fun g => leaf_at p (Node g)) cfgs).
Proof. exact path_deep_merge. Qed.

(** Outer wins at each individual setting ... *)
Theorem C17_outer_wins : forall c name t cfg_outer cfgs_inner p v,
  ns_wf c = true -> ns_canon c = true ->
  ref_path c (segs_of name) = Some (t, cfg_outer :: cfgs_inner) ->
  all_compatible (cfg_outer :: cfgs_inner) = true ->
  leaf_at p (Node cfg_outer) = Some v ->
  exists d, configuration c name = Ok d /\ leaf_at p (Node d) = Some v.
Proof. exact outer_wins. Qed.

(** ... and inner settings are otherwise preserved, at any depth. *)
Theorem C17_inner_preserved : forall c name t cfg_outer cfgs_inner p,
  ns_wf c = true -> ns_canon c = true ->
  ref_path c (segs_of name) = Some (t, cfg_outer :: cfgs_inner) ->
  all_compatible (cfg_outer :: cfgs_inner) = true ->
  leaf_at p (Node cfg_outer) = None ->
  exists d, configuration c name = Ok d /\
            leaf_at p (Node d) = first_some (map (fun g => leaf_at p (Node g)) cfgs_inner).
Proof. exact inner_preserved. Qed.

(** The former F-C17b witness (root > sub, whose default is the collection
    inner, > inner > t): the default shortcut "sub" and the full name now give
    the same three-level deep merge. *)
Example C17_default_subcollection_shortcut :
  ns_wf w_root = true /\ ns_canon w_root = true /\
  configuration w_root "sub" = configuration w_root "sub.inner.t" /\
  configuration w_root "sub" =
  Ok [("k", Node [("deep", Leaf (VInt 1)); ("mid", Leaf (VInt 2)); ("top", Leaf (VInt 3))])].
Proof. exact default_subcollection_shortcut. Qed.

(** Non-vacuity: a tree inside every hypothesis whose task is reached through
    an alias below the root, two type-consistent configurations with an
    overlapping section on its path. *)
Example C17_example_hypotheses_inhabited :
  ns_wf ex_root = true /\ ns_canon ex_root = true /\
  (exists t cfgs, ref_path ex_root (segs_of "inner.mt") = Some (t, cfgs) /\ all_compatible cfgs = true
                  /\ List.length cfgs = 2) /\
  configuration ex_root "inner" =
  Ok [("k", Node [("x", Leaf (VInt 9)); ("z", Node [("p", Leaf (VBool true))]); ("y", Leaf (VStr "o"))])].
Proof. exact example_guards. Qed.
