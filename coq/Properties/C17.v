(** C17 -- A task's namespace settings are the deep merge along its path,
    outer wins.  Statements only; proofs are in Proofs/C17_path.v,
    Proofs/C17_merge.v, Proofs/CollStrings.v.

    The "fresh copy" half of the property is an aliasing statement; the
    functional model has no sharing, so it is checked on the real objects by
    snapshot comparison (harness/props/c17.py, extra check
    "fresh-copy-snapshot"), not by a theorem. *)
From InvokeVerif Require Import Model.CollModel Spec.C17Spec Corr.C17Corr Proofs.C17_path.

(** Flagship, proved form.  For EVERY built tree [c] and EVERY name, what the
    model of [Collection.task_with_config] returns is accepted by the
    executable specification: if [name] is a canonical name/alias/default-task
    shortcut of a task (reference walk [ref_path]) and the configurations on
    its path are type-consistent, the result is that task with, at every
    setting path, the value of the outermost collection on the path defining
    it, and nothing else (siblings contribute nothing).
    Guards: [ns_canon] (binding names are transform-fixed, dot-free,
    non-empty -- what [add_task]/[add_collection] store for dot-free names);
    [no_default_subcollection]: no collection designates a sub-collection as
    its default.  What is missing from full strength is exactly that second
    guard: see the refutation below (F-C17b).  Type-inconsistent
    configurations and trees with colliding bindings are outside the statement
    (inside [spec_ok]). *)
Theorem C17_path_deep_merge_partial : forall c name,
  ns_canon c = true -> no_default_subcollection c = true ->
  spec_ok c name (model_obs c name) = true.
Proof. exact model_meets_spec. Qed.

(** The same in Prop form, without the executable wrapper. *)
Theorem C17_setting_from_outermost_partial : forall c name t cfgs,
  ns_wf c = true -> ns_canon c = true -> no_default_subcollection c = true ->
  ref_path c (segs_of name) = Some (t, cfgs) -> all_compatible cfgs = true ->
  exists d, task_with_config c name = Ok (t, d) /\ wf (Node d) = true /\
            forall p, leaf_at p (Node d) = first_some (map (fun g => leaf_at p (Node g)) cfgs).
Proof. exact path_deep_merge. Qed.

(** Outer wins at each individual setting ... *)
Theorem C17_outer_wins_partial : forall c name t cfg_outer cfgs_inner p v,
  ns_wf c = true -> ns_canon c = true -> no_default_subcollection c = true ->
  ref_path c (segs_of name) = Some (t, cfg_outer :: cfgs_inner) ->
  all_compatible (cfg_outer :: cfgs_inner) = true ->
  leaf_at p (Node cfg_outer) = Some v ->
  exists d, configuration c name = Ok d /\ leaf_at p (Node d) = Some v.
Proof. exact outer_wins. Qed.

(** ... and inner settings are otherwise preserved, at any depth. *)
Theorem C17_inner_preserved_partial : forall c name t cfg_outer cfgs_inner p,
  ns_wf c = true -> ns_canon c = true -> no_default_subcollection c = true ->
  ref_path c (segs_of name) = Some (t, cfg_outer :: cfgs_inner) ->
  all_compatible (cfg_outer :: cfgs_inner) = true ->
  leaf_at p (Node cfg_outer) = None ->
  exists d, configuration c name = Ok d /\
            leaf_at p (Node d) = first_some (map (fun g => leaf_at p (Node g)) cfgs_inner).
Proof. exact inner_preserved. Qed.

(** The unguarded statement is FALSE of the faithful model (F-C17b): a name
    resolving through a default sub-collection loses the settings of the
    collections below it.  Witness: root > sub (default = collection inner) >
    inner > t; [configuration "sub"] lacks inner's [k.deep]. *)
Theorem C17_path_deep_merge_refuted_default_subcollection :
  exists c name, ns_wf c = true /\ ns_canon c = true /\
                 spec_ok c name (model_obs c name) = false.
Proof. exact refuted_default_subcollection. Qed.

(** Non-vacuity: a tree inside every guard whose task is reached through an
    alias below the root, two type-consistent configurations with an
    overlapping section on its path. *)
Example C17_example_guards_inhabited :
  ns_wf ex_root = true /\ ns_canon ex_root = true /\ no_default_subcollection ex_root = true /\
  (exists t cfgs, ref_path ex_root (segs_of "inner.mt") = Some (t, cfgs) /\ all_compatible cfgs = true
                  /\ List.length cfgs = 2) /\
  configuration ex_root "inner" =
  Ok [("k", Node [("x", Leaf (VInt 9)); ("z", Node [("p", Leaf (VBool true))]); ("y", Leaf (VStr "o"))])].
Proof. exact example_guards. Qed.
