(** C17 -- A task's namespace settings are the deep merge along its path,
    outer wins.  Statements only; proofs are in Proofs/C17_path.v,
    Proofs/C17_merge.v, Proofs/CollStrings.v.

    The "fresh copy" half of the property is an aliasing statement; the
    functional model has no sharing, so it is checked on the real objects by
    snapshot comparison (harness/props/c17.py, extra check
    "fresh-copy-snapshot"), not by a theorem.

    History: the unguarded statement used to be false of the faithful model for
    names resolving through a default *sub-collection* (F-C17b, found by this
    check); /repo commit 432fa0a repaired the code, the model follows the code,
    and the theorem below no longer has that guard. *)
From InvokeVerif Require Import Model.CollModel Spec.C17Spec Corr.C17Corr Proofs.C17_path
     Proofs.C10_build Proofs.C17_built Proofs.C17_spelling Model.CollHist Proofs.C17_hist.

(** Flagship.  For EVERY built tree [c] and EVERY name, what the model of
    [Collection.task_with_config] returns is accepted by the executable
    specification: if [name] is a canonical name, alias or default shortcut
    (default task or default sub-collection, at any depth) of a task
    (reference walk [ref_path]) and the configurations on its path are
    type-consistent, the result is that task together with, at every setting
    path, the value of the outermost collection on the path that defines it,
    and nothing else (siblings contribute nothing).
    Hypothesis [ns_canon]: binding names are fixed points of their collection's
    [transform], dot-free and non-empty -- an invariant of trees built by
    [add_task]/[add_collection] from dot-free non-empty names.
    Inside [spec_ok]: trees where bindings of one collection collide
    ([ns_wf]) and type-inconsistent configurations along the path (where
    merge_dicts raises AmbiguousMergeError) are outside the statement. *)
Theorem C17_path_deep_merge : forall c name,
  ns_canon c = true ->
  spec_ok c name (model_obs c name) = true.
Proof. exact model_meets_spec. Qed.

(** End to end: for EVERY script of [Collection(...)] / [add_task] /
    [add_collection] / [configure] / [from_module] calls whose names are
    dot-free and non-empty, if the script builds a tree, then every lookup on
    that tree meets the specification (the hypothesis [ns_canon] above is an
    invariant of [build]). *)
Theorem C17_path_deep_merge_built : forall script c name,
  names_plain script = true -> build script = Ok c ->
  C17Spec.spec_ok c name (model_obs c name) = true.
Proof. exact built_meets_spec. Qed.

(** "Whichever name ... the task was invoked by" also covers spellings: two
    names whose segments normalise alike (the specification's own
    [norm_name], proved equal to the implementation's transform) get the same
    task and the same configuration from the model, on every tree. *)
Theorem C17_spelling_invariant : forall c a b,
  same_spelling a b = true -> model_obs c a = model_obs c b.
Proof. exact spelling_invariance. Qed.

Theorem C17_norm_is_transform : forall ad n, norm_name ad n = transform ad n.
Proof. exact norm_name_transform. Qed.

(** The same in Prop form, without the executable wrapper. *)
Theorem C17_setting_from_outermost : forall c name t cfgs,
  ns_wf c = true -> ns_canon c = true ->
  ref_path c (segs_of name) = Some (t, cfgs) -> all_compatible cfgs = true ->
  exists d, task_with_config c name = Ok (t, d) /\ wf (Node d) = true /\
            forall p, leaf_at p (Node d) = first_some (map (fun g => leaf_at p (Node g)) cfgs).
Proof. exact path_deep_merge. Qed.

(** Outer wins at each individual setting ... *)
Theorem C17_outer_wins : forall c name t cfg_outer cfgs_inner p v,
  ns_wf c = true -> ns_canon c = true ->
  ref_path c (segs_of name) = Some (t, cfg_outer :: cfgs_inner) ->
  all_compatible (cfg_outer :: cfgs_inner) = true ->
  leaf_at p (Node cfg_outer) = Some v ->
  exists d, configuration c name = Ok d /\ leaf_at p (Node d) = Some v.
Proof. exact outer_wins. Qed.

(** ... and inner settings are otherwise preserved, at any depth. *)
Theorem C17_inner_preserved : forall c name t cfg_outer cfgs_inner p,
  ns_wf c = true -> ns_canon c = true ->
  ref_path c (segs_of name) = Some (t, cfg_outer :: cfgs_inner) ->
  all_compatible (cfg_outer :: cfgs_inner) = true ->
  leaf_at p (Node cfg_outer) = None ->
  exists d, configuration c name = Ok d /\
            leaf_at p (Node d) = first_some (map (fun g => leaf_at p (Node g)) cfgs_inner).
Proof. exact inner_preserved. Qed.

(** The former F-C17b witness (root > sub, whose default is the collection
    inner, > inner > t): the default shortcut "sub" and the full name now give
    the same three-level deep merge. *)
Example C17_default_subcollection_shortcut :
  ns_wf w_root = true /\ ns_canon w_root = true /\
  configuration w_root "sub" = configuration w_root "sub.inner.t" /\
  configuration w_root "sub" =
  Ok [("k", Node [("deep", Leaf (VInt 1)); ("mid", Leaf (VInt 2)); ("top", Leaf (VInt 3))])].
Proof. exact default_subcollection_shortcut. Qed.

(** Non-vacuity: a tree inside every hypothesis whose task is reached through
    an alias below the root, two type-consistent configurations with an
    overlapping section on its path. *)
Example C17_example_hypotheses_inhabited :
  ns_wf ex_root = true /\ ns_canon ex_root = true /\
  (exists t cfgs, ref_path ex_root (segs_of "inner.mt") = Some (t, cfgs) /\ all_compatible cfgs = true
                  /\ List.length cfgs = 2) /\
  configuration ex_root "inner" =
  Ok [("k", Node [("x", Leaf (VInt 9)); ("z", Node [("p", Leaf (VBool true))]); ("y", Leaf (VStr "o"))])].
Proof. exact example_guards. Qed.

(** ** Build histories (Model/CollHist.v): ONE module object with an explicit
    namespace mounted several times into a root ([add_collection(module)] /
    [from_module(module, config=)]), configure() calls on single mounts, on the
    namespace object and on the root in between.  [from_module] copies, so: *)

(** "sibling collections contributing nothing", for mounts of one module:
    over ANY run of steps that neither configures the mount stored under [k]
    nor mounts something under that name again, what is stored under [k] --
    its configuration included -- stays what it was, whatever was configured
    on its sibling mounts, on the module's namespace object or on the root. *)
Theorem C17_sibling_mount_untouched : forall mn ops st st' k,
  hops_run mn st ops = Ok st' ->
  forallb (fun op => negb (touches (c_auto_dash (hs_root st)) k op)) ops = true ->
  assoc k (c_subs (hs_root st')) = assoc k (c_subs (hs_root st)).
Proof. exact hops_sibling_untouched. Qed.

(** ... a configure() on one mount rewrites that mount only (the root's own
    configuration, tasks, aliases and default included in "everything else") *)
Theorem C17_mount_configure_local : forall root key cfg root',
  conf_sub root key cfg = Ok root' ->
  (forall k', k' <> key -> assoc k' (c_subs root') = assoc k' (c_subs root)) /\
  c_config root' = c_config root /\ c_tasks root' = c_tasks root /\
  c_aliases root' = c_aliases root /\ c_default root' = c_default root.
Proof. exact conf_sub_local. Qed.

(** ... and the module's own namespace object is changed by configure() calls
    on IT only: mounting it and configuring its mounts leave it alone. *)
Theorem C17_module_namespace_untouched : forall mn ops st st',
  hops_run mn st ops = Ok st' ->
  forallb (fun op => match op with HConfNs _ => false | _ => true end) ops = true ->
  hs_ns st' = hs_ns st.
Proof. exact hops_ns_untouched. Qed.

(** Flagship over histories: for EVERY history with dot-free non-empty names
    that runs through, every lookup on the root it leaves behind (and on the
    module's namespace object) meets the executable specification. *)
Theorem C17_path_deep_merge_history : forall h st name,
  hist_plain h = true -> run_hist h = Ok st ->
  C17Spec.spec_ok (hs_root st) name (model_obs (hs_root st) name) = true /\
  C17Spec.spec_ok (hs_ns st) name (model_obs (hs_ns st) name) = true.
Proof. exact hist_meets_spec. Qed.

(** Non-vacuity (the scenario of seed C17-6 in the model): namespace with
    settings mounted as docs and www, www configured afterwards, then the
    namespace object: docs keeps the original source, www has its own, the
    namespace object has nothing of www's. *)
Example C17_history_mounts_independent :
  hist_plain ex_hist = true /\
  exists st, run_hist ex_hist = Ok st /\
    configuration (hs_root st) "docs.make" =
      Ok [("sphinx", Node [("source", Leaf (VStr "docs")); ("jobs", Leaf (VInt 2))])] /\
    configuration (hs_root st) "www" =
      Ok [("sphinx", Node [("source", Leaf (VStr "sites/www")); ("jobs", Leaf (VInt 2))])] /\
    c_config (hs_ns st) = [("sphinx", Node [("source", Leaf (VStr "docs")); ("late", Leaf (VBool true))])].
Proof. exact ex_hist_independent. Qed.
