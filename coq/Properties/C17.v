From InvokeVerif Require Import Corr.C17Corr.
