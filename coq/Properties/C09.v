(** C09 -- a task signature maps to a well-formed CLI whose parsed values
    always bind.  Statements only; proofs in Proofs/C09_*.v.

    Model: Model/SigModel.v (Task.arg_opts / get_arguments) and
    Model/SigCtxModel.v (ParserContext.add_arg tables, as_kwargs, bind).
    Guards (Spec/C09Spec.v): [wf_sig] = distinct ASCII identifiers whose dashed
    forms are pairwise distinct; [all_have_core], [no_inverse_clash] delimit the
    two known findings F-C09b/d (F-C09c was repaired by d208a4d).

    DISCLOSURE on refusals.  [spec_ok] accepts the answer "ValueError" exactly
    when the dashed forms of two parameter names coincide ([dashed_clash],
    e.g. [foo] and [foo_], [_a] and [a]).  This is not an exemption carved out for the
    implementation: the property demands "all flag names within the task
    being distinct" AND "exactly one argument per parameter, reachable through
    a well-formed long flag (underscores shown as dashes)".  For [foo]/[foo_]
    both parameters' documented long flag is [--foo]; no command-line
    interface satisfies both demands, so the only answers compatible with the
    property are to refuse the task or to violate one of its clauses, and
    refusing is the one that keeps every clause true of every task that is
    accepted.  [wf_sig]'s third conjunct is that premise; outside it the
    judgement is "must be refused" (an [Ok] answer is a violation), inside it
    "must be accepted" ([C09_accepted], full strength).  The same reading is
    applied to help=: a key naming no parameter (or two keys naming one) has no
    argument to sit on, and the documented answer is ValueError
    ([C09_help_unknown_refused]).

    The call.  "The keyword arguments produced for a task always bind to its
    function" is judged twice: [o_binds] ([inspect.signature(body).bind]) and
    [c_calls] of Corr/C09Corr.v (the task is really called through
    Executor.normalize and must hand every parameter its value).  Three known
    findings live here: F-C09e (a parameter named [self]), F-C09f
    (positional-only parameters), F-C09g (star-args / double-star kwargs). *)
From InvokeVerif Require Import Model.SigCtxModel Spec.C09Spec
     Proofs.C09_facts Proofs.C09_sig Proofs.C09_ctx Proofs.C09_wf Proofs.C09_main
     Proofs.C09_order Proofs.C09_bounded Proofs.C09_flagship Proofs.C09_help.
From Coq Require Import Permutation.

(** Exactly one argument per parameter, for every signature. *)
Theorem C09_one_arg_per_param :
  forall s, Permutation (map arg_name (get_arguments s)) (map p_name (s_params s)).
Proof. exact one_arg_per_param. Qed.

(** The main name is the dashed parameter name and its flag is the documented
    long flag, for every signature. *)
Theorem C09_long_flag :
  forall s a, In a (get_arguments s) ->
    main_of a = dashed (arg_name a) /\ to_flag (main_of a) = long_flag (arg_name a).
Proof. exact long_flag_of_arg. Qed.

(** ... which is well-formed as soon as the name has a non-underscore
    character.  Missing for full strength: names made of underscores only. *)
Theorem C09_long_flag_wellformed_partial :
  forall n, has_core n = true ->
    (exists c, long_flag n = String "-" (String c EmptyString)) \/
    (exists d, long_flag n = ("--" ++ d)%string /\ 2 <= String.length d).
Proof. exact long_flag_wellformed. Qed.

(** F-C09b: the parameter [_] is accepted and its only flag is "--". *)
Theorem C09_long_flag_wellformed_refuted :
  wf_sig sig_underscore = true /\
  exists o, sig_cli sig_underscore = Ok o /\ map fst (o_flags o) = ["--"] /\
            flags_wellformed sig_underscore o = false.
Proof. exact underscore_refutes. Qed.

(** At most one auto-assigned short flag: one character of the dashed name,
    never the dash. *)
Theorem C09_at_most_one_short :
  forall s a, In a (get_arguments s) ->
    a_names a = [main_of a] \/
    exists c, a_names a = [main_of a; String c EmptyString] /\ Ascii.eqb c dash = false /\
              String c EmptyString <> main_of a /\ contains_char c (main_of a) = true.
Proof. exact at_most_one_short. Qed.

(** All flag spellings (long and short) of an accepted well-formed signature
    are pairwise distinct -- full strength under [wf_sig] since the '-' repair. *)
Theorem C09_flags_distinct :
  forall s o, wf_sig s = true -> sig_cli s = Ok o -> NoDup (all_spellings o).
Proof. exact flags_distinct_thm. Qed.

(** Every well-formed signature is accepted -- full strength under [wf_sig]
    since d208a4d (taken_names also holds the dashed spellings). *)
Theorem C09_accepted :
  forall s, wf_sig s = true -> exists o, sig_cli s = Ok o.
Proof. exact accepts. Qed.

(** The former witness of F-C09c now parses to a correct CLI. *)
Example C09_accepted_former_witness :
  wf_sig sig_steal = true /\
  exists o, sig_cli sig_steal = Ok o /\ all_spellings o = ["--ab"; "-a"; "-b"] /\
            spec_ok sig_steal (Ok o) = true.
Proof. exact steal_fixed. Qed.

(** Historical (F-C09c, fixed by d208a4d): with taken_names seeded by the
    Python spellings only, (ab, _a) was refused with ValueError. *)
Theorem C09_accepted_historical_refuted :
  wf_sig sig_steal = true /\ all_have_core sig_steal = true /\
  add_args empty_ctx (get_arguments_before_d208a4d sig_steal) = Err EValue.
Proof. exact steal_historical_refutes. Qed.

(** F-C09d: with the inverse forms counted, flag names are not distinct:
    (a=True, no_a=False) has "--no-a" twice. *)
Theorem C09_flags_distinct_with_inverse_refuted :
  wf_sig sig_inverse = true /\ all_have_core sig_inverse = true /\
  exists o, sig_cli sig_inverse = Ok o /\ flags_distinct o = false /\
            In "--no-a" (map fst (o_flags o)) /\ In "--no-a" (map fst (o_inverse o)).
Proof. exact inverse_refutes. Qed.

(** The tables of an accepted well-formed signature, in closed form: one real
    flag per argument, one alias per short flag, one inverse form per
    default-true boolean, positionals in argument order. *)
Theorem C09_tables_closed_form :
  forall s c, wf_sig s = true -> add_args empty_ctx (get_arguments s) = Ok c ->
    good (get_arguments s) /\ c = T (get_arguments s).
Proof. exact sig_ctx_ok_closed_form. Qed.

(** Positional arguments come first, in the order of the positional list. *)
Theorem C09_positional_order :
  forall s o, wf_sig s = true -> sig_cli s = Ok o ->
    let pos := fill_implicit_positionals s in
    NoDup pos -> incl pos (map p_name (s_params s)) ->
    map arg_name (firstn (List.length pos) (o_args o)) = pos /\
    o_positional o = map dashed pos.
Proof. exact positional_order. Qed.

(** Unless the task says otherwise: parameters without default, declaration order. *)
Theorem C09_implicit_positional_order :
  forall s o, wf_sig s = true -> d_positional (s_deco s) = None -> sig_cli s = Ok o ->
    map arg_name (firstn (List.length (no_default_names s)) (o_args o)) = no_default_names s /\
    o_positional o = map dashed (no_default_names s).
Proof. exact implicit_positional_order. Qed.

(** Kinds: the default fixes the type (optional+bool and iterable being the
    task "saying otherwise", see [expected_kind]); booleans take no value;
    exactly the default-true booleans get an inverse form. *)
Theorem C09_kinds :
  forall s pos p taken k, expected_kind s p = Some k ->
    a_kind (arg_opts (s_deco s) pos p taken) = k.
Proof. exact kind_arg_opts. Qed.

Theorem C09_bool_takes_no_value :
  forall s pos p taken, expected_kind s p = Some KBool ->
    takes_value (arg_opts (s_deco s) pos p taken) = false.
Proof. exact bool_takes_no_value. Qed.

Theorem C09_inverse_iff_default_true :
  forall s pos p taken, is_true_bool (arg_opts (s_deco s) pos p taken) = wants_inverse s p.
Proof. exact inverse_iff_default_true. Qed.

(** kwargs: exactly the parameter names, and they bind. *)
Theorem C09_kwargs_bind :
  forall s o, wf_sig s = true -> sig_cli s = Ok o ->
    o_kwargs o = map (fun a => (arg_name a, fresh_value a)) (get_arguments s) /\
    Permutation (map fst (o_kwargs o)) (map p_name (s_params s)) /\
    o_binds o = true.
Proof. exact kwargs_bind. Qed.

(** ... unmentioned parameters carry the function's default (or [] if list-type). *)
Theorem C09_kwargs_values :
  forall s o p, wf_sig s = true -> sig_cli s = Ok o -> In p (s_params s) ->
    exists v, aget (p_name p) (o_kwargs o) = Some v /\
      match p_default p with
      | DEmpty => True
      | d => v = to_aval d \/ (listish s p = true /\ v = AList [])
      end.
Proof. exact kwargs_values. Qed.

(** Flagship: on the guarded region the model satisfies the complete executable
    specification.  [full_guard] = [wf_sig] (distinct identifiers, distinct
    dashed forms) minus the two known findings ([all_have_core]: F-C09b,
    [no_inverse_clash]: F-C09d), and explicit positional=
    lists being duplicate-free lists of parameter names.  Missing for full
    strength: exactly those regions (refuted above, resp. swept below). *)
Theorem C09_spec_partial :
  forall s, full_guard s = true -> spec_ok s (sig_cli s) = true.
Proof. exact spec_partial. Qed.

(** Small-scope sweep of the complete executable specification (a test):
    all (at least 6486) guarded signatures among [small_sigs] (<= 2 parameters). *)
Theorem C09_spec_bounded_2 :
  forall s, In s small_sigs -> guard s = true -> spec_ok s (sig_cli s) = true.
Proof. exact spec_bounded. Qed.

(** Non-vacuity: a signature with shared prefixes, underscores, a default-true
    boolean, a list and an explicit positional order satisfies every guard and
    the whole specification. *)
Example C09_example :
  let s := mkSig [mkParam "foo_bar" DEmpty; mkParam "foo" (DBool true); mkParam "f" (DInt 3);
                  mkParam "bar_" (DList ["x"]); mkParam "names" DNone]
                 (mkDeco (Some ["f"; "foo_bar"]) ["f"] ["names"] [] true) in
  full_guard s = true /\ spec_ok s (sig_cli s) = true /\
  exists o, sig_cli s = Ok o /\
    all_spellings o = ["-f"; "--foo-bar"; "--foo"; "--bar"; "--names"; "-o"; "-b"; "-n"] /\
    o_inverse o = [("--no-foo", "--foo")] /\ o_positional o = ["f"; "foo-bar"].
Proof.
  cbv zeta. split; [vm_compute; reflexivity|]. split; [vm_compute; reflexivity|].
  eexists. split; [vm_compute; reflexivity|]. split; [reflexivity|]. split; reflexivity.
Qed.

Example C09_dash_fix_example :
  exists o, sig_cli (mkSig [mkParam "a" DEmpty; mkParam "a_b" DEmpty] deco0) = Ok o /\
            all_spellings o = ["-a"; "--a-b"; "-b"] /\
            spec_ok (mkSig [mkParam "a" DEmpty; mkParam "a_b" DEmpty] deco0) (Ok o) = true.
Proof. exact dash_fix_example. Qed.

(** help= (a decorator option of the quantifier): for every signature with
    distinct dashed names and every help dictionary whose keys each name
    exactly one parameter -- by its Python or by its command-line spelling --
    and no parameter twice ([help_wf]), [get_arguments] succeeds and every
    Argument carries exactly the text given for its parameter ([None] when
    none was given). *)
Theorem C09_help_texts_partial :
  forall s h, wf_sig s = true -> help_wf s h = true ->
  exists hs, get_help s h = Ok hs /\
    Permutation hs (map (fun p => (p_name p, expected_help h p)) (s_params s)) /\
    forall p, In p (s_params s) -> aget (p_name p) hs = Some (expected_help h p).
Proof. exact help_texts. Qed.

(** A help key that names no parameter is refused, for every signature. *)
Theorem C09_help_unknown_refused :
  forall s h kv, In kv h -> (forall p, In p (s_params s) -> key_names (fst kv) p = false) ->
  get_help s h = Err EValue.
Proof. exact help_unknown_refused. Qed.

(** Flagship with help= and the call: on the guarded region, for every help
    dictionary in [help_wf] and no parameter named [self] (F-C09e), the model
    satisfies the whole judgement [spec_task] (CLI, help texts, the call hands
    every parameter its value).  Parameter kinds other than plain ones are
    outside (F-C09f/g).  Missing besides the guards: help dictionaries outside
    [help_wf] other than unknown keys (two spellings of one parameter) are
    covered by the correspondence runs only. *)
Theorem C09_spec_task_partial :
  forall s h, full_guard s = true -> help_wf s h = true -> no_self s = true ->
  exists o hs, sig_cli s = Ok o /\ get_help s h = Ok hs /\
    spec_task s h (Ok o) hs (o_binds o && call_ok [] (o_kwargs o)) = true.
Proof. exact spec_task_partial. Qed.

(** F-C09e: [def t(c, self='x')] -- inside every guard, the signature binds,
    the CLI judgement holds, but the call collides with Task.__call__'s own
    [self]. *)
Theorem C09_call_self_refuted :
  full_guard sig_self = true /\
  exists o, sig_cli sig_self = Ok o /\ o_binds o = true /\ spec_ok sig_self (Ok o) = true /\
            call_ok [] (o_kwargs o) = false /\
            spec_task sig_self [] (Ok o) [("self", None)] (o_binds o && call_ok [] (o_kwargs o)) = false.
Proof. exact self_param_refutes. Qed.

(** F-C09f: [def t(c, a, /, b=1)] -- both parameters become keyword arguments;
    Python refuses a positional-only parameter passed by keyword. *)
Theorem C09_call_posonly_refuted :
  full_guard sig_posonly = true /\
  exists o, sig_cli sig_posonly = Ok o /\
            map fst (o_kwargs o) = ["a"; "b"] /\
            bind_kinds (s_params sig_posonly) [PPosOnly; PPlain] (o_kwargs o) = false /\
            call_ok [PPosOnly; PPlain] (o_kwargs o) = false.
Proof. exact posonly_refutes. Qed.

(** F-C09g: star-args becomes a positional Argument [args] passed by keyword
    (refused by Python); double-star kwargs is called with
    [kwargs={'kwargs': None}] instead of its own empty default. *)
Theorem C09_call_varargs_refuted :
  full_guard sig_varargs = true /\ full_guard sig_varkw = true /\
  (exists o, sig_cli sig_varargs = Ok o /\ o_positional o = ["args"] /\
             bind_kinds (s_params sig_varargs) [PVarPos] (o_kwargs o) = false /\
             call_ok [PVarPos] (o_kwargs o) = false) /\
  (exists o, sig_cli sig_varkw = Ok o /\ o_kwargs o = [("kwargs", ANone)] /\
             bind_kinds (s_params sig_varkw) [PVarKw] (o_kwargs o) = true /\
             call_ok [PVarKw] (o_kwargs o) = false).
Proof. exact varargs_refutes. Qed.

(** Non-vacuity of the help theorems: the audit's own example,
    [@task(help={'type_': ...}) def build(c, name, type_='lib')]. *)
Example C09_help_example :
  let s := mkSig [mkParam "name" DEmpty; mkParam "type_" (DStr "lib")] (mkDeco None [] [] [] true) in
  full_guard s = true /\ no_self s = true /\
  help_wf s [("type_", "kind of artefact")] = true /\ help_wf s [("type", "kind of artefact")] = true /\
  get_help s [("type_", "kind of artefact")] = Ok [("name", None); ("type_", Some "kind of artefact")] /\
  get_help s [("type", "kind of artefact")] = Ok [("name", None); ("type_", Some "kind of artefact")] /\
  get_help s [("typ", "kind of artefact")] = Err EValue.
Proof. cbv zeta. repeat split; vm_compute; reflexivity. Qed.
