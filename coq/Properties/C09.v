(** C09 -- statements only. *)
From InvokeVerif Require Import Model.SigCtxModel Spec.C09Spec Proofs.C09_sig.

Theorem C09_arg_name_is_param_name :
  forall dc pos p taken, arg_name (arg_opts dc pos p taken) = p_name p.
Proof. exact arg_name_arg_opts. Qed.
