(** C05 -- exit status is reported truthfully and decides return vs. raise.
    Statements only; proofs in Proofs/C05_exit.v.  Model: Model/ExitModel.v. *)
From InvokeVerif Require Import Model.ExitModel Spec.C05Spec Corr.C05Corr Proofs.C05_exit.
From Coq Require Import ZArith.
Local Open Scope Z_scope.

(** (a) Decoding a pty child's wait status gives the exit code, or the negative
    signal number whether or not a core was dumped.  OS contract: the Linux
    encodings [exit_status] / [sig_status]. *)
Theorem C05_status_decode :
  (forall code, 0 <= code <= 255 -> pty_returncode (exit_status code) = Some code) /\
  (forall sig core, 1 <= sig <= 126 -> pty_returncode (sig_status sig core) = Some (- sig)).
Proof. split; [exact decode_exit | exact decode_signal]. Qed.

(** The same over the finite domain, by computation (256 codes, 126 signals x core flag). *)
Theorem C05_status_decode_table :
  forallb (fun c => optz_eqb (pty_returncode (exit_status c)) (Some c)) all_codes &&
  forallb (fun s => optz_eqb (pty_returncode (sig_status s false)) (Some (- s)) &&
                    optz_eqb (pty_returncode (sig_status s true)) (Some (- s))) all_signals = true.
Proof. exact decode_table. Qed.

(** (b) ok exactly when the status is zero; failed / bool / return_code follow. *)
Theorem C05_ok_iff_zero :
  forall e,
    (rv_ok (result_of e) = true <-> e = Some 0) /\
    rv_failed (result_of e) = negb (rv_ok (result_of e)) /\
    rv_bool (result_of e) = rv_ok (result_of e) /\
    rv_return_code (result_of e) = e /\ rv_exited (result_of e) = e.
Proof. exact ok_iff_zero. Qed.

(** (c) Flagship: for every situation -- through Runner.run / Context.run /
    Promise.join / Promise.__exit__, or through Context.sudo -- what the model
    does satisfies the executable specification. *)
Theorem C05_run_outcome_meets_spec :
  forall s, spec_finish s (run_outcome s) = true.
Proof. exact run_outcome_meets_spec. Qed.

Theorem C05_finish_meets_spec :
  forall s, s_sudo s = false ->
    spec_finish s (finish (s_thread_excs s) (s_watcher_errs s) (s_timeout_set s)
                          (s_timed_out s) (Some (s_status s)) (s_warn s)) = true.
Proof. exact finish_meets_spec. Qed.

(** sudo changes nothing but a Failure caused by its rejected password
    (-> AuthFailure, same result): timeouts, user watcher errors and unexpected
    exits keep their own types. *)
Theorem C05_sudo_keeps_failure_types :
  forall bp o,
    sudo_wrap bp o = o \/
    (bp = true /\ exists r, o = Raise RFailure r /\ sudo_wrap bp o = Raise RAuthFailure r).
Proof. exact sudo_keeps_failure_types. Qed.

(** Returns normally iff nothing went wrong in the threads, no timeout expired,
    and the status is zero or warn was requested; the result carries the status. *)
Theorem C05_return_iff :
  forall te we ts to rc w r,
    finish te we ts to rc w = Return r <->
    te = 0%nat /\ we = 0%nat /\ (ts && to = false)%bool /\ (rc = Some 0 \/ w = true) /\
    r = result_of rc.
Proof. exact return_iff. Qed.

(** Otherwise: ThreadException > Failure (watcher) > CommandTimedOut >
    UnexpectedExit, each carrying the complete result (none for ThreadException,
    status unknown for a watcher error). *)
Theorem C05_raise_order :
  forall te we ts to rc w,
    match finish te we ts to rc w with
    | Raise RThreadException r => te <> 0%nat /\ r = None
    | Raise RFailure r => te = 0%nat /\ we <> 0%nat /\ r = Some (result_of None)
    | Raise RCommandTimedOut r =>
        te = 0%nat /\ we = 0%nat /\ ts = true /\ to = true /\ r = Some (result_of rc)
    | Raise RUnexpectedExit r =>
        te = 0%nat /\ we = 0%nat /\ (ts && to = false)%bool /\ rc <> Some 0 /\ w = false /\
        r = Some (result_of rc)
    | Raise RAuthFailure _ => False
    | Return r => True
    | OtherOutcome => False
    end.
Proof. exact raise_order. Qed.

(** ... and the first three do not depend on warn. *)
Theorem C05_warn_independent :
  forall te we ts to rc w w',
    (te <> 0%nat \/ we <> 0%nat \/ (ts && to = true)%bool) ->
    finish te we ts to rc w = finish te we ts to rc w'.
Proof. exact warn_independent. Qed.

(** A real pty child: encoding (OS) + decoding + decision meet the specification. *)
Theorem C05_real_child_meets_spec :
  forall e core warn,
    match e with Exited c => 0 <= c <= 255 | Killed s => 1 <= s <= 126 end ->
    let raw := match e with Exited c => exit_status c | Killed s => sig_status s core end in
    spec_finish (mkSit 0 0 false false (true_status e) warn false false)
                (finish 0 0 false false (pty_returncode raw) warn) = true.
Proof. exact real_child_meets_spec. Qed.

(** (c') Where warn comes from.  "warn was requested" is decided from the
    configuration (run.warn: files, env, overrides, -w) and from the keyword
    of the call; a keyword that is omitted OR None leaves the decision to the
    configuration, an explicit True / False wins.  The kwarg/config merge of
    Runner._unify_kwargs_with_config computes exactly that ... *)
Theorem C05_opts_warn_is_requested :
  forall ws, opts_warn ws = warn_requested ws.
Proof. exact opts_warn_is_requested. Qed.

Theorem C05_warn_keyword_table :
  forall cfg,
    opts_warn (mkWs cfg KwNone) = opts_warn (mkWs cfg KwOmitted) /\
    (forall b, opts_warn (mkWs cfg (KwVal b)) = b) /\
    opts_warn (mkWs (Some true) KwNone) = true /\
    opts_warn (mkWs (Some false) KwNone) = false /\
    opts_warn (mkWs None KwNone) = false.
Proof. exact warn_keyword_table. Qed.

(** ... so the flagship holds with the warn source as an input: every
    situation x configured {unset, False, True} x keyword {omitted, None,
    True, False}. *)
Theorem C05_warn_source_meets_spec :
  forall s ws,
    spec_finish (set_warn s (warn_requested ws)) (run_outcome (set_warn s (opts_warn ws))) = true.
Proof. exact warn_source_meets_spec. Qed.

Theorem C05_real_child_warn_source_meets_spec :
  forall e core ws,
    match e with Exited c => 0 <= c <= 255 | Killed s => 1 <= s <= 126 end ->
    let raw := match e with Exited c => exit_status c | Killed s => sig_status s core end in
    spec_finish (mkSit 0 0 false false (true_status e) (warn_requested ws) false false)
                (finish 0 0 false false (pty_returncode raw) (opts_warn ws)) = true.
Proof. exact real_child_warn_source_meets_spec. Qed.

(** The program around one task that runs one command (-w on / off, run.warn
    configured or not, keyword of the call): its exit status is 0 when the
    command succeeds or warn was requested, the command's code otherwise. *)
Theorem C05_program_task_run_meets_spec :
  forall flag cfg kw code,
    spec_task_run flag cfg kw code (program_task_run flag cfg kw code) = true.
Proof. exact task_run_meets_spec. Qed.

Theorem C05_program_task_run_table :
  forall code, code <> 0 ->
    (forall cfg, program_task_run true cfg KwNone code = PReturns) /\
    (forall cfg, program_task_run true cfg KwOmitted code = PReturns) /\
    (forall cfg, program_task_run true cfg (KwVal false) code = PSysExit code) /\
    (forall flag cfg, program_task_run flag cfg (KwVal true) code = PReturns) /\
    (forall kw, program_task_run false (Some true) kw code =
                if match kw with KwVal false => true | _ => false end then PSysExit code else PReturns) /\
    (forall cfg kw, cfg <> Some true -> kw <> KwVal true -> program_task_run false cfg kw code = PSysExit code).
Proof. exact task_run_table. Qed.

(** Non-vacuity: run.warn = True configured, the call forwards warn=None, the
    command exits 3: run returns the result; with warn=False it raises; and
    `inv -w` on a task forwarding warn=None around `exit 7` exits 0. *)
Example C05_warn_source_example :
  run_outcome (set_warn (mkSit 0 0 false false 3 false false false) (opts_warn (mkWs (Some true) KwNone))) =
    Return (mkRv (Some 3) false true false (Some 3)) /\
  run_outcome (set_warn (mkSit 0 0 false false 3 false false false) (opts_warn (mkWs (Some true) (KwVal false)))) =
    Raise RUnexpectedExit (Some (mkRv (Some 3) false true false (Some 3))) /\
  program_task_run true None KwNone 7 = PReturns /\
  program_task_run true None (KwVal false) 7 = PSysExit 7 /\
  program_task_run false None KwNone 7 = PSysExit 7.
Proof. repeat split. Qed.

(** (d) The program's own exit code. *)
Theorem C05_program_exit_code :
  forall e, spec_program e (program_run e) = true.
Proof. exact program_meets_spec. Qed.

Theorem C05_program_exit_code_table :
  program_run PSuccess = PReturns /\
  (forall x, program_run (PUnexpectedExit x) = PSysExit x) /\
  (forall c m, program_run (PExit (Some c) m) = PSysExit c) /\
  program_run (PExit None true) = PSysExit 1 /\ program_run (PExit None false) = PSysExit 0 /\
  program_run PParseError = PSysExit 1.
Proof. exact program_exit_codes. Qed.

(** Tie to the source text (regenerated from invoke/runners.py on every run):
    the ordered tail of Runner._finish, Result.ok, Result.failed and
    Runner.timed_out are the ones the model was written from.  [None] = the
    translator did not recognise the shape (behavioural correspondence only). *)
From InvokeVerif Require Generated.Tables.
Theorem C05_finish_order_matches_source :
  match Generated.Tables.finish_tail_src with
  | Some t => t = finish_tail_table
  | None => True
  end /\
  match Generated.Tables.result_ok_src with
  | Some e => e = "bool(self.exited == 0)"%string
  | None => True
  end /\
  match Generated.Tables.result_failed_src with
  | Some e => e = "not self.ok"%string
  | None => True
  end.
Proof. repeat split; vm_compute; first [reflexivity | exact I]. Qed.

(** Non-vacuity: a child killed by SIGKILL under a pty with warn unset, while a
    timeout was requested and did not expire: UnexpectedExit carrying -9. *)
Example C05_example :
  finish 0 0 true false (pty_returncode (sig_status 9 false)) false =
    Raise RUnexpectedExit (Some (mkRv (Some (-9)) false true false (Some (-9)))) /\
  finish 0 1 true true (Some 0) true = Raise RFailure (Some (mkRv None false true false None)) /\
  finish 0 0 true true (Some 0) true = Raise RCommandTimedOut (Some (mkRv (Some 0) true false true (Some 0))) /\
  finish 0 0 false false (Some 3) true = Return (mkRv (Some 3) false true false (Some 3)).
Proof. repeat split. Qed.
