(** C03 -- Every setting comes from the highest-precedence level that defines
    it; load-order irrelevance; first existing suffix only.
    Statements only; proofs are in Proofs/C03_merge.v, C03_levels.v, C03_order.v,
    C03_script.v, C03_envclause.v, C03_whole.v, C03_mods.v. *)
From Coq Require Import Permutation.
From InvokeVerif Require Import Common.Tree Common.StrUtil Model.MergeModel Model.ConfigModel
     Spec.C03Spec Proofs.C03_merge Proofs.C03_levels Proofs.C03_order Proofs.C03_sweep
     Corr.C03Corr Proofs.C03_script Proofs.C03_whole Spec.C03ModSpec Proofs.C03_mods.

(** Path lookup through [merge_dicts] for type-consistent trees: the merge
    succeeds, stays well-formed, and at every path shows what the update says
    (a leaf value, or "section"), else what the base says. *)
Theorem C03_merge_lookup : forall base us,
  wf (Node base) = true -> wf (Node us) = true -> agree (Node base) (Node us) ->
  exists m, merge_dicts base (Node us) = Ok m /\ wf (Node m) = true /\
    forall p, shape_at p (Node m) = orelse (shape_at p (Node us)) (shape_at p (Node base)).
Proof. exact merge_lookup. Qed.

Theorem C03_merge_keys_union : forall base us m,
  wf (Node base) = true -> wf (Node us) = true -> agree (Node base) (Node us) ->
  merge_dicts base (Node us) = Ok m ->
  forall k, has k m = has k base || has k us.
Proof. exact merge_keys_union. Qed.

(** Flagship: for ANY list of type-consistent levels (lowest precedence first)
    merging them in order succeeds and the view agrees with the per-setting
    oracle at EVERY path: a leaf with the value of the last level defining the
    path, a section where the defining levels have sections (so sections are the
    union of the levels' sections and every setting defined anywhere is visible),
    nothing elsewhere. *)
Theorem C03_highest_level_wins : forall ls,
  ls <> [] -> forallb wf ls = true -> forallb is_node ls = true -> levels_tc ls = true ->
  exists view, merge_all ls [] = Ok view /\ wf (Node view) = true /\
               forall p, shape_at p (Node view) = oracle p ls.
Proof. exact highest_level_wins. Qed.

(** The oracle spelled out: the shape at [p] is the one given by the last level
    in documented order that defines [p]. *)
Theorem C03_oracle_is_last_defining_level : forall p ls s,
  oracle p ls = Some s <->
  exists l1 L l2, ls = l1 ++ L :: l2 /\ shape_at p L = Some s /\
                  forall L', In L' l2 -> shape_at p L' = None.
Proof. exact oracle_some_iff. Qed.

(** The same, for a configuration object: what [merge()] computes from the nine
    levels (file levels taking part only when found) before deletions. *)
Theorem C03_highest_level_wins_config : forall c,
  forallb wf (levels_of c) = true -> forallb is_node (levels_of c) = true ->
  levels_tc (levels_of c) = true ->
  exists view, merge_levels c = Ok view /\ wf (Node view) = true /\
               forall p, shape_at p (Node view) = oracle p (levels_of c).
Proof.
  intros c H1 H2 H3. apply highest_level_wins; try assumption. discriminate.
Qed.

(** The model's merged view is accepted by the executable check of the spec. *)
Theorem C03_view_meets_spec : forall ls view,
  ls <> [] -> forallb wf ls = true -> forallb is_node ls = true -> levels_tc ls = true ->
  merge_all ls [] = Ok view -> view_ok ls (Node view) = true.
Proof. exact view_meets_spec. Qed.

(** The order in which [merge()] applies the levels, and the suffix preference,
    are the documented ones.  NOTE: this is a restatement of the model's own
    tables ([level_order], [file_suffixes]) -- it says the model was written to
    the documented order, nothing about the source.  The tie to the source text
    is the next theorem, [C03_order_matches_source]. *)
Theorem C03_order_is_documented :
  level_order = ["defaults"; "collection"; "system"; "user"; "project"; "env"; "runtime";
                 "overrides"; "modifications"] /\
  (forall c, map fst (level_list c) = level_order) /\
  file_suffixes = ["yaml"; "yml"; "json"; "py"].
Proof. split; [reflexivity|]. split; [exact level_list_names | reflexivity]. Qed.

(** Tie to the source text: the sequence of statements of [Config.merge] and the
    [_file_suffixes] tuple, re-read from invoke/config.py on every run
    (Generated/Tables.v), are the ones the model was written from.  [None] = the
    translator did not recognise the shape (behavioural correspondence only). *)
From InvokeVerif Require Generated.Tables.
Theorem C03_order_matches_source :
  match Generated.Tables.merge_order_src with
  | Some t => t = ["<reset>"; "defaults"; "collection"; "file:system"; "file:user"; "file:project";
                   "env"; "file:runtime"; "overrides"; "modifications"; "<obliterate deletions>"]
  | None => True
  end /\
  match Generated.Tables.file_suffixes_src with
  | Some t => t = file_suffixes
  | None => True
  end.
Proof. split; vm_compute; reflexivity. Qed.

(** Load-order irrelevance.  Any two orders of the same load calls on distinct
    levels (with or without merge=False), both running without an exception,
    leave the same level contents ... *)
Theorem C03_load_order_same_levels : forall fs c ops1 ops2,
  Forall (fun o => is_load_op o = true) ops1 -> NoDup (map load_tag ops1) ->
  Permutation ops1 ops2 ->
  clean (snd (run fs c ops1)) = true -> clean (snd (run fs c ops2)) = true ->
  strip (fst (run fs c ops1)) = strip (fst (run fs c ops2)).
Proof. exact load_order_same_levels. Qed.

(** ... the same view when every call merges (the default) ... *)
Theorem C03_load_order_irrelevant : forall fs c ops1 ops2,
  cache_ok c ->
  Forall (fun o => is_plain_load o = true) ops1 -> NoDup (map load_tag ops1) ->
  Permutation ops1 ops2 ->
  clean (snd (run fs c ops1)) = true -> clean (snd (run fs c ops2)) = true ->
  c_cache (fst (run fs c ops1)) = c_cache (fst (run fs c ops2)).
Proof. exact load_order_irrelevant. Qed.

(** ... the same state after a final merge() when some calls were deferred ... *)
Theorem C03_load_order_irrelevant_merge : forall fs c ops1 ops2,
  Forall (fun o => is_load_op o = true) ops1 -> NoDup (map load_tag ops1) ->
  Permutation ops1 ops2 ->
  clean (snd (run fs c ops1)) = true -> clean (snd (run fs c ops2)) = true ->
  step fs (fst (run fs c ops1)) Merge = step fs (fst (run fs c ops2)) Merge.
Proof. exact load_order_irrelevant_merge. Qed.

(** ... and the same outcome, environment level and view after the final
    load_shell_env() (the environment being read once the others are in place). *)
Theorem C03_load_order_irrelevant_env : forall fs c ops1 ops2 env,
  Forall (fun o => is_load_op o = true) ops1 -> NoDup (map load_tag ops1) ->
  Permutation ops1 ops2 ->
  clean (snd (run fs c ops1)) = true -> clean (snd (run fs c ops2)) = true ->
  step fs (fst (run fs c ops1)) (LoadShellEnv env) = step fs (fst (run fs c ops2)) (LoadShellEnv env).
Proof. exact load_order_irrelevant_env. Qed.

(** For each file location exactly the first existing candidate in the
    documented suffix order is read (an unreadable one is an error, later ones
    are never consulted).  The [None] line records a quirk of the code: a
    missing [.py] candidate loads as an empty dict instead of "not found". *)
Theorem C03_first_suffix_only : forall fs loc,
  try_suffixes fs loc file_suffixes =
  match first_existing fs loc with
  | Some (s, FData t) => LFound s t
  | Some (s, FIOErr) => LFail
  | None => LFound "py" (Node [])
  end.
Proof. exact first_suffix_only. Qed.

Theorem C03_later_candidates_irrelevant : forall fs fs' loc,
  first_existing fs loc = first_existing fs' loc ->
  try_suffixes fs loc file_suffixes = try_suffixes fs' loc file_suffixes.
Proof. exact later_candidates_irrelevant. Qed.

(** WHOLE-SCRIPT THEOREM.  For EVERY file system, EVERY constructor arguments and
    EVERY script of calls -- load calls, then (optionally) edits made through
    the configuration: assignments, deletions, pop / popitem / clear /
    setdefault / update, merge() -- the correspondence record built from the
    model's own run (final observation or first exception, plus the snapshot
    after every call that returned) is accepted by the whole executable
    specification [C03Corr.spec] = [spec_loads] && [spec_mods].

    [spec_loads]: [spec_ok] on the script as executed, and [spec_ok] on every
    prefix against the snapshot observed right after it.  Inside [spec_ok] sit
    the guards "the script is a load script ([wf_script])" and "the levels read
    off the script by [supplied_of] are type-consistent and well-formed" -- so
    this is: forall script, wf_script -> type-consistent ->
    (view = oracle at every path of the nine levels, the environment level holds
    exactly the settings the environment names, converted by type / the
    documented exception, the suffixes read are the first existing ones, an
    unreadable file that must be read is an error) for the model's run.

    [spec_mods] (Spec/C03ModSpec.v): after every edit that follows a settled,
    in-scope load script the view is, at EVERY path, nothing where a deletion in
    force covers the path, else what the highest of the TEN levels defining it
    says -- the tenth being what the history of edits defines ([ms_mods]: the
    writes carried out in order; a write cancels the deletions recorded at its
    path and those below it that the written value defines again); an edit of a
    missing key raises the documented exception; the environment level and the
    suffixes stay what they were.  Guards inside [spec_mods]: the ten levels
    stay type-consistent dictionaries ([scope_now]; judging stops at the first
    edit that breaks it, which may raise), the history consists of the edits
    listed above.

    The proof composes: closed forms of the fold of calls (Proofs/C03_script.v),
    [supplied_of] = the model's level fields (Proofs/C03_whole.v, [corr_levels],
    [bad_unreadable]), [C03_first_suffix_only], [merge_all_shape]/[oracle]
    ([C03_highest_level_wins]), up-to-date view of settled scripts ([sync_run]),
    the environment clause through C16's [load_meets_spec] /
    [load_never_creates] and the insertion lemmas of Proofs/C16_view_shapes.v
    (Proofs/C03_envclause.v); for the edits the representation invariant [minv]
    of Proofs/C03_mods.v (the model's [_modifications] IS [ms_mods], its
    [_deletions] tree masks exactly the paths [ms_dels] covers, the cache shows
    "masked -> nothing, else oracle over the ten levels"), established where the
    edits start ([C03_edits_start_invariant]) and kept by every edit
    ([C03_edit_step]) with the excise / obliterate / _modify / _remove lemmas of
    Proofs/C06_shapes.v, C06_track.v, C06_refine.v.
    Guard: the constructor returned ([start fs i = Ok c0]); the other case is
    below. *)
Theorem C03_whole_script_meets_spec : forall fs i ops c0,
  start fs i = Ok c0 -> C03Corr.spec (model_case fs i ops) = true.
Proof. exact whole_script_with_edits_meets_spec. Qed.

(** The two halves of the above. *)
Theorem C03_load_part_meets_spec : forall fs i ops c0,
  start fs i = Ok c0 -> C03Corr.spec_loads (model_case fs i ops) = true.
Proof. exact whole_script_meets_spec. Qed.

Theorem C03_edits_meet_spec : forall fs i ops c0,
  start fs i = Ok c0 -> C03Corr.spec_mods (model_case fs i ops) = true.
Proof. exact mods_meet_spec. Qed.

(** What [model_case] is: the record whose observations are the model's. *)
Theorem C03_model_case_is_model_run : forall fs i ops,
  c_fs (model_case fs i ops) = fs /\ c_init (model_case fs i ops) = i /\
  c_ops (model_case fs i ops) = ops /\
  c_obs (model_case fs i ops) = model_out (model_case fs i ops) /\
  c_mids (model_case fs i ops) = model_mids (model_case fs i ops).
Proof. intros. repeat split; reflexivity. Qed.

(** The constructor raised (an unreadable system/user file, or defaults and
    overrides that clash): the empty script is judged, with that exception. *)
Theorem C03_constructor_failure_meets_spec : forall fs i e,
  start fs i = Err e -> spec_ok fs i [] "INVOKE_" (Err e) = true.
Proof. exact constructor_failure_meets_spec. Qed.

(** ... and when the constructor raised on an unreadable system / user file,
    the record of ANY script is accepted: no call ran, the specification reads
    "a file that must be read cannot be" whatever the script says.  (Left out:
    a constructor that raised AmbiguousMergeError followed by a script whose
    first call would have replaced the clashing level -- [C03Corr.ops_run]
    judges the first call of the script then; no object exists in reality.) *)
Theorem C03_constructor_io_failure_any_script : forall fs i ops e,
  exec fs (b0 i) (init_ops i) = Err e -> C03Corr.spec (model_case fs i ops) = true.
Proof. exact constructor_io_failure_any_script_edits. Qed.

(** Pieces of the above that read well on their own: every clean prefix of a
    run is accepted on the snapshot taken after it; the call that raised is
    accepted with its exception. *)
Theorem C03_every_clean_prefix_accepted : forall fs i c0 done c,
  start fs i = Ok c0 -> exec fs c0 done = Ok c ->
  spec_ok fs i done "INVOKE_" (Ok (snap_of c)) = true.
Proof. exact prefix_ok. Qed.

Theorem C03_raising_call_accepted : forall fs i c0 done c o e,
  start fs i = Ok c0 -> exec fs c0 done = Ok c -> snd (step fs c o) = OErr e ->
  spec_ok fs i (done ++ [o]) "INVOKE_" (Err e) = true.
Proof. exact fail_ok. Qed.

(** The levels the specification reads off a script are the model's level
    fields after the script (file levels taking part when found; [norm]: a
    falsy non-dict level counts as empty), no file was unreadable, and the
    suffixes read are the ones the specification asks for. *)
Theorem C03_supplied_levels_are_model_levels : forall fs i ops,
  forallb script_op ops = true -> no_bad fs (b0 i) (init_ops i ++ ops) = true ->
  let c := apply_script fs (b0 i) (init_ops i ++ ops) in
  let S := supplied_of fs i ops in
  map norm (levels_of c) = levels9 S (Node []) ++ [Node []] /\
  s_unreadable S = false /\
  sfx_ok (s_sfx S) [c_sys_sfx c; c_user_sfx c; c_proj_sfx c] = true.
Proof.
  intros fs i ops HF Hnb. destruct (corr_levels fs i ops HF Hnb) as [H1 [H2 [H3 _]]].
  cbv zeta in *. rewrite model_levels_eq. auto.
Qed.

(** THE EDITS, piece by piece.  [minv S envl c st]: the model state [c] represents
    the bookkeeping [st] of the specification over the supplied levels [S] with
    environment level [envl] (see Proofs/C03_mods.v).  It holds where the edits
    start: after a clean run of a settled load script whose levels are inside
    the quantifier ... *)
Theorem C03_edits_start_invariant : forall fs i c0 loads c,
  start fs i = Ok c0 -> exec fs c0 loads = Ok c -> wf_script loads = true ->
  tc_ok (supplied_of fs i loads) = true ->
  scope_now (supplied_of fs i loads) ms0 (c_env c) = true ->
  minv (supplied_of fs i loads) (c_env c) c ms0.
Proof. exact start_minv. Qed.

(** ... every call is judged by [mod_step] (decided on the view before it) the
    way the model behaves: an expected exception is the one raised; an edit
    that must return does, leaves the environment level and the suffixes alone
    and -- when the ten levels stay type-consistent -- re-establishes the
    invariant for the new bookkeeping; [popitem] removes exactly one key of the
    section ([next]: the view after the call, or nothing when it raised) ... *)
Theorem C03_edit_step : forall fs S envl c st o next,
  minv S envl c st ->
  (next = None \/ next = Some (Node (c_cache (fst (step fs c o))))) ->
  match mod_step st (Node (c_cache c)) next o with
  | XOut => True
  | XErr e => snd (step fs c o) = OErr e
  | XRet => next = None /\ is_err_out (snd (step fs c o)) = false
  | XOk st' => same_frame c (fst (step fs c o)) /\
               (scope_now S st' envl = true ->
                is_err_out (snd (step fs c o)) = false /\ minv S envl (fst (step fs c o)) st')
  | XBad => False
  end.
Proof. exact sim_step. Qed.

(** ... and it says what the property says: at every path the view shows
    nothing where a deletion in force covers it, else the answer of the
    per-setting oracle over the ten levels; so whatever the modifications level
    defines, and no deletion covers, is visible with the value it gives. *)
Theorem C03_edited_view_is_oracle : forall S envl c st, minv S envl c st ->
  forall q, shape_at q (Node (c_cache c)) =
            if masked_by (ms_dels st) q then None else oracle q (all_levels S st envl).
Proof. exact edited_view_is_oracle. Qed.

Theorem C03_modifications_visible : forall S envl c st q s, minv S envl c st ->
  shape_at q (Node (ms_mods st)) = Some s -> masked_by (ms_dels st) q = false ->
  shape_at q (Node (c_cache c)) = Some s.
Proof. exact modifications_visible. Qed.

(** Non-vacuity for the edits: a nested setting defined by two levels is deleted,
    then its parent section is assigned a dict that defines it again; the script
    is inside every guard of [spec_mods] and judged to the end ([with_mods]),
    and the setting is visible with the value the modifications level gives,
    next to what the lower levels supply for the section. *)
Example C03_edits_example :
  let i := mkInit (Node [("s", Node [("x", Leaf (VInt 1)); ("y", Leaf (VInt 2))])])
                  (Node [("s", Node [("y", Leaf (VInt 20))])]) None None true in
  let ops := [Merge; Del Item ["s"] "x"; SetV Attr [] "s" (Node [("x", Leaf (VInt 7))]); Merge] in
  (exists c0, start [] i = Ok c0) /\
  with_mods (model_case [] i ops) = true /\
  match c_obs (model_case [] i ops) with
  | Ok (v, _, _) => shape_at ["s"; "x"] v = Some (SLeaf (VInt 7)) /\
                    shape_at ["s"; "y"] v = Some (SLeaf (VInt 20))
  | Err _ => False
  end /\
  match nth_error (c_mids (model_case [] i ops)) 1 with
  | Some (v, _, _) => shape_at ["s"; "x"] v = None
  | None => False
  end.
Proof. vm_compute. split; [eexists; reflexivity|]. repeat split; reflexivity. Qed.

(** The specification has teeth there: the same script observed with the
    re-defined setting still invisible is rejected; observed as above, accepted. *)
Example C03_spec_rejects_lost_rewrite :
  let i := mkInit (Node [("s", Node [("x", Leaf (VInt 1)); ("y", Leaf (VInt 2))])])
                  (Node [("s", Node [("y", Leaf (VInt 20))])]) None None true in
  let ops := [Merge; Del Item ["s"] "x"; SetV Attr [] "s" (Node [("x", Leaf (VInt 7))])] in
  let snap v : snap3 := (v, Node [], [None; None; None]) in
  let v0 := Node [("s", Node [("x", Leaf (VInt 1)); ("y", Leaf (VInt 20))])] in
  let v1 := Node [("s", Node [("y", Leaf (VInt 20))])] in
  let good := Node [("s", Node [("y", Leaf (VInt 20)); ("x", Leaf (VInt 7))])] in
  C03Corr.spec (mk [] i ops (Ok (snap v1)) [snap v0; snap v1; snap v1]) = false /\
  C03Corr.spec (mk [] i ops (Ok (snap good)) [snap v0; snap v1; snap good]) = true.
Proof. vm_compute. split; reflexivity. Qed.

(** Non-vacuity of the whole-script theorem: a script inside every guard (a
    load script, type-consistent levels, constructor returns), ending with the
    environment, whose run is Ok -- so the theorem's conclusion is the full
    judgement, not one of the guard exits. *)
Example C03_whole_script_example :
  let i := mkInit (lv 1 true) (lv 8 false) (Some "projA") (Some ("rtA", "json")) false in
  let ops := [LoadCollectionD (lv 2 true); SetProjectLocation (Some "projA"); LoadProject; LoadRuntime;
              LoadShellEnv [("INVOKE_A_B", "9"); ("INVOKE_D", "8"); ("INVOKE_NOPE", "1")]] in
  (exists c0, start sweep_fs i = Ok c0) /\
  in_scope (model_case sweep_fs i ops) = true /\
  (match c_obs (model_case sweep_fs i ops) with Ok _ => True | Err _ => False end) /\
  List.length (c_mids (model_case sweep_fs i ops)) = 5.
Proof. vm_compute. split; [eexists; reflexivity|]. repeat split; try reflexivity; exact I. Qed.

(** A test, not the property: for two constructor settings (lazy/empty and
    eager with defaults+overrides), every script of at most 2 load calls from a
    14-letter alphabet (plain and merge=False variants of every level, merge())
    followed by merge(), load_shell_env() or both, over a file system with
    several candidates per location, the model's run is accepted by the FULL
    executable specification (view, environment level, suffixes read). *)
Theorem C03_model_meets_spec_bounded_2 :
  forallb (fun i => forallb (fun body => forallb (fun e => script_ok i (body ++ e)) endings)
                            (scripts 2)) inits = true.
Proof. exact model_meets_spec_bounded. Qed.

(** Non-vacuity: three type-consistent levels defining a common nested path, a
    section that is a union, and a script whose two orders satisfy the
    hypotheses of the load-order theorems. *)
Example C03_example_levels :
  let l1 := Node [("run", Node [("echo", Leaf (VBool false)); ("shell", Leaf (VStr "sh"))])] in
  let l2 := Node [("run", Node [("echo", Leaf (VBool true))]); ("n", Leaf (VInt 1))] in
  let l3 := Node [("run", Node [("pty", Leaf (VBool true)); ("echo", Leaf (VBool false))])] in
  forallb wf [l1; l2; l3] = true /\ levels_tc [l1; l2; l3] = true /\
  merge_all [l1; l2; l3] [] =
    Ok [("run", Node [("echo", Leaf (VBool false)); ("shell", Leaf (VStr "sh")); ("pty", Leaf (VBool true))]);
        ("n", Leaf (VInt 1))] /\
  oracle ["run"; "echo"] [l1; l2; l3] = Some (SLeaf (VBool false)) /\
  oracle ["run"] [l1; l2; l3] = Some SNode.
Proof. vm_compute. repeat split; reflexivity. Qed.

Example C03_example_orders :
  let fs := [(("sys", "yml"), FData (Node [("a", Leaf (VInt 2))]));
             (("sys", "json"), FData (Node [("a", Leaf (VInt 3))]))] in
  let c := blank (Node []) (Node []) (Some "sys") (Some "usr") None None "INVOKE_" in
  let ops1 := [LoadDefaultsD (Node [("a", Leaf (VInt 1)); ("b", Leaf (VInt 1))]); LoadSystem;
               LoadOverrides (Node [("b", Leaf (VInt 9))])] in
  let ops2 := [LoadOverrides (Node [("b", Leaf (VInt 9))]);
               LoadDefaultsD (Node [("a", Leaf (VInt 1)); ("b", Leaf (VInt 1))]); LoadSystem] in
  Forall (fun o => is_load_op o = true) ops1 /\ NoDup (map load_tag ops1) /\
  clean (snd (run fs c ops1)) = true /\ clean (snd (run fs c ops2)) = true /\
  c_cache (fst (step fs (fst (run fs c ops1)) Merge)) = [("a", Leaf (VInt 2)); ("b", Leaf (VInt 9))] /\
  first_existing fs "sys" = Some ("yml", FData (Node [("a", Leaf (VInt 2))])).
Proof.
  vm_compute. repeat split; try reflexivity.
  - repeat constructor.
  - repeat constructor; simpl; intuition discriminate.
Qed.

(** Non-vacuity of [C03_load_order_irrelevant]: every hypothesis instantiated on
    a concrete start state and two orders of the same plain (merge=True) loads --
    [cache_ok], [is_plain_load], distinct levels, [Permutation], both runs clean
    -- and the conclusion obtained FROM the theorem. *)
Example C03_example_load_order_irrelevant :
  let fs := [(("sys", "yml"), FData (Node [("a", Leaf (VInt 2))]));
             (("sys", "json"), FData (Node [("a", Leaf (VInt 3))]))] in
  let c := blank (Node []) (Node []) (Some "sys") (Some "usr") None None "INVOKE_" in
  let d := LoadDefaults (Node [("a", Leaf (VInt 1)); ("b", Leaf (VInt 1))]) in
  let o := LoadOverrides (Node [("b", Leaf (VInt 9))]) in
  let ops1 := [d; LoadSystem; o] in
  let ops2 := [o; d; LoadSystem] in
  cache_ok c /\
  Forall (fun x => is_plain_load x = true) ops1 /\ NoDup (map load_tag ops1) /\
  Permutation ops1 ops2 /\
  clean (snd (run fs c ops1)) = true /\ clean (snd (run fs c ops2)) = true /\
  c_cache (fst (run fs c ops1)) = c_cache (fst (run fs c ops2)) /\
  c_cache (fst (run fs c ops1)) = [("a", Leaf (VInt 2)); ("b", Leaf (VInt 9))].
Proof.
  cbv zeta.
  assert (H1 : cache_ok (blank (Node []) (Node []) (Some "sys") (Some "usr") None None "INVOKE_"))
    by (vm_compute; reflexivity).
  assert (H4 : Permutation
                 [LoadDefaults (Node [("a", Leaf (VInt 1)); ("b", Leaf (VInt 1))]); LoadSystem;
                  LoadOverrides (Node [("b", Leaf (VInt 9))])]
                 [LoadOverrides (Node [("b", Leaf (VInt 9))]);
                  LoadDefaults (Node [("a", Leaf (VInt 1)); ("b", Leaf (VInt 1))]); LoadSystem]).
  { apply Permutation_sym.
    apply (Permutation_cons_append
             [LoadDefaults (Node [("a", Leaf (VInt 1)); ("b", Leaf (VInt 1))]); LoadSystem]
             (LoadOverrides (Node [("b", Leaf (VInt 9))]))). }
  assert (H2 : Forall (fun x => is_plain_load x = true)
                 [LoadDefaults (Node [("a", Leaf (VInt 1)); ("b", Leaf (VInt 1))]); LoadSystem;
                  LoadOverrides (Node [("b", Leaf (VInt 9))])]) by (repeat constructor).
  assert (H3 : NoDup (map load_tag
                 [LoadDefaults (Node [("a", Leaf (VInt 1)); ("b", Leaf (VInt 1))]); LoadSystem;
                  LoadOverrides (Node [("b", Leaf (VInt 9))])])).
  { vm_compute. repeat constructor; simpl; intuition discriminate. }
  split; [exact H1|]. split; [exact H2|]. split; [exact H3|]. split; [exact H4|].
  split; [vm_compute; reflexivity|]. split; [vm_compute; reflexivity|].
  split; [|vm_compute; reflexivity].
  apply C03_load_order_irrelevant; try assumption; vm_compute; reflexivity.
Qed.
