From InvokeVerif Require Import Corr.C03Corr.
