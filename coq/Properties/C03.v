(** C03 -- Every setting comes from the highest-precedence level that defines
    it; load-order irrelevance; first existing suffix only.
    Statements only; proofs are in Proofs/C03_merge.v, C03_levels.v, C03_order.v. *)
From Coq Require Import Permutation.
From InvokeVerif Require Import Common.Tree Common.StrUtil Model.MergeModel Model.ConfigModel
     Spec.C03Spec Proofs.C03_merge Proofs.C03_levels Proofs.C03_order Proofs.C03_sweep.

(** Path lookup through [merge_dicts] for type-consistent trees: the merge
    succeeds, stays well-formed, and at every path shows what the update says
    (a leaf value, or "section"), else what the base says. *)
Theorem C03_merge_lookup : forall base us,
  wf (Node base) = true -> wf (Node us) = true -> agree (Node base) (Node us) ->
  exists m, merge_dicts base (Node us) = Ok m /\ wf (Node m) = true /\
    forall p, shape_at p (Node m) = orelse (shape_at p (Node us)) (shape_at p (Node base)).
Proof. exact merge_lookup. Qed.

Theorem C03_merge_keys_union : forall base us m,
  wf (Node base) = true -> wf (Node us) = true -> agree (Node base) (Node us) ->
  merge_dicts base (Node us) = Ok m ->
  forall k, has k m = has k base || has k us.
Proof. exact merge_keys_union. Qed.

(** Flagship: for ANY list of type-consistent levels (lowest precedence first)
    merging them in order succeeds and the view agrees with the per-setting
    oracle at EVERY path: a leaf with the value of the last level defining the
    path, a section where the defining levels have sections (so sections are the
    union of the levels' sections and every setting defined anywhere is visible),
    nothing elsewhere. *)
Theorem C03_highest_level_wins : forall ls,
  ls <> [] -> forallb wf ls = true -> forallb is_node ls = true -> levels_tc ls = true ->
  exists view, merge_all ls [] = Ok view /\ wf (Node view) = true /\
               forall p, shape_at p (Node view) = oracle p ls.
Proof. exact highest_level_wins. Qed.

(** The oracle spelled out: the shape at [p] is the one given by the last level
    in documented order that defines [p]. *)
Theorem C03_oracle_is_last_defining_level : forall p ls s,
  oracle p ls = Some s <->
  exists l1 L l2, ls = l1 ++ L :: l2 /\ shape_at p L = Some s /\
                  forall L', In L' l2 -> shape_at p L' = None.
Proof. exact oracle_some_iff. Qed.

(** The same, for a configuration object: what [merge()] computes from the nine
    levels (file levels taking part only when found) before deletions. *)
Theorem C03_highest_level_wins_config : forall c,
  forallb wf (levels_of c) = true -> forallb is_node (levels_of c) = true ->
  levels_tc (levels_of c) = true ->
  exists view, merge_levels c = Ok view /\ wf (Node view) = true /\
               forall p, shape_at p (Node view) = oracle p (levels_of c).
Proof.
  intros c H1 H2 H3. apply highest_level_wins; try assumption. discriminate.
Qed.

(** The model's merged view is accepted by the executable check of the spec. *)
Theorem C03_view_meets_spec : forall ls view,
  ls <> [] -> forallb wf ls = true -> forallb is_node ls = true -> levels_tc ls = true ->
  merge_all ls [] = Ok view -> view_ok ls (Node view) = true.
Proof. exact view_meets_spec. Qed.

(** The order in which [merge()] applies the levels, and the suffix preference,
    are the documented ones.  NOTE: this is a restatement of the model's own
    tables ([level_order], [file_suffixes]) -- it says the model was written to
    the documented order, nothing about the source.  The tie to the source text
    is the next theorem, [C03_order_matches_source]. *)
Theorem C03_order_is_documented :
  level_order = ["defaults"; "collection"; "system"; "user"; "project"; "env"; "runtime";
                 "overrides"; "modifications"] /\
  (forall c, map fst (level_list c) = level_order) /\
  file_suffixes = ["yaml"; "yml"; "json"; "py"].
Proof. split; [reflexivity|]. split; [exact level_list_names | reflexivity]. Qed.

(** Tie to the source text: the sequence of statements of [Config.merge] and the
    [_file_suffixes] tuple, re-read from invoke/config.py on every run
    (Generated/Tables.v), are the ones the model was written from.  [None] = the
    translator did not recognise the shape (behavioural correspondence only). *)
From InvokeVerif Require Generated.Tables.
Theorem C03_order_matches_source :
  match Generated.Tables.merge_order_src with
  | Some t => t = ["<reset>"; "defaults"; "collection"; "file:system"; "file:user"; "file:project";
                   "env"; "file:runtime"; "overrides"; "modifications"; "<obliterate deletions>"]
  | None => True
  end /\
  match Generated.Tables.file_suffixes_src with
  | Some t => t = file_suffixes
  | None => True
  end.
Proof. split; vm_compute; reflexivity. Qed.

(** Load-order irrelevance.  Any two orders of the same load calls on distinct
    levels (with or without merge=False), both running without an exception,
    leave the same level contents ... *)
Theorem C03_load_order_same_levels : forall fs c ops1 ops2,
  Forall (fun o => is_load_op o = true) ops1 -> NoDup (map load_tag ops1) ->
  Permutation ops1 ops2 ->
  clean (snd (run fs c ops1)) = true -> clean (snd (run fs c ops2)) = true ->
  strip (fst (run fs c ops1)) = strip (fst (run fs c ops2)).
Proof. exact load_order_same_levels. Qed.

(** ... the same view when every call merges (the default) ... *)
Theorem C03_load_order_irrelevant : forall fs c ops1 ops2,
  cache_ok c ->
  Forall (fun o => is_plain_load o = true) ops1 -> NoDup (map load_tag ops1) ->
  Permutation ops1 ops2 ->
  clean (snd (run fs c ops1)) = true -> clean (snd (run fs c ops2)) = true ->
  c_cache (fst (run fs c ops1)) = c_cache (fst (run fs c ops2)).
Proof. exact load_order_irrelevant. Qed.

(** ... the same state after a final merge() when some calls were deferred ... *)
Theorem C03_load_order_irrelevant_merge : forall fs c ops1 ops2,
  Forall (fun o => is_load_op o = true) ops1 -> NoDup (map load_tag ops1) ->
  Permutation ops1 ops2 ->
  clean (snd (run fs c ops1)) = true -> clean (snd (run fs c ops2)) = true ->
  step fs (fst (run fs c ops1)) Merge = step fs (fst (run fs c ops2)) Merge.
Proof. exact load_order_irrelevant_merge. Qed.

(** ... and the same outcome, environment level and view after the final
    load_shell_env() (the environment being read once the others are in place). *)
Theorem C03_load_order_irrelevant_env : forall fs c ops1 ops2 env,
  Forall (fun o => is_load_op o = true) ops1 -> NoDup (map load_tag ops1) ->
  Permutation ops1 ops2 ->
  clean (snd (run fs c ops1)) = true -> clean (snd (run fs c ops2)) = true ->
  step fs (fst (run fs c ops1)) (LoadShellEnv env) = step fs (fst (run fs c ops2)) (LoadShellEnv env).
Proof. exact load_order_irrelevant_env. Qed.

(** For each file location exactly the first existing candidate in the
    documented suffix order is read (an unreadable one is an error, later ones
    are never consulted).  The [None] line records a quirk of the code: a
    missing [.py] candidate loads as an empty dict instead of "not found". *)
Theorem C03_first_suffix_only : forall fs loc,
  try_suffixes fs loc file_suffixes =
  match first_existing fs loc with
  | Some (s, FData t) => LFound s t
  | Some (s, FIOErr) => LFail
  | None => LFound "py" (Node [])
  end.
Proof. exact first_suffix_only. Qed.

Theorem C03_later_candidates_irrelevant : forall fs fs' loc,
  first_existing fs loc = first_existing fs' loc ->
  try_suffixes fs loc file_suffixes = try_suffixes fs' loc file_suffixes.
Proof. exact later_candidates_irrelevant. Qed.

(** ABSENT: a theorem "for EVERY load script the model's run is accepted by the
    whole executable [spec_ok]" (levels read off the script by [supplied_of], the
    environment level, the suffixes read, every prefix of the script).  What is
    proved are its pieces -- the view against the oracle ([C03_highest_level_wins],
    [C03_view_meets_spec]), the first-existing-suffix rule ([C03_first_suffix_only]),
    load-order irrelevance, and the environment level (C16's theorems) -- but not
    that [supplied_of] reads off a script the same level contents the model ends
    up with.  That composition is only swept (next theorem) and exercised by the
    correspondence on every run. *)

(** A test, not the property: for two constructor settings (lazy/empty and
    eager with defaults+overrides), every script of at most 2 load calls from a
    14-letter alphabet (plain and merge=False variants of every level, merge())
    followed by merge(), load_shell_env() or both, over a file system with
    several candidates per location, the model's run is accepted by the FULL
    executable specification (view, environment level, suffixes read). *)
Theorem C03_model_meets_spec_bounded_2 :
  forallb (fun i => forallb (fun body => forallb (fun e => script_ok i (body ++ e)) endings)
                            (scripts 2)) inits = true.
Proof. exact model_meets_spec_bounded. Qed.

(** Non-vacuity: three type-consistent levels defining a common nested path, a
    section that is a union, and a script whose two orders satisfy the
    hypotheses of the load-order theorems. *)
Example C03_example_levels :
  let l1 := Node [("run", Node [("echo", Leaf (VBool false)); ("shell", Leaf (VStr "sh"))])] in
  let l2 := Node [("run", Node [("echo", Leaf (VBool true))]); ("n", Leaf (VInt 1))] in
  let l3 := Node [("run", Node [("pty", Leaf (VBool true)); ("echo", Leaf (VBool false))])] in
  forallb wf [l1; l2; l3] = true /\ levels_tc [l1; l2; l3] = true /\
  merge_all [l1; l2; l3] [] =
    Ok [("run", Node [("echo", Leaf (VBool false)); ("shell", Leaf (VStr "sh")); ("pty", Leaf (VBool true))]);
        ("n", Leaf (VInt 1))] /\
  oracle ["run"; "echo"] [l1; l2; l3] = Some (SLeaf (VBool false)) /\
  oracle ["run"] [l1; l2; l3] = Some SNode.
Proof. vm_compute. repeat split; reflexivity. Qed.

Example C03_example_orders :
  let fs := [(("sys", "yml"), FData (Node [("a", Leaf (VInt 2))]));
             (("sys", "json"), FData (Node [("a", Leaf (VInt 3))]))] in
  let c := blank (Node []) (Node []) (Some "sys") (Some "usr") None None "INVOKE_" in
  let ops1 := [LoadDefaultsD (Node [("a", Leaf (VInt 1)); ("b", Leaf (VInt 1))]); LoadSystem;
               LoadOverrides (Node [("b", Leaf (VInt 9))])] in
  let ops2 := [LoadOverrides (Node [("b", Leaf (VInt 9))]);
               LoadDefaultsD (Node [("a", Leaf (VInt 1)); ("b", Leaf (VInt 1))]); LoadSystem] in
  Forall (fun o => is_load_op o = true) ops1 /\ NoDup (map load_tag ops1) /\
  clean (snd (run fs c ops1)) = true /\ clean (snd (run fs c ops2)) = true /\
  c_cache (fst (step fs (fst (run fs c ops1)) Merge)) = [("a", Leaf (VInt 2)); ("b", Leaf (VInt 9))] /\
  first_existing fs "sys" = Some ("yml", FData (Node [("a", Leaf (VInt 2))])).
Proof.
  vm_compute. repeat split; try reflexivity.
  - repeat constructor.
  - repeat constructor; simpl; intuition discriminate.
Qed.
