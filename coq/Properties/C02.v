(** C02 -- captured and mirrored output equals what the command wrote.
    Statements only; proofs in Proofs/C02_decode.v and Proofs/C02_loop.v.
    Kinds: plain = full strength on the faithful model; [_partial] = under an
    explicit boolean guard; [_refuted] = the faithful model violates the full
    statement (defect F-C02); [C02_repaired_*] = full strength, but about the
    REPAIRED read loop (incremental decoder), not about the code as it is. *)
From InvokeVerif Require Import Corr.C02Corr Proofs.C02_decode Proofs.C02_loop.
Local Open Scope N_scope.

(** Layer 1a: the transducer model computes the reference decoding
    (Table 3-7 + maximal-subpart replacement) of every byte string. *)
Theorem C02_decoder_is_reference :
  forall (e : enc) (bs : bytes), decode_all e bs = ref_decode e bs.
Proof. exact decoder_is_reference. Qed.

(** Layer 1b: what the code does (decode each read afresh) against decoding
    the whole stream.  FALSE in general ... *)
Theorem C02_chunked_decode_refuted :
  exists chunks, List.concat (decode_chunks Utf8 chunks) <> decode_all Utf8 (List.concat chunks).
Proof. exact chunked_decode_refuted. Qed.

(** ... true when every read but the last ends at a character boundary
    (missing: cuts inside a multi-byte sequence, F-C02) ... *)
Theorem C02_chunked_decode_partial :
  forall e chunks, cuts_at_initial e chunks = true ->
    List.concat (decode_chunks e chunks) = decode_all e (List.concat chunks).
Proof. exact chunked_decode_partial. Qed.

(** ... and unconditionally for the single-byte encodings. *)
Theorem C02_chunked_decode_single_byte :
  forall e chunks, e <> Utf8 ->
    List.concat (decode_chunks e chunks) = decode_all e (List.concat chunks).
Proof. exact chunked_decode_stateless. Qed.

(** Repaired loop (one incremental decoder per stream, flushed at EOF):
    full statement, every chunking. *)
Theorem C02_repaired_chunked_decode :
  forall e chunks, List.concat (decode_chunks_inc e DInit chunks) = decode_all e (List.concat chunks).
Proof. exact chunked_decode_repaired. Qed.

Theorem C02_repaired_chunking_irrelevant :
  forall e c1 c2, List.concat c1 = List.concat c2 ->
    List.concat (decode_chunks_inc e DInit c1) = List.concat (decode_chunks_inc e DInit c2).
Proof. exact repaired_chunking_irrelevant. Qed.

(** Layer 2: the read loop.  Every read before EOF is captured once, in order. *)
Theorem C02_loop_capture_all :
  forall e hide script, lo_buf (handle_output e hide script []) = decode_chunks e (chunks_of script).
Proof. exact loop_capture_all. Qed.

Theorem C02_hidden_receives_nothing :
  forall e script buf, lo_writes (handle_output e true script buf) = [].
Proof. exact loop_hidden_receives_nothing. Qed.

Theorem C02_mirror_equals_capture :
  forall e script, lo_writes (handle_output e false script []) = lo_buf (handle_output e false script []).
Proof. exact loop_mirror_equals_capture. Qed.

(** Watchers see the growing prefixes of the captured text. *)
Theorem C02_loop_submits_growing :
  forall e hide script,
    lo_submits (handle_output e hide script []) = growing [] (decode_chunks e (chunks_of script)).
Proof. exact loop_submits_growing. Qed.

(** "even when the process exits right after writing": the position of the
    exit event in the script does not matter. *)
Theorem C02_exit_position_irrelevant :
  forall e hide s1 s2 buf, chunks_of s1 = chunks_of s2 ->
    handle_output e hide s1 buf = handle_output e hide s2 buf.
Proof. exact loop_exit_irrelevant. Qed.

(** [normalize_hide] (with the async override) is the documented table (finite: 8 x 2 x 2 x 2). *)
Theorem C02_hide_table :
  forall h async out_given err_given,
    effective_hide h async out_given err_given =
    (stdout_hidden (to_req h) async out_given, stderr_hidden (to_req h) async err_given).
Proof. exact hide_table. Qed.

(** Flagship: the run model satisfies the executable spec on all inputs ...
    FALSE at full strength (F-C02) *)
Theorem C02_run_meets_spec_refuted : exists i, spec_in i (run_model i) = false.
Proof. exact run_meets_spec_refuted. Qed.

(** ... true when no read boundary of a captured stream cuts a character ... *)
Theorem C02_run_meets_spec_partial :
  forall i, chunk_guard i = true -> spec_in i (run_model i) = true.
Proof. exact run_meets_spec_partial. Qed.

(** ... true for the single-byte encodings without any guard ... *)
Theorem C02_run_meets_spec_single_byte :
  forall i, ri_enc i <> Utf8 -> spec_in i (run_model i) = true.
Proof. exact run_meets_spec_stateless. Qed.

(** ... and true without any guard for the repaired loop. *)
Theorem C02_repaired_run_meets_spec : forall i, spec_in i (run_model_inc i) = true.
Proof. exact repaired_run_meets_spec. Qed.

(** Non-vacuity: guards inhabited by non-trivial objects. *)
Example C02_ex_decoder :      (* a, e-acute, euro sign, a truncated 4-byte sequence, a surrogate *)
  decode_all Utf8 [97; 195; 169; 226; 130; 172; 240; 159; 65; 237; 160; 128]
  = [97; 233; 8364; REPL; 65; REPL; REPL; REPL].
Proof. vm_compute. reflexivity. Qed.

Example C02_ex_partial_guard :
  cuts_at_initial Utf8 [[97; 195; 169]; [226; 130; 172]; [240; 159]] = true /\
  List.concat (decode_chunks Utf8 [[97; 195; 169]; [226; 130; 172]; [240; 159]]) = [97; 233; 8364; REPL].
Proof. vm_compute. split; reflexivity. Qed.

Example C02_ex_run_guard :
  let i := mkIn Utf8 [RChunk [195; 169]; RExit; RChunk [226; 130; 172]] [RChunk [255]; RChunk [65]]
                HErr false false false false in
  chunk_guard i = true /\
  run_model i = mkObs [233; 8364] [REPL; 65] [233; 8364] [] [[233]; [233; 8364]] [[REPL]; [REPL; 65]].
Proof. vm_compute. split; reflexivity. Qed.

Example C02_ex_repaired_witness :   (* the refutation witness, decoded by the repaired loop *)
  run_model_inc witness_in = mkObs [233] [] [233] [] [[233]] [] /\
  run_model witness_in = mkObs [REPL; REPL] [] [REPL; REPL] [] [[REPL]; [REPL; REPL]] [].
Proof. vm_compute. split; reflexivity. Qed.
