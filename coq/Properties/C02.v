(** C02 -- captured and mirrored output equals what the command wrote.
    Statements only; proofs in Proofs/C02_decode.v and Proofs/C02_loop.v.

    The code decodes each stream with ONE incremental decoder, flushed at EOF
    (fix of F-C02).  The faithful model of that loop is [handle_output_inc] /
    [decode_chunks_inc] / [run_model_inc]; all headline theorems are about it and
    hold at full strength, without any guard.  The per-read loop the code had
    before the fix ([handle_output], [decode_chunks], [run_model]) is kept in the
    "Historical record" section at the end. *)
From InvokeVerif Require Import Corr.C02Corr Proofs.C02_decode Proofs.C02_loop.
Local Open Scope N_scope.

(** Layer 1a: the transducer model computes the reference decoding
    (Table 3-7 + maximal-subpart replacement) of every byte string. *)
Theorem C02_decoder_is_reference :
  forall (e : enc) (bs : bytes), decode_all e bs = ref_decode e bs.
Proof. exact decoder_is_reference. Qed.

(** Layer 1b: decoding across read boundaries -- every chunking, every encoding. *)
Theorem C02_chunked_decode :
  forall e chunks, List.concat (decode_chunks_inc e DInit chunks) = decode_all e (List.concat chunks).
Proof. exact chunked_decode_repaired. Qed.

Theorem C02_chunking_irrelevant :
  forall e c1 c2, List.concat c1 = List.concat c2 ->
    List.concat (decode_chunks_inc e DInit c1) = List.concat (decode_chunks_inc e DInit c2).
Proof. exact repaired_chunking_irrelevant. Qed.

(** Layer 2: the read loop.  Nothing lost, duplicated or reordered: the captured
    text is the decoding of the complete byte stream delivered before EOF. *)
Theorem C02_loop_capture_all :
  forall e hide script,
    List.concat (lo_buf (handle_output_inc e hide DInit script [])) = decode_all e (stream_bytes script).
Proof. exact inc_capture_all. Qed.

(* (near-definitional: the loop writes under [if hide then ... else ...]; the content is in the shape lemma) *)
Theorem C02_hidden_receives_nothing :
  forall e script st buf, lo_writes (handle_output_inc e true st script buf) = [].
Proof. exact inc_writes_hidden. Qed.

(** piece by piece, in the same order (near-definitional, from the shape lemma) *)
Theorem C02_mirror_equals_capture :
  forall e script,
    lo_writes (handle_output_inc e false DInit script []) = lo_buf (handle_output_inc e false DInit script []).
Proof. exact inc_mirror_equals_capture. Qed.

(** Watchers see the growing prefixes of the captured text. *)
Theorem C02_loop_submits_growing :
  forall e hide script,
    lo_submits (handle_output_inc e hide DInit script []) =
    growing [] (lo_buf (handle_output_inc e hide DInit script [])).
Proof. exact inc_submits_growing. Qed.

(** "even when the process exits right after writing": the position of the
    exit event in the script does not matter. *)
Theorem C02_exit_position_irrelevant :
  forall e hide st s1 s2 buf, chunks_of s1 = chunks_of s2 ->
    handle_output_inc e hide st s1 buf = handle_output_inc e hide st s2 buf.
Proof. exact inc_exit_irrelevant. Qed.

(** [normalize_hide] (with the async override) is the documented table (finite: 8 x 2 x 2 x 2). *)
Theorem C02_hide_table :
  forall h async out_given err_given,
    effective_hide h async out_given err_given =
    (stdout_hidden (to_req h) async out_given, stderr_hidden (to_req h) async err_given).
Proof. exact hide_table. Qed.

(** The mirror stream's [encoding] attribute.  The text handed to [write()] of the
    out/err stream, call by call, is the same whatever the stream objects advertise
    as their encoding and whatever kind of stream they are ... *)
Theorem C02_writes_independent_of_mirror :
  forall i mo me mo' me',
    run_writes_inc (with_mirrors i mo me) = run_writes_inc (with_mirrors i mo' me').
Proof. exact writes_independent_of_mirror. Qed.

(** ... so for recording streams the whole observation (captured texts, mirrored
    texts, watcher submissions) is independent of the advertised encodings *)
Theorem C02_mirror_encoding_irrelevant :
  forall i eo ee eo' ee',
    run_model_inc (with_mirrors i (mkMirror eo false) (mkMirror ee false)) =
    run_model_inc (with_mirrors i (mkMirror eo' false) (mkMirror ee' false)).
Proof. exact run_independent_of_mirror_encoding. Qed.

(** ... and an unhidden recording stream holds exactly the captured text *)
Theorem C02_recording_mirror_is_capture :
  forall i eo,
    ri_out_mirror i = mkMirror eo false ->
    fst (effective_hide (ri_hide i) (ri_async i) (ri_out_given i) (ri_err_given i)) = false ->
    ro_out_stream (run_model_inc i) = ro_stdout (run_model_inc i).
Proof. exact recording_mirror_is_capture. Qed.

(** A stream with its own error handler (TextIOWrapper, backslashreplace) that is
    written to piece by piece ends up like an identical stream given the whole
    text in one write: its handler is applied to the text the command wrote. *)
Theorem C02_stream_content_one_write :
  forall m writes, stream_content m writes = stream_content m [List.concat writes].
Proof. exact stream_content_one_write. Qed.

Theorem C02_wrapper_mirror_is_rendered_capture :
  forall i eo,
    ri_out_mirror i = mkMirror eo true ->
    fst (effective_hide (ri_hide i) (ri_async i) (ri_out_given i) (ri_err_given i)) = false ->
    ro_out_stream (run_model_inc i) = render eo (ro_stdout (run_model_inc i)).
Proof. exact wrapper_mirror_is_rendered_capture. Qed.

(** Pty asked for vs pty in effect.  [Local.should_use_pty] is the documented rule: a pty is
    in effect iff one was asked for and (sys.stdin has a fileno or fallback is switched off). *)
Theorem C02_pty_rule :
  forall pty stdin_fileno fallback,
    should_use_pty pty stdin_fileno fallback = pty_in_effect pty stdin_fileno fallback.
Proof. exact pty_rule. Qed.

(** The set of streams that are read follows what is IN EFFECT: with plain pipes -- also
    when a pty had been asked for and the run fell back -- stderr is captured in full ... *)
Theorem C02_pipes_stderr_captured :
  forall i, using_pty i = false ->
    ro_stderr (run_model_inc i) = decode_all (ri_enc i) (stream_bytes (ri_err i)).
Proof. exact pipes_stderr_captured. Qed.

(** ... under a pty there is no stderr pipe: nothing captured, submitted or forwarded *)
Theorem C02_pty_stderr_empty :
  forall i, using_pty i = true ->
    ro_stderr (run_model_inc i) = [] /\ ro_err_submits (run_model_inc i) = [] /\
    ro_err_stream (run_model_inc i) = [].
Proof. exact pty_stderr_empty. Qed.

(** ... and the request, sys.stdin and the fallback option matter only through it: a run
    whose pty request fell back to pipes is observably a run that never asked for one. *)
Theorem C02_run_depends_on_pty_in_effect :
  forall i p f b p' f' b', pty_in_effect p f b = pty_in_effect p' f' b' ->
    run_model_inc (with_pty_request i p f b) = run_model_inc (with_pty_request i p' f' b').
Proof. exact run_depends_on_pty_in_effect. Qed.

Theorem C02_fallback_run_is_plain_run :
  forall i f b,
    run_model_inc (with_pty_request i true false true) = run_model_inc (with_pty_request i false f b).
Proof. exact fallback_run_is_plain_run. Qed.

(** Flagship: the run model satisfies the executable spec on ALL inputs
    (all mirror-stream encodings and kinds included). *)
Theorem C02_run_meets_spec : forall i, spec_in i (run_model_inc i) = true.
Proof. exact repaired_run_meets_spec. Qed.

(** Non-vacuity. *)
Example C02_ex_decoder :      (* a, e-acute, euro sign, a truncated 4-byte sequence, a surrogate *)
  decode_all Utf8 [97; 195; 169; 226; 130; 172; 240; 159; 65; 237; 160; 128]
  = [97; 233; 8364; REPL; 65; REPL; REPL; REPL].
Proof. vm_compute. reflexivity. Qed.

Example C02_ex_run :          (* characters cut by read boundaries on both streams, stderr hidden *)
  let i := mkIn Utf8 [RChunk [195]; RExit; RChunk [169; 226]; RChunk [130; 172]] [RChunk [255]; RChunk [240; 159]]
                HErr false false false true true false (mkMirror MNone false) (mkMirror MNone false) in
  run_model_inc i = mkObs [233; 8364] [REPL; REPL] [233; 8364] [] [[233]; [233; 8364]] [[REPL]; [REPL; REPL]].
Proof. vm_compute. reflexivity. Qed.

Example C02_ex_mirror :       (* e-acute cut by a read, euro sign, an invalid byte; an ASCII recording stream on
                                 stdout gets the text itself, an ASCII backslashreplace wrapper on stderr its escapes *)
  let i := mkIn Utf8 [RChunk [195]; RChunk [169; 226; 130; 172; 255]] [RChunk [195; 169]; RExit; RChunk [240; 159; 152; 128]]
                HNone false false false true true false (mkMirror MAscii false) (mkMirror MAscii true) in
  run_model_inc i =
  mkObs [233; 8364; REPL] [233; 128512] [233; 8364; REPL]
        [92; 120; 101; 57;  92; 85; 48; 48; 48; 49; 102; 54; 48; 48]        (* \xe9\U0001f600 *)
        [[233; 8364; REPL]] [[233]; [233; 128512]] /\
  ro_out_stream (run_model_inc (with_mirrors i (mkMirror MCp1252 true) (mkMirror MLatin1 false)))
  = [233; 8364; 92; 117; 102; 102; 102; 100].                              (* e-acute, euro, \ufffd *)
Proof. vm_compute. split; reflexivity. Qed.

Example C02_ex_pty_fallback : (* the same command: pty asked for and in effect (no stderr pipe); asked for but
                                 sys.stdin has no fileno -> pipes, stderr captured and forwarded; the same with
                                 fallback switched off -> pty after all *)
  let i := mkIn Utf8 [RChunk [111]; RExit] [RChunk [195]; RChunk [169; 10]]
                HNone false false true true true false (mkMirror MNone false) (mkMirror MNone false) in
  using_pty i = true /\
  run_model_inc i = mkObs [111] [] [111] [] [[111]] [] /\
  using_pty (with_pty_request i true false true) = false /\
  run_model_inc (with_pty_request i true false true) = mkObs [111] [233; 10] [111] [233; 10] [[111]] [[233; 10]] /\
  run_model_inc (with_pty_request i true false false) = run_model_inc i.
Proof. vm_compute. repeat split; reflexivity. Qed.

(** * Historical record: the per-read loop before the fix of F-C02
    ([self.decode(data)] once per read, a fresh decoder each time). *)

Theorem C02_chunked_decode_historical_refuted :
  exists chunks, List.concat (decode_chunks Utf8 chunks) <> decode_all Utf8 (List.concat chunks).
Proof. exact chunked_decode_refuted. Qed.

Theorem C02_run_meets_spec_historical_refuted : exists i, spec_in i (run_model i) = false.
Proof. exact legacy_run_refuted. Qed.

(** what did hold of the old loop: no read boundary inside a character *)
Theorem C02_chunked_decode_historical_partial :
  forall e chunks, cuts_at_initial e chunks = true ->
    List.concat (decode_chunks e chunks) = decode_all e (List.concat chunks).
Proof. exact chunked_decode_partial. Qed.

Theorem C02_run_meets_spec_historical_partial :
  forall i, chunk_guard i = true -> spec_in i (run_model i) = true.
Proof. exact run_meets_spec_partial. Qed.

Example C02_ex_historical_witness :   (* c3|a9: old loop vs the loop as it is *)
  run_model witness_in = mkObs [REPL; REPL] [] [REPL; REPL] [] [[REPL]; [REPL; REPL]] [] /\
  run_model_inc witness_in = mkObs [233] [] [233] [] [[233]] [].
Proof. vm_compute. split; reflexivity. Qed.
