From InvokeVerif Require Import Corr.C06Corr.
