(** C06 -- A config behaves like a nested dict under any history of edits and
    reloads.  Statements only; proofs are in Proofs/C06_shapes.v, C06_track.v,
    C06_refine.v, C06_witness.v.

    The full statement ("the model's trace of EVERY history is accepted by the
    executable specification") is FALSE of the faithful model: three independent
    refutations below (F-C06a dict write, F-C06e stale held proxy, F-C06b proxy
    held across a deletion).  What is proved for all histories is the partial
    form under a boolean guard -- including, since wave 4, acceptance of the
    model's whole trace by the executable [spec_ok] itself
    ([C06_model_trace_meets_spec]); what the guard leaves out is listed there and
    is covered by the bounded sweep (a test) and by the correspondence search. *)
From InvokeVerif Require Import Common.Tree Common.StrUtil Model.MergeModel Model.ConfigModel
     Spec.C03Spec Spec.C06Spec Proofs.C03_merge Proofs.C06_shapes Proofs.C06_track Proofs.C06_refine
     Proofs.C06_witness Proofs.C06_union Proofs.C06_final Proofs.C06_held Proofs.C06_specrun
     Proofs.C06_flagship.
From InvokeVerif Require Proofs.C06_flagship_corr Corr.C06Corr.

(** Representation lemma behind everything: a leaf written at a path where the
    schema has a leaf, with nothing above it marked deleted, turns "journal J"
    into "journal J ++ [write]" -- for every base the lower levels may later be
    reloaded to. *)
Theorem C06_write_is_journalled : forall S M D J kp k x y,
  inv S M D J -> shape_at (kp ++ [k]) S = Some (SLeaf y) -> clear_above D (kp ++ [k]) ->
  inv S (mod_set M kp k (Leaf x)) (excise D (kp ++ [k])) (J ++ [JSet (kp ++ [k]) (Leaf x)]).
Proof. exact inv_write. Qed.

Theorem C06_delete_is_journalled : forall S M D J p,
  inv S M D J -> p <> [] -> clear_above D p ->
  inv S M (set_path D p mark) (J ++ [JDel p]).
Proof. exact inv_delete. Qed.

(** Guard ([good0 S c0] and [op_ok S] on every operation): [S] is a schema (a
    tree saying which paths are sections and which are leaves) to which all
    level contents conform; the history starts from a merged state without
    edits; every operation navigates from the root and is a read (get, contains,
    len, keys, .get(k[,d]), items/values/dict view, ==), a deletion (del, pop, popitem, clear), a write of LEAVES where the
    schema has leaves (set, setdefault with or without default, update), a
    reload of the defaults / overrides / collection level with conforming data,
    or load_shell_env with ANY environment (its level is computed by
    Environment.load against the merged view; C16's theorems give that it is a
    well-formed dict conforming to the schema).
    [update(mapping, **kw)] (mapping first, then the keyword arguments) is
    inside the guard as well.
    MISSING w.r.t. the full statement -- every operation of the model that
    [op_ok] rejects: dict-valued writes, i.e. a [Node] value in set /
    setdefault / update (false: F-C06a); operations through held proxies (false:
    F-C06e, F-C06b; see the held-proxy theorem below for what does hold);
    [UpdateProxy] (update(<section of the same config>), false: F-C06g);
    [RawSet] (edit through the raw dict handed out by get(), false: F-C06h);
    [LeafAppend] (in-place edit of a list leaf: not tracked by the config at
    all); the file loads [LoadSystem/User/Project/Runtime], the re-pointings
    [SetProjectLocation/SetRuntimePath], every [merge=False] load
    ([Load*D]) and [Merge], and [Clone] (with or without [into]).  These are
    judged by the executable specification on every generated history (the
    correspondence + spec check) and the reloads/clone by the bounded sweep
    below, but no universally quantified theorem covers them.  Returned values: this theorem is about
    the view; [C06_model_trace_meets_spec] below adds outcomes and the whole
    executable [spec_ok].
    Under the guard the view after the history shows, at every path, exactly
    what the journal of successful edits replayed over the merge of the CURRENT
    lower levels shows ([sim]: same leaf value / section / nothing at every
    path, i.e. dict equality up to key order, empty sections included). *)
Theorem C06_refines_nested_dict_partial : forall S fs c0 ops,
  is_node S = true -> good0 S c0 = true -> forallb (op_ok S) ops = true ->
  let c := fst (run fs c0 ops) in
  sim (Node (c_cache c)) (Node (replay (union_of (lower c)) (journal fs c0 ops))).
Proof. exact refines_nested_dict_union. Qed.

(** The same against the model's own merge of the lower levels. *)
Theorem C06_refines_nested_dict_merge_partial : forall S fs c0 ops,
  is_node S = true -> good0 S c0 = true -> forallb (op_ok S) ops = true ->
  let c := fst (run fs c0 ops) in
  exists X, merge_all (lower c) [] = Ok X /\ wf (Node X) = true /\
            sim (Node (c_cache c)) (Node (replay (Node X) (journal fs c0 ops))).
Proof. exact refines_nested_dict. Qed.

(** The specification's deep union of type-consistent levels and the model's
    merge of them show the same at every path. *)
Theorem C06_union_is_merge : forall ls X,
  (forall l, In l ls -> wf l = true /\ is_node l = true) ->
  (forall a b, In a ls -> In b ls -> agree a b) ->
  merge_all ls [] = Ok X -> sim (union_of ls) (Node X).
Proof. exact union_sim_merge. Qed.

(** The journal of the theorem above is built from what the MODEL decided
    (navigation succeeded, the key was there).  These are the nested dict's own
    decisions: whenever the model's view and a reference dict show the same at
    every path, the specification's nested-dict step ([C06Spec.nd_step], the
    function [spec_ok] judges with) on the reference logs exactly the journal
    entries the model logs -- for get/contains/len/keys/set/del/pop/setdefault/
    update literally, for clear the same set of deletions (the key order of the
    two dicts may differ), and navigation fails in both or neither with the same
    exception class.  (popitem is judged by the spec on the observed key.)
    By induction the reference state of [spec_ok]'s judge stays [sim] to the
    model's view along a guarded history; the boolean [spec_ok] itself on the
    model's trace (returned values compared with [dict_equiv], the levels read
    off the load calls by [supplied_of]) is [C06_model_trace_meets_spec] below. *)
Theorem C06_model_decisions_are_spec_decisions : forall c st o out,
  sim (Node (c_cache c)) (Node st) -> literal_op o = true ->
  snd (nd_step st o out) = events_of c o.
Proof. exact decisions_agree. Qed.

Theorem C06_clear_deletes_the_same_keys : forall c st fl kp d1 d2,
  sim (Node (c_cache c)) (Node st) -> nav fl (c_cache c) kp = Ok d1 -> walk fl st kp = Ok d2 ->
  forall k, In k (keys d1) <-> In k (keys d2).
Proof. exact clear_same_keys. Qed.

Theorem C06_navigation_errors_agree : forall c st fl kp,
  sim (Node (c_cache c)) (Node st) ->
  forall e, nav fl (c_cache c) kp = Err e <-> walk fl st kp = Err e.
Proof. exact nav_errors_agree. Qed.

(** FLAGSHIP AGAINST THE SPECIFICATION ITSELF.  For EVERY file system, constructor
    arguments and history of root-navigated operations inside the guard, the
    model's own trace -- outcome, deep view and environment level after every
    call -- is accepted by the executable specification [C06Spec.spec_ok]:
    every returned value / exception is the one the nested dict gives
    ([out_match]: values compared as dicts), after every call the view equals
    the reference dict ([tree_equiv]), the reference being the journal of the
    successful edits replayed over the deep union of the levels the
    specification reads off the load calls ([supplied_of], through C03's
    [corr_levels]), and the environment level changes only at load_shell_env.
    Guard: [good0 S c0] (the levels the constructor merged conform to a schema
    [S]; no edits yet), [op_ok S] on every call (as in the partial theorem above:
    reads, deletions, clear, popitem, LEAF writes where the schema has leaves,
    conforming reloads of defaults/collection/overrides, load_shell_env with any
    environment) and [op_wf] (default values handed to pop / get / setdefault
    are well-formed trees: a Python dict cannot have duplicate keys).
    NOT covered (each is a recorded refutation or a labelled test below):
    dict-valued writes (F-C06a), operations through held proxies (F-C06e,
    F-C06b), file-level reloads / clone inside the history (bounded sweep). *)
Theorem C06_model_trace_meets_spec : forall S fs i c0 ops,
  is_node S = true -> start fs i = Ok c0 -> good0 S c0 = true ->
  forallb (hist_ok S) ops = true ->
  C06Spec.spec_ok fs i (Node (c_cache c0)) (mtrace fs c0 ops) = true.
Proof. exact model_trace_meets_spec. Qed.

(** The same on the correspondence record whose observations are the session
    model's ([srun] on [map Plain ops]): accepted by [C06Corr.spec]. *)
Theorem C06_model_case_meets_spec : forall S fs i c0 ops,
  is_node S = true -> start fs i = Ok c0 -> good0 S c0 = true ->
  forallb (hist_ok S) ops = true ->
  C06Corr.spec (C06_flagship_corr.model_case fs i c0 ops) = true.
Proof. exact C06_flagship_corr.model_case_meets_spec. Qed.

(** [mtrace] is the session model's trace paired with the calls. *)
Theorem C06_mtrace_is_session_trace : forall fs ops s,
  C06Corr.zip_trace (map Plain ops)
    (map C06_flagship_corr.view_step (snd (srun fs s (map Plain ops)))) = mtrace fs (s_cfg s) ops.
Proof. exact C06_flagship_corr.mtrace_srun. Qed.

(** Two pieces of the flagship that read well on their own.  (1) Under the
    guard the model's outcome IS the nested dict's outcome computed on the
    model's own view, and the journal entries are the nested dict's. *)
Theorem C06_model_outcome_is_nested_dict_outcome : forall S fs c J o,
  is_node S = true -> good S c J -> op_ok S o = true -> guarded_path_op o = true ->
  snd (step fs c o) = fst (nd_step (c_cache c) o (snd (step fs c o))) /\
  snd (nd_step (c_cache c) o (snd (step fs c o))) = events_of c o /\
  lower (fst (step fs c o)) = lower c.
Proof. exact model_out_is_nd_out. Qed.

(** (2) The nested-dict step gives matching outcomes on any two well-formed
    dicts that show the same at every path (key order may differ). *)
Theorem C06_nested_dict_step_respects_dict_equality : forall d1 d2 o obs,
  wf (Node d1) = true -> wf (Node d2) = true -> sim (Node d1) (Node d2) ->
  guarded_path_op o = true -> op_wf o = true ->
  out_match (fst (nd_step d2 o obs)) (fst (nd_step d1 o obs)) = true.
Proof. exact nd_out_sim. Qed.

Theorem C06_same_shapes_are_equal_dicts : forall a b,
  wf a = true -> wf b = true -> sim a b -> tree_equiv a b = true.
Proof. exact sim_tree_equiv. Qed.

(** Non-vacuity of the flagship: a history inside the guard (leaf write,
    deletion, pop with default, clear, popitem, setdefault, update, reload that
    re-supplies deleted keys, load_shell_env, reads) whose judged trace has one
    entry per call, starts in scope, and is NOT accepted when one returned value
    in it is altered -- the judge runs to the end and bites. *)
Example C06_flagship_example :
  let S := Node [("a", Node [("x", Leaf VNone); ("y", Leaf VNone)]); ("k", Leaf VNone)] in
  let d0 := Node [("a", Node [("x", Leaf (VInt 0)); ("y", Leaf (VInt 0))]); ("k", Leaf (VInt 1))] in
  let i := mkInit d0 (Node []) None None false in
  let ops := [SetV Item ["a"] "x" (Leaf (VInt 1)); Del Attr ["a"] "y"; Pop Item [] "zz" (Some (Leaf (VInt 7)));
              Clear Item ["a"]; SetDefault Item ["a"] "x" None;
              LoadDefaults (Node [("a", Node [("y", Leaf (VInt 5))]); ("k", Leaf (VInt 2))]);
              LoadShellEnv [("INVOKE_K", "4")]; PopItem Item [];
              Update Item [] [("k", Leaf (VInt 3))]; Get Item [] "k"; Keys Item []] in
  match start [] i with
  | Ok c0 =>
      good0 S c0 = true /\ forallb (hist_ok S) ops = true /\
      scope_ok [] i [] (Node []) = true /\
      List.length (mtrace [] c0 ops) = 11 /\
      C06Spec.spec_ok [] i (Node (c_cache c0)) (mtrace [] c0 ops) = true /\
      C06Spec.spec_ok [] i (Node (c_cache c0))
        (map (fun x => match x with
                       | (Plain (Get fl kp k), _, v, e) => (Plain (Get fl kp k), OVal (Leaf (VInt 99)), v, e)
                       | _ => x end) (mtrace [] c0 ops)) = false
  | Err _ => False
  end.
Proof. vm_compute. repeat split; reflexivity. Qed.

(** The same with HELD nested proxies in the history ([Hold h fl kp]: [h = c.<kp>];
    [Via h o]: operation [o] through the held proxy, which reads and decides from
    its own -- possibly stale -- snapshot of the cache generation it was fetched
    from, and reports the edit to the root by key path).  Guard [sguard]
    (decidable along the run): every operation satisfies [op_ok] (as above) and,
    for an operation through a held proxy, the section it addresses is still
    navigable in the LIVE view at that moment (so nothing above it is masked:
    the F-C06b corner is outside).  Conclusion: the view is the journal of the
    edits that went through (as the snapshots decided) replayed over the current
    lower levels, and no internal error occurs.  What a stale snapshot can get
    wrong is the DECISION (read a stale value, KeyError for a key that exists,
    delete a key already gone: F-C06e, refuted above) -- never the consistency
    of the root's bookkeeping.  This is the theorem the regression "no merge()
    after recording a deletion" breaks at the model level: the cache would no
    longer be the merge of the levels ([g_cache]). *)
Theorem C06_refines_nested_dict_held_partial : forall S fs c0 ops,
  is_node S = true -> good0 S c0 = true -> sguard S fs (sstart c0) ops = true ->
  let c := s_cfg (fst (srun fs (sstart c0) ops)) in
  exists X, merge_all (lower c) [] = Ok X /\ wf (Node X) = true /\
            sim (Node (c_cache c)) (Node (replay (Node X) (sjournal fs (sstart c0) ops))) /\
            Forall (fun ov => forall e, fst (fst ov) = OErr e -> e = EKey \/ e = EAttr \/ e = EType \/ e = EAmbigEnv \/ e = EValue \/ e = EUncastable)
                   (snd (srun fs (sstart c0) ops)).
Proof. exact refines_nested_dict_held. Qed.

(** Under the same guard no operation fails with anything but KeyError /
    AttributeError for a missing key (or the TypeError of walking through a leaf,
    which a nested dict raises too) or one of the three documented refusals of
    load_shell_env: no AmbiguousMergeError, no error from [excise]/[obliterate],
    ever. *)
Theorem C06_no_internal_error_partial : forall S fs c0 ops,
  is_node S = true -> good0 S c0 = true -> forallb (op_ok S) ops = true ->
  Forall (fun ov => forall e, fst ov = OErr e -> e = EKey \/ e = EAttr \/ e = EType \/ e = EAmbigEnv \/ e = EValue \/ e = EUncastable)
         (snd (run fs c0 ops)).
Proof. exact no_internal_error. Qed.

(** "A written value is read back", "a deleted key stays absent" on any state
    reached under the guard ([good]). *)
Theorem C06_written_leaf_reads_back_partial : forall S fs c J fl kp k x d0,
  is_node S = true -> good S c J -> leaf_in S (kp ++ [k]) = true ->
  nav fl (c_cache c) kp = Ok d0 ->
  shape_at (kp ++ [k]) (Node (c_cache (fst (step fs c (SetV fl kp k (Leaf x)))))) = Some (SLeaf x).
Proof. exact written_leaf_reads_back. Qed.

Theorem C06_deleted_key_is_absent_partial : forall S fs c J fl kp k d0 t,
  is_node S = true -> good S c J -> nav fl (c_cache c) kp = Ok d0 -> get k d0 = Some t ->
  forall r, shape_at ((kp ++ [k]) ++ r) (Node (c_cache (fst (step fs c (Del fl kp k))))) = None.
Proof. exact deleted_key_is_absent. Qed.

(** The state invariant is kept by every guarded operation (the induction step). *)
Theorem C06_step_keeps_invariant_partial : forall S fs c J o,
  is_node S = true -> good S c J -> op_ok S o = true ->
  good S (fst (step fs c o)) (J ++ events_of c o) /\ benign (snd (step fs c o)).
Proof. exact step_good. Qed.

(** Refutations of the full statement on the faithful model (the same
    histories are the witnesses of the known findings, replayed on the real code
    on every run). *)
Theorem C06_refuted_dict_write :
  exists i ops, model_meets_spec [] i ops = false /\
                ops = [Plain (SetV Item [] "a" (Node [("x", Leaf (VInt 1))]))].
Proof. eexists; eexists; split; [exact refuted_dict_write | reflexivity]. Qed.

Theorem C06_refuted_stale_proxy :
  exists i ops, model_meets_spec [] i ops = false /\
                ops = [Hold 0 Item ["a"]; Plain (SetV Item ["a"] "y" (Leaf (VInt 2)));
                       Plain (SetV Item ["a"] "z" (Leaf (VInt 3))); Via 0 (Get Item [] "z")].
Proof. eexists; eexists; split; [exact refuted_stale_proxy | reflexivity]. Qed.

Theorem C06_refuted_proxy_across_deletion :
  exists i ops, model_meets_spec [] i ops = false /\
                ops = [Hold 0 Item ["a"]; Plain (SetV Item [] "k" (Leaf (VInt 1)));
                       Plain (Del Item ["a"] "b"); Via 0 (SetV Item ["b"] "x" (Leaf (VInt 2)))].
Proof. eexists; eexists; split; [exact (proj1 refuted_proxy_across_deletion) | reflexivity]. Qed.

(** F-C06g and F-C06h on the faithful model (same witnesses as the register). *)
Theorem C06_refuted_update_from_proxy :
  exists i ops, model_meets_spec [] i ops = false /\
                ops = [Plain (UpdateProxy Item ["a"] ["b"])].
Proof. eexists; eexists; split; [exact refuted_update_from_proxy | reflexivity]. Qed.

Theorem C06_refuted_raw_dict_edit :
  exists i ops, model_meets_spec [] i ops = false /\
                ops = [Plain (RawSet Item [] "a" "z" (Leaf (VInt 5))); Plain (SetV Item [] "k" (Leaf (VInt 1)))].
Proof. eexists; eexists; split; [exact refuted_raw_dict_edit | reflexivity]. Qed.

(** A test, not the property: the model's trace of every history of at most 3
    steps from a 22-letter alphabet (leaf writes at two depths, deletions, pop
    with and without default, popitem, clear, setdefault with and without
    default, update, reads, three reloads, clone, fetching a nested proxy and
    writing through it) is accepted by the FULL executable specification --
    outcomes, views compared as dicts, base = deep union of the levels. *)
Theorem C06_model_meets_spec_bounded_3 :
  forallb (model_meets_spec [] sweep_init) (histories 3) = true.
Proof. exact model_meets_spec_bounded_3. Qed.

(** Non-vacuity of the held-proxy theorem: a proxy fetched, made stale by a
    write and a reload through the root, then used for a deletion and a write. *)
Example C06_example_held_history :
  let S := Node [("a", Node [("x", Leaf VNone); ("y", Leaf VNone)]); ("k", Leaf VNone)] in
  let d0 := Node [("a", Node [("x", Leaf (VInt 0)); ("y", Leaf (VInt 0))]); ("k", Leaf (VInt 1))] in
  let ops := [Hold 0 Item ["a"]; Plain (SetV Item [] "k" (Leaf (VInt 2)));
              Plain (LoadDefaults (Node [("a", Node [("x", Leaf (VInt 5)); ("y", Leaf (VInt 6))])]));
              Via 0 (Del Item [] "x"); Via 0 (SetV Attr [] "y" (Leaf (VInt 9)))] in
  match start [] (mkInit d0 (Node []) None None false) with
  | Ok c0 =>
      good0 S c0 = true /\ sguard S [] (sstart c0) ops = true /\
      sjournal [] (sstart c0) ops = [JSet ["k"] (Leaf (VInt 2)); JDel ["a"; "x"]; JSet ["a"; "y"] (Leaf (VInt 9))] /\
      c_cache (s_cfg (fst (srun [] (sstart c0) ops))) = [("a", Node [("y", Leaf (VInt 9))]); ("k", Leaf (VInt 2))]
  | Err _ => False
  end.
Proof. vm_compute. repeat split; reflexivity. Qed.

(** Non-vacuity: a concrete schema, start state and guarded history (write,
    deletion one level up, reload that re-supplies the deleted section, write
    again) with the journal the theorem talks about. *)
Example C06_example_guarded_history :
  let S := Node [("a", Node [("x", Leaf VNone); ("y", Leaf VNone)]); ("k", Leaf VNone)] in
  let d0 := Node [("a", Node [("x", Leaf (VInt 0)); ("y", Leaf (VInt 0))]); ("k", Leaf (VInt 1))] in
  let ops := [SetV Item ["a"] "x" (Leaf (VInt 1)); Del Attr ["a"] "y"; Pop Item [] "k" None;
              LoadDefaults (Node [("a", Node [("y", Leaf (VInt 5))]); ("k", Leaf (VInt 2))]);
              LoadShellEnv [("INVOKE_A_X", "7"); ("INVOKE_K", "4")];
              SetV Attr [] "k" (Leaf (VInt 3))] in
  match start [] (mkInit d0 (Node []) None None false) with
  | Ok c0 =>
      good0 S c0 = true /\ forallb (op_ok S) ops = true /\
      journal [] c0 ops = [JSet ["a"; "x"] (Leaf (VInt 1)); JDel ["a"; "y"]; JDel ["k"];
                           JSet ["k"] (Leaf (VInt 3))] /\
      c_cache (fst (run [] c0 ops)) = [("a", Node [("x", Leaf (VInt 1))]); ("k", Leaf (VInt 3))]
  | Err _ => False
  end.
Proof. vm_compute. repeat split; reflexivity. Qed.
