(** C15 -- The command, options and environment actually used are the documented
    resolution.  Statements only; proofs are in Proofs/C15_opts.v, Proofs/C15_ctx.v.
    Models: Model/OptsModel.v ([Runner._unify_kwargs_with_config], [_setup], head of
    [_run_body], [generate_env], [normalize_hide]) and Model/CtxCmdModel.v
    ([Context._prefix_commands], [cwd], [cd]/[prefix], [_sudo]). *)
From InvokeVerif Require Import Model.CtxCmdModel Spec.C15Spec Proofs.C15_opts Proofs.C15_ctx.

(** Flagship, part A (full strength): for every configuration, parent environment,
    command and keyword arguments -- every combination of options given as keyword
    argument, explicit None, configured or not at all -- what the model of
    [Runner.run] does up to [start] is accepted by the executable specification. *)
Theorem C15_run_meets_spec : forall c parent command k,
  spec_ok_opts c parent command k (run_model c parent command k) = true.
Proof. exact run_meets_spec. Qed.

(** kwarg (not None) > configured > built-in default, for every option; the two
    options with interaction rules (echo, hide) are covered by [C15_interactions].
    [timeout]: any keyword argument, None included, beats the configured value. *)
Theorem C15_resolution : forall c k r,
  unify c k = Ok r ->
  (forall o, o <> Echo -> o <> Hide -> r_opts r o = want c k o) /\
  r_timeout r = want_timeout c k /\
  (forall v, kw_timeout k = Some v -> r_timeout r = v) /\
  (kw_timeout k = None -> r_timeout r = cf_timeout c).
Proof. exact resolution. Qed.

Theorem C15_resolution_table : forall c k o,
  (forall v, kw k o = Some v -> v <> ONone -> want c k o = v) /\
  (kw k o = None \/ kw k o = Some ONone -> forall v, cf c o = Some v -> want c k o = v) /\
  (kw k o = None \/ kw k o = Some ONone -> cf c o = None -> want c k o = default o).
Proof. exact want_table. Qed.

(** Refused before anything is echoed or started: unknown keyword arguments
    (TypeError), asynchronous together with disown (ValueError), undocumented hide. *)
Theorem C15_rejected_before_start : forall c parent command k e,
  rejected c k = Some e ->
  o_exc (run_model c parent command k) = Some e /\
  o_started (run_model c parent command k) = None /\
  o_echo (run_model c parent command k) = None.
Proof. exact rejected_before_start. Qed.

Theorem C15_rejected_cases : forall c k,
  (kw_extra k <> [] -> rejected c k = Some EType) /\
  (kw_extra k = [] -> truthy (want c k Asynchronous) = true -> truthy (want c k Disown) = true ->
   rejected c k = Some EValue).
Proof. exact rejected_cases. Qed.

Theorem C15_interactions : forall c parent command k,
  rejected c k = None ->
  let out := run_model c parent command k in
  (is_True (want c k Hide) = true -> is_True (want c k Dry) = false -> o_echo out = None) /\
  (is_True (want c k Dry) = true ->
   o_started out = None /\ o_echo out = Some (fill (want c k EchoFormat) command)) /\
  (truthy (want c k Asynchronous) = true ->
   exists r, o_res out = Some r /\
             r_opts r Hide = OList (both_unless_given c k) /\
             (want c k InStream = ONone -> r_in r = OBool false) /\
             (want c k InStream <> ONone -> r_in r = want c k InStream)).
Proof. exact interactions. Qed.

(** The child environment: the parent's updated with, or replaced by, the mapping. *)
Theorem C15_env : forall d replace parent key,
  lookup_env key (generate_env (ODict d) replace parent)
  = if truthy replace then lookup_env key d
    else match lookup_last key d with Some v => Some v | None => lookup_env key parent end.
Proof. exact child_env. Qed.

(** For ANY nesting [fs] of cd / prefix / try blocks (outermost first), the command
    handed to the runner is  cd <dir> && p1 && ... && pn && cmd. *)
Theorem C15_command_composition : forall cc fs cmd,
  cfg_sane cc = true -> truthy (want (cc_run cc) no_kw Dry) = false ->
  snd (fst (run_program cc (nest fs [SRun cmd])))
  = [Some (composed fs cmd, want (cc_run cc) no_kw Shell,
           generate_env (want (cc_run cc) no_kw Env) (want (cc_run cc) no_kw ReplaceEnv)
                        (cc_parent cc))].
Proof. exact command_composition. Qed.

(** Both stacks are restored by every statement, from any state, whether its body
    returned, raised, or raised and was caught. *)
Theorem C15_stacks_restored : forall cc s st, fst (fst (exec cc s st)) = st.
Proof. exact stacks_restored. Qed.

(** Flagship, part B (full strength): whole programs of nested cd / prefix / try
    blocks around run and sudo calls -- the arguments of [start] call by call, the
    final stacks, the propagation of the exception -- are accepted by the executable
    specification.  ([cfg_sane]: the configured options are not themselves refused;
    otherwise every call raises before reaching the runner.) *)
Theorem C15_program_meets_spec : forall cc prog,
  cfg_sane cc = true ->
  spec_ok_ctx cc prog (snd (fst (run_program cc prog))) (fst (fst (run_program cc prog)))
              (snd (run_program cc prog)) = true.
Proof. exact program_meets_spec. Qed.

(** sudo wraps the same prefixed command with the prompt, [--preserve-env] naming the
    variables of the effective env option (keyword argument, else run.env) and the
    user flags -- below any nesting of blocks. *)
Theorem C15_sudo_wraps_prefixed : forall cc fs cmd u e,
  cfg_sane cc = true ->
  truthy (want (cc_run cc) (only_env e) Dry) = false ->
  snd (fst (run_program cc (nest fs [SSudo cmd u e])))
  = [Some (sudo_wrapped cc u e (composed fs cmd), want (cc_run cc) (only_env e) Shell,
           generate_env (want (cc_run cc) (only_env e) Env)
                        (want (cc_run cc) (only_env e) ReplaceEnv) (cc_parent cc))].
Proof. exact sudo_wraps_prefixed. Qed.

(** Non-vacuity. *)
Example C15_example_interactions :
  let c := mkCfg (fun o => match o with Echo => Some (OBool true) | Hide => Some (OBool true)
                                   | EchoFormat => Some (OStr "RUN {command}!") | _ => None end) (OInt 5) in
  let k := mkKw (fun o => match o with Dry => Some (OBool true) | Echo => Some (OBool false)
                                  | Shell => Some ONone | _ => None end) (Some ONone) [] in
  rejected c k = None /\
  o_echo (run_model c [("A", "1")] "ls" k) = Some ("RUN ls!" ++ String (ascii_of_nat 10) "")%string /\
  o_started (run_model c [("A", "1")] "ls" k) = None /\
  want c k Shell = OStr "/bin/bash" /\ want_timeout c k = ONone.
Proof. vm_compute. repeat split; reflexivity. Qed.

Example C15_example_program :
  let cc := mkCC (mkCfg (fun _ => None) ONone) "P:" (OStr "bob") [("H", "/h")] in
  let prog := [SBlock (BCd "/a") [SBlock (BPrefix "p1")
                 [SBlock BTry [SBlock (BCd "b c") [SRun "ls"; SRaise; SRun "never"]];
                  SSudo "w" None (Some (ODict [("X", "1")]))]];
               SRun "end"] in
  cfg_sane cc = true /\
  map (fun c => match c with Some (cmd, _, _) => cmd | None => ""%string end)
      (snd (fst (run_program cc prog)))
  = ["cd /a/b\ c && p1 && ls"; "sudo -S -p 'P:' --preserve-env='X' -H -u bob cd /a && p1 && w"; "end"]%string /\
  fst (fst (run_program cc prog)) = c0 /\ snd (run_program cc prog) = false.
Proof. vm_compute. repeat split; reflexivity. Qed.

(** Tie to the source text: the body of [normalize_hide], regenerated from
    invoke/runners.py on every run (Generated/Tables.v), is the one
    [OptsModel.normalize_hide] was written from.  [None] = the translator did not
    recognise the shape (fallback to the behavioural correspondence only). *)
From InvokeVerif Require Generated.Tables.
Theorem C15_normalize_hide_matches_source :
  match Generated.Tables.normalize_hide_src with
  | Some t => t = ["hide_vals = (None, False, 'out', 'stdout', 'err', 'stderr', 'both', True)";
                   "if val not in hide_vals: err = ""'hide' got {!r} which is not in {!r}"" raise ValueError(err.format(val, hide_vals))";
                   "if val in (None, False): hide = [] elif val in ('both', True): hide = ['stdout', 'stderr'] elif val == 'out': hide = ['stdout'] elif val == 'err': hide = ['stderr'] else: hide = [val]";
                   "if out_stream is not None and 'stdout' in hide: hide.remove('stdout')";
                   "if err_stream is not None and 'stderr' in hide: hide.remove('stderr')";
                   "return tuple(hide)"]
  | None => True
  end.
Proof. vm_compute; first [reflexivity | exact I]. Qed.

(** ... and the model computes that table: the documented values and nothing else. *)
Theorem C15_hide_table :
  normalize_hide ONone ONone ONone = Some [] /\
  normalize_hide (OBool false) ONone ONone = Some [] /\
  normalize_hide (OBool true) ONone ONone = Some ["stdout"; "stderr"] /\
  normalize_hide (OStr "both") ONone ONone = Some ["stdout"; "stderr"] /\
  normalize_hide (OStr "out") ONone ONone = Some ["stdout"] /\
  normalize_hide (OStr "stdout") ONone ONone = Some ["stdout"] /\
  normalize_hide (OStr "err") ONone ONone = Some ["stderr"] /\
  normalize_hide (OStr "stderr") ONone ONone = Some ["stderr"] /\
  (forall v o e, normalize_hide v o e <> None ->
     In v [ONone; OBool false; OBool true; OStr "both"; OStr "out"; OStr "stdout"; OStr "err"; OStr "stderr"]) /\
  (forall v o e l, normalize_hide v o e = Some l ->
     (o <> ONone -> ~ In "stdout"%string l) /\ (e <> ONone -> ~ In "stderr"%string l)).
Proof. exact hide_table. Qed.

(** * Historical record -- NOT about the code in /repo
    Before fix c2a3b37 [_sudo] built [--preserve-env] from the env keyword argument
    only (F-C15): with run.env = {A: x} configured, [sudo("whoami")] handed A=x to
    the child without telling sudo to preserve it.  The witness is in corpus/C15 and
    now has to pass on the implementation. *)
Theorem C15_before_fix_sudo_historical_refuted :
  exists cc u e prefixed,
    cfg_sane cc = true /\
    want (cc_run cc) (only_env e) Env = ODict [("A", "x")] /\
    sudo_command_before_fix (cc_prompt cc) (match u with Some x => x | None => cc_user cc end) e prefixed
    = "sudo -S -p 'P:' whoami"%string /\
    sudo_wrapped cc u e prefixed = "sudo -S -p 'P:' --preserve-env='A' whoami"%string.
Proof. exact sudo_before_fix_refuted. Qed.
