(** C15 -- The command, options and environment actually used are the documented
    resolution.  Statements only; proofs are in Proofs/C15_opts.v, Proofs/C15_ctx.v.
    Models: Model/OptsModel.v ([Runner._unify_kwargs_with_config], [_setup], head of
    [_run_body], [generate_env], [normalize_hide]) and Model/CtxCmdModel.v
    ([Context._prefix_commands], [cwd], [cd]/[prefix], [_sudo]). *)
From InvokeVerif Require Import Model.CtxCmdModel Spec.C15Spec Proofs.C15_opts Proofs.C15_ctx.

(** "Full hiding suppresses echo": a hide value naming both streams -- [True] or
    ['both'], which the docstring of [run] gives as one and the same setting -- switches
    echo off (dry-run apart); the code does exactly that since fix f03a111. *)

(** Flagship, part A (full strength): for every configuration, parent environment,
    command and keyword arguments -- every combination of options given as keyword
    argument, explicit None, configured or not at all -- what the model of
    [Runner.run] does up to [start] is accepted by the executable specification. *)
Theorem C15_run_meets_spec : forall c parent command k,
  spec_ok_opts c parent command k (run_model c parent command k) = true.
Proof. exact run_meets_spec. Qed.

(** kwarg (not None) > configured > built-in default, for every option; the two
    options with interaction rules (echo, hide) are covered by [C15_interactions].
    [timeout]: any keyword argument, None included, beats the configured value. *)
Theorem C15_resolution : forall c k r,
  unify c k = Ok r ->
  (forall o, o <> Echo -> o <> Hide -> r_opts r o = want c k o) /\
  r_timeout r = want_timeout c k /\
  (forall v, kw_timeout k = Some v -> r_timeout r = v) /\
  (kw_timeout k = None -> r_timeout r = cf_timeout c).
Proof. exact resolution. Qed.

Theorem C15_resolution_table : forall c k o,
  (forall v, kw k o = Some v -> v <> ONone -> want c k o = v) /\
  (kw k o = None \/ kw k o = Some ONone -> forall v, cf c o = Some v -> want c k o = v) /\
  (kw k o = None \/ kw k o = Some ONone -> cf c o = None -> want c k o = default o).
Proof. exact want_table. Qed.

(** Refused before anything is echoed or started: unknown keyword arguments
    (TypeError), asynchronous together with disown (ValueError), undocumented hide. *)
Theorem C15_rejected_before_start : forall c parent command k e,
  rejected c k = Some e ->
  o_exc (run_model c parent command k) = Some e /\
  o_started (run_model c parent command k) = None /\
  o_echo (run_model c parent command k) = None.
Proof. exact rejected_before_start. Qed.

Theorem C15_rejected_cases : forall c k,
  (kw_extra k <> [] -> rejected c k = Some EType) /\
  (kw_extra k = [] -> truthy (want c k Asynchronous) = true -> truthy (want c k Disown) = true ->
   rejected c k = Some EValue).
Proof. exact rejected_cases. Qed.

(** (Full hiding: hide is True or 'both'.) *)
Theorem C15_interactions : forall c parent command k,
  rejected c k = None ->
  let out := run_model c parent command k in
  (fully_hidden (want c k Hide) = true -> is_True (want c k Dry) = false -> o_echo out = None) /\
  (is_True (want c k Dry) = true ->
   o_started out = None /\ o_echo out = Some (fill (want c k EchoFormat) command)) /\
  (truthy (want c k Asynchronous) = true ->
   exists r, o_res out = Some r /\
             r_opts r Hide = OList (both_unless_given c k) /\
             (want c k InStream = ONone -> r_in r = OBool false) /\
             (want c k InStream <> ONone -> r_in r = want c k InStream)).
Proof. exact interactions. Qed.

(** The child environment: the parent's updated with, or replaced by, the mapping. *)
Theorem C15_env : forall d replace parent key,
  lookup_env key (generate_env (ODict d) replace parent)
  = if truthy replace then lookup_env key d
    else match lookup_last key d with Some v => Some v | None => lookup_env key parent end.
Proof. exact child_env. Qed.

(** For ANY nesting [fs] of cd / prefix / try blocks (outermost first) and any
    accepted keyword arguments, the command handed to the runner is
    cd <dir> && p1 && ... && pn && cmd. *)
Theorem C15_command_composition : forall cc fs cmd k,
  rejected (cc_run cc) k = None -> truthy (want (cc_run cc) k Dry) = false ->
  map o_started (snd (fst (run_program cc (nest fs [SRun cmd k false]))))
  = [Some (composed fs cmd, want (cc_run cc) k Shell,
           generate_env (want (cc_run cc) k Env) (want (cc_run cc) k ReplaceEnv) (cc_parent cc))].
Proof. exact command_composition. Qed.

(** Both stacks are restored by every statement, from any state, for EVERY way its
    body can be left: normally; by an Exception (application error, refused options,
    UnexpectedExit of a failing command); by KeyboardInterrupt, SystemExit or
    GeneratorExit; caught further out or not.  The statement quantifies over the
    program, hence over the kind of exit ([SRaise x], failing calls).  It holds
    because cd and prefix guard their clean-up with [finally] ([clause_of]); with an
    [except Exception] guard it would be false ([C15_restoration_needs_finally]). *)
Theorem C15_stacks_restored : forall cc s st, fst (fst (exec cc s st)) = st.
Proof. exact stacks_restored. Qed.

Theorem C15_stacks_restored_any_exit : forall cc b x st,
  exec cc (SBlock b [SRaise x]) st = (st, [], match b with BTry => None | _ => Some x end).
Proof.
  intros cc b x st. pose proof (stacks_restored cc (SBlock b [SRaise x]) st) as R.
  destruct b as [d|d|], st as [ps cs]; cbn in *; rewrite ?removelast_last; reflexivity.
Qed.

Theorem C15_restoration_needs_finally : forall cc,
  let cl := fun _ : block => CExceptException in
  fst (fst (exec_with cl cc (SBlock (BPrefix "p") [SRaise XKbd]) c0)) = mkC ["p"%string] [] /\
  fst (fst (exec_with cl cc (SBlock (BCd "d") [SRaise XSysExit]) c0)) = mkC [] ["d"%string] /\
  fst (fst (exec_with cl cc (SBlock (BCd "d") [SRaise XGenExit]) c0)) = mkC [] ["d"%string] /\
  fst (fst (exec_with cl cc (SBlock (BPrefix "p") [SRaise XBoom]) c0)) = c0.
Proof. exact leaky_clause. Qed.

(** Flagship, part B (full strength, no side condition): whole programs of nested
    cd / prefix / try blocks around run and sudo calls with arbitrary keyword
    arguments, failing commands and raises of every kind -- each call judged as in
    part A (the arguments of [start] with the composed command, the resolved options
    incl. timeout and the watchers sudo hands on, streams, echo; nothing started for
    refused calls), the final stacks, the exception that comes out -- are accepted by
    the executable specification. *)
Theorem C15_program_meets_spec : forall cc prog,
  spec_ok_ctx cc prog (snd (fst (run_program cc prog))) (fst (fst (run_program cc prog)))
              (snd (run_program cc prog)) = true.
Proof. exact program_meets_spec. Qed.

(** sudo wraps the same prefixed command with the prompt, [--preserve-env] naming the
    variables of the effective env option (keyword argument, else run.env) and the
    user flags -- below any nesting of blocks, with any further run keyword arguments. *)
Theorem C15_sudo_wraps_prefixed : forall cc fs cmd u k,
  rejected (cc_run cc) k = None -> truthy (want (cc_run cc) k Dry) = false ->
  map o_started (snd (fst (run_program cc (nest fs [SSudo cmd u k false]))))
  = [Some (sudo_wrapped cc u k (composed fs cmd), want (cc_run cc) k Shell,
           generate_env (want (cc_run cc) k Env) (want (cc_run cc) k ReplaceEnv) (cc_parent cc))].
Proof. exact sudo_wraps_prefixed. Qed.

(** Non-vacuity. *)
Example C15_example_interactions :
  let c := mkCfg (fun o => match o with Echo => Some (OBool true) | Hide => Some (OBool true)
                                   | EchoFormat => Some (OStr "RUN {command}!") | _ => None end) (OInt 5) in
  let k := mkKw (fun o => match o with Dry => Some (OBool true) | Echo => Some (OBool false)
                                  | Shell => Some ONone | _ => None end) (Some ONone) [] in
  rejected c k = None /\
  o_echo (run_model c [("A", "1")] "ls" k) = Some ("RUN ls!" ++ String (ascii_of_nat 10) "")%string /\
  o_started (run_model c [("A", "1")] "ls" k) = None /\
  want c k Shell = OStr "/bin/bash" /\ want_timeout c k = ONone.
Proof. vm_compute. repeat split; reflexivity. Qed.

Example C15_example_program :
  let cc := mkCC (mkCfg (fun _ => None) ONone) "P:" (OStr "bob") [("H", "/h")] in
  let envk := mkKw (fun o => match o with Env => Some (ODict [("X", "1")]) | _ => None end) None [] in
  let prog := [SBlock (BCd "/a") [SBlock (BPrefix "p1")
                 [SBlock BTry [SBlock (BCd "b c") [SRun "ls" no_kw false; SRaise XKbd; SRun "never" no_kw false]];
                  SSudo "w" None envk false;
                  SBlock BTry [SBlock (BPrefix "p1") [SRun "false" no_kw true; SRun "never" no_kw false]];
                  SRun "x" (mkKw (fun _ => None) None ["bogus"]) false]];
               SRun "end" no_kw false] in
  map (fun c => match o_started c with Some (cmd, _, _) => cmd | None => "-"%string end)
      (snd (fst (run_program cc prog)))
  = ["cd /a/b\ c && p1 && ls"; "sudo -S -p 'P:' --preserve-env='X' -H -u bob cd /a && p1 && w";
     "cd /a && p1 && p1 && false"; "-"]%string /\
  fst (fst (run_program cc prog)) = c0 /\ snd (run_program cc prog) = Some XType.
Proof. vm_compute. repeat split; reflexivity. Qed.

(** Tie to the source text: the body of [normalize_hide], regenerated from
    invoke/runners.py on every run (Generated/Tables.v), is the one
    [OptsModel.normalize_hide] was written from.  [None] = the translator did not
    recognise the shape (fallback to the behavioural correspondence only). *)
From InvokeVerif Require Generated.Tables.
Theorem C15_normalize_hide_matches_source :
  match Generated.Tables.normalize_hide_src with
  | Some t => t = ["hide_vals = (None, False, 'out', 'stdout', 'err', 'stderr', 'both', True)";
                   "if val not in hide_vals: err = ""'hide' got {!r} which is not in {!r}"" raise ValueError(err.format(val, hide_vals))";
                   "if val in (None, False): hide = [] elif val in ('both', True): hide = ['stdout', 'stderr'] elif val == 'out': hide = ['stdout'] elif val == 'err': hide = ['stderr'] else: hide = [val]";
                   "if out_stream is not None and 'stdout' in hide: hide.remove('stdout')";
                   "if err_stream is not None and 'stderr' in hide: hide.remove('stderr')";
                   "return tuple(hide)"]
  | None => True
  end.
Proof. vm_compute; first [reflexivity | exact I]. Qed.

(** ... and the model computes that table: the documented values and nothing else. *)
Theorem C15_hide_table :
  normalize_hide ONone ONone ONone = Some [] /\
  normalize_hide (OBool false) ONone ONone = Some [] /\
  normalize_hide (OBool true) ONone ONone = Some ["stdout"; "stderr"] /\
  normalize_hide (OStr "both") ONone ONone = Some ["stdout"; "stderr"] /\
  normalize_hide (OStr "out") ONone ONone = Some ["stdout"] /\
  normalize_hide (OStr "stdout") ONone ONone = Some ["stdout"] /\
  normalize_hide (OStr "err") ONone ONone = Some ["stderr"] /\
  normalize_hide (OStr "stderr") ONone ONone = Some ["stderr"] /\
  (forall v o e, normalize_hide v o e <> None ->
     In v [ONone; OBool false; OBool true; OStr "both"; OStr "out"; OStr "stdout"; OStr "err"; OStr "stderr"]) /\
  (forall v o e l, normalize_hide v o e = Some l ->
     (o <> ONone -> ~ In "stdout"%string l) /\ (e <> ONone -> ~ In "stderr"%string l)).
Proof. exact hide_table. Qed.

(** * Historical record -- NOT about the code in /repo
    Before fix c2a3b37 [_sudo] built [--preserve-env] from the env keyword argument
    only (F-C15): with run.env = {A: x} configured, [sudo("whoami")] handed A=x to
    the child without telling sudo to preserve it.  The witness is in corpus/C15 and
    now has to pass on the implementation. *)
Theorem C15_before_fix_sudo_historical_refuted :
  exists cc u k prefixed,
    want (cc_run cc) k Env = ODict [("A", "x")] /\
    sudo_command_before_fix (cc_prompt cc) (match u with Some x => x | None => cc_user cc end)
                            (kw k Env) prefixed
    = "sudo -S -p 'P:' whoami"%string /\
    sudo_wrapped cc u k prefixed = "sudo -S -p 'P:' --preserve-env='A' whoami"%string.
Proof. exact sudo_before_fix_refuted. Qed.

(** Before fix 2644606 an explicit [watchers=None] made sudo raise TypeError before
    anything started (F-C15b); the witness is in corpus/C15 and now has to pass. *)
Theorem C15_before_fix_sudo_watchers_none_historical_refuted :
  exists cc k,
    sudo_refused_before_fix k = true /\
    expected_raise (cc_run cc) k false = None /\
    map o_started (snd (fst (run_program cc [SSudo "whoami" None k false])))
    = [Some ("sudo -S -p 'P:' whoami"%string, OStr "/bin/bash", [])].
Proof. exact sudo_watchers_none_before_fix_refuted. Qed.

(** * The command line: [Program.update_config] (Model/ProgramModel.v)
    Proofs in Proofs/Program_update.v.  Which configuration a task's [run()] resolves
    against when core flags were given ("else the configured value" of C15, the
    "core values -> config overrides" of C18, the "-T" of C14). *)
From InvokeVerif Require Import Model.ProgramModel Spec.C15CliSpec Proofs.Program_update.

(** Flagship of this part (full strength): for all core flags, lower configuration,
    environment variable, parent environment, command and keyword arguments -- the
    overrides level the model builds, the runtime path it chooses and what the runner
    then does are accepted by the executable specification (which reads the flags
    directly). *)
Theorem C15_cli_meets_spec : forall a lower env_var parent command k,
  spec_ok_cli a lower env_var parent command k
              (overrides_of a) (runtime_path_of a env_var)
              (run_model_cli a lower parent command k) = true.
Proof. exact cli_meets_spec. Qed.

(** (1) each flag given on the command line reads back as that value in the overrides
    tree, and nothing else is in it (closed form of its leaves; the four sections are
    always present, possibly empty). *)
Theorem C15_cli_flags_are_overrides : forall a,
  leaf_paths (overrides_of a) = expected_overrides a /\
  (forall k, In k ["run"; "tasks"; "sudo"; "timeouts"]%string -> has_section (overrides_of a) k = true) /\
  leaf_at ["run"; "warn"] (overrides_of a) = (if a_warn_only a then Some (VBool true) else None) /\
  leaf_at ["run"; "pty"] (overrides_of a) = (if a_pty a then Some (VBool true) else None) /\
  leaf_at ["run"; "echo"] (overrides_of a) = (if a_echo a then Some (VBool true) else None) /\
  leaf_at ["run"; "dry"] (overrides_of a) = (if a_dry a then Some (VBool true) else None) /\
  leaf_at ["run"; "hide"] (overrides_of a)
    = match a_hide a with Some s => if String.eqb s "" then None else Some (VStr s) | None => None end /\
  leaf_at ["tasks"; "dedupe"] (overrides_of a) = (if a_no_dedupe a then Some (VBool false) else None) /\
  leaf_at ["sudo"; "password"] (overrides_of a) = option_map VStr (a_sudo_password a) /\
  leaf_at ["timeouts"; "command"] (overrides_of a)
    = match a_timeout a with Some n => if Z.eqb n 0 then None else Some (VInt n) | None => None end.
Proof. exact flags_are_overrides. Qed.

(** (2) every option: per-call value if given, else the flag's value if the flag was
    given, else what the lower levels configure, else the built-in default ... *)
Theorem C15_cli_flag_resolution : forall a lower k o,
  want (cli_config a lower) k o
  = match given k o with
    | Some v => v
    | None => match flag_value a o with
              | Some v => v
              | None => match cf lower o with Some v => v | None => default o end
              end
    end.
Proof. exact cli_flag_resolution. Qed.

(** ... and that is the value the runner ends up with (warn, pty, dry; echo and hide
    additionally go through the interaction rules of [C15_interactions]). *)
Theorem C15_cli_effective : forall a lower k r o,
  effective_opts_cli a lower k = Ok r -> In o [Warn; Pty; Dry] ->
  r_opts r o = match given k o with
               | Some v => v
               | None => match flag_value a o with
                         | Some v => v
                         | None => match cf lower o with Some v => v | None => default o end
                         end
               end.
Proof. exact cli_effective. Qed.

(** (3) the command timeout: per call (None included) > -T > configured
    [timeouts.command].  [-T 0] is falsy in [if command:] and is dropped: it does NOT
    mean "no timeout", a configured timeout still applies
    ([C15_cli_timeout_zero_is_ignored]).  Judged a quirk, not a violation of C14's
    "the per-call value if given, otherwise the configured or command-line one": a
    timeout of 0 seconds is not a meaningful request, and treating it as "not given"
    keeps some configured-or-command-line value in force. *)
Theorem C15_cli_timeout : forall a lower k r,
  effective_opts_cli a lower k = Ok r ->
  r_timeout r = match kw_timeout k with
                | Some v => v
                | None => match a_timeout a with
                          | Some n => if Z.eqb n 0 then cf_timeout lower else OInt n
                          | None => cf_timeout lower
                          end
                end.
Proof. exact cli_timeout. Qed.

Theorem C15_cli_timeout_zero_is_ignored : forall a lower k r,
  a_timeout a = Some 0%Z -> kw_timeout k = None ->
  effective_opts_cli a lower k = Ok r -> r_timeout r = cf_timeout lower.
Proof. exact cli_timeout_zero_is_ignored. Qed.

Theorem C15_cli_runtime_path : forall a env_var,
  (forall p, a_config a = Some p -> runtime_path_of a env_var = Some p) /\
  (a_config a = None -> runtime_path_of a env_var = env_var).
Proof. exact runtime_path. Qed.

(** (4) tie to the source text of [Program.update_config] (Generated/Tables.v,
    regenerated on every run; [None] = shape not recognised, behavioural
    correspondence only): the (test, assignment) pairs [overrides_of] and
    [runtime_path_of] were written from, in order. *)
Theorem C15_update_config_matches_source :
  match Generated.Tables.update_config_src with
  | Some t => t =
      [("<assign>", "run = {}");
       ("self.args['warn-only'].value", "run['warn'] = True");
       ("self.args.pty.value", "run['pty'] = True");
       ("self.args.hide.value", "run['hide'] = self.args.hide.value");
       ("self.args.echo.value", "run['echo'] = True");
       ("self.args.dry.value", "run['dry'] = True");
       ("<assign>", "tasks = {}");
       ("'no-dedupe' in self.args and self.args['no-dedupe'].value", "tasks['dedupe'] = False");
       ("<assign>", "timeouts = {}");
       ("<assign>", "command = self.args['command-timeout'].value");
       ("command", "timeouts['command'] = command");
       ("<assign>", "sudo = {}");
       ("self.args['prompt-for-sudo-password'].value",
        "prompt = ""Desired 'sudo.password' config value: ""; sudo['password'] = getpass.getpass(prompt)");
       ("<assign>", "overrides = dict(run=run, tasks=tasks, sudo=sudo, timeouts=timeouts)");
       ("<call>", "self.config.load_overrides(overrides, merge=False)");
       ("<assign>", "runtime_path = self.args.config.value");
       ("runtime_path is None", "runtime_path = os.environ.get('INVOKE_RUNTIME_CONFIG', None)");
       ("<call>", "self.config.set_runtime_path(runtime_path)");
       ("<call>", "self.config.load_runtime(merge=False)");
       ("merge", "self.config.merge()")]
  | None => True
  end.
Proof. vm_compute; first [reflexivity | exact I]. Qed.

Example C15_example_cli :
  let a := mkArgs true false (Some "out") true false true (Some 0%Z) (Some "typed") None in
  let lower := mkCfg (fun o => match o with Echo => Some (OBool false) | Shell => Some (OStr "/bin/sh")
                                       | Hide => Some (OStr "both") | _ => None end) (OInt 9) in
  let k := mkKw (fun o => match o with Warn => Some (OBool false) | _ => None end) None [] in
  leaf_paths (overrides_of a)
  = [(["run"; "warn"], VBool true); (["run"; "hide"], VStr "out"); (["run"; "echo"], VBool true);
     (["tasks"; "dedupe"], VBool false); (["sudo"; "password"], VStr "typed")]%string /\
  runtime_path_of a (Some "/e.json"%string) = Some "/e.json"%string /\
  match effective_opts_cli a lower k with
  | Ok r => r_opts r Warn = OBool false /\ r_opts r Echo = OBool true /\ r_opts r Shell = OStr "/bin/sh"
            /\ r_opts r Hide = OList ["stdout"%string] /\ r_timeout r = OInt 9
  | Err _ => False
  end.
Proof. vm_compute. repeat split; reflexivity. Qed.

(** * Historical record (continued) -- NOT about the code in /repo
    Before fix f03a111 only [hide is True] switched echo off: [hide='both', echo=True]
    echoed the command although both streams were hidden (F-C15c).  The witness is in
    KNOWN_FINDINGS / corpus and now has to pass. *)
Theorem C15_before_fix_hide_both_echo_historical_refuted :
  exists c parent command k,
    rejected c k = None /\ want c k Hide = OStr "both" /\
    truthy (echo_val_before_fix c k) = true /\
    echo_on c k = false /\
    o_echo (run_model c parent command k) = None.
Proof. exact hide_both_echo_before_fix_refuted. Qed.
