(** C19 -- Each task sees its own namespace settings; session edits persist
    safely.  Statements only; proofs in Proofs/C19_session.v.

    The session model is the composition ExecModel-style expansion o
    CollModel.configuration o ConfigModel.step.  The full statement
      "inside the k-th body the view is the reference of Spec/C19Spec.v
       (journal of earlier edits over the levels with collection := the path
       of THIS task, env := the environment now) and nothing escapes execute"
    is FALSE of the faithful model for pre/post tasks and the implicitly
    chosen default task (F-C19, two refutations below; a second way, the stale
    environment level F-C19b, was repaired in /repo by 150639c); the
    general guarded statement (directly requested tasks) is
    sampled by a bounded sweep and NOT proved in general -- its ingredients
    that are proved: C17_path_deep_merge (collection level of a named call),
    the C06 partial theorems (journal over reloaded levels), C16 (environment),
    and the structural facts below. *)
From InvokeVerif Require Import Model.SessionModel Spec.C19Spec Corr.C19Corr Spec.C17Spec
     Proofs.C17_path Proofs.C19_session.

(** ---- Model sanity lemmas ------------------------------------------------
    The next five statements ([C19_called_as_only_direct],
    [C19_default_call_unnamed], [C19_reload_replaces_collection_keeps_edits],
    [C19_env_reload_keeps_edits], and further down
    [C19_env_reload_forgets_old_env]) are "full" only in the sense that they
    have no guard: they are structural facts that hold by construction of
    SessionModel / ConfigModel.  They document what the model does (and are
    used by the session theorem); they say something about invoke only through
    the correspondence runs.  The property-level content is in
    [C19_session_views_partial], the refutations and the bounded sweep.
    ------------------------------------------------------------------------- *)

(** Only the requested task itself is called by the requested name; its pre-
    and post-tasks, at any depth, are calls without a name ... *)
Theorem C19_called_as_only_direct : forall c n t n',
  In (t, Some n') (sexpand (Some n) c) -> t = root_task c /\ n' = n.
Proof. exact called_as_only_direct. Qed.

(** ... and so is the implicitly chosen default task with all its hooks. *)
Theorem C19_default_call_unnamed : forall dflt dd t ca,
  In (t, ca) (session_calls [] (Some dflt) dd) -> ca = None.
Proof. exact default_call_unnamed. Qed.

(** The per-call reload replaces the collection level wholesale (nothing of
    the previous task's collection settings stays in that level) and leaves
    the modification and deletion levels (and defaults, overrides) alone:
    session edits survive it. *)
Theorem C19_reload_replaces_collection_keeps_edits : forall fs c t,
  let c' := fst (step fs c (LoadCollection t)) in
  c_collection c' = t /\ c_mods c' = c_mods c /\ c_dels c' = c_dels c /\
  c_defaults c' = c_defaults c /\ c_overrides c' = c_overrides c /\ c_env c' = c_env c.
Proof. exact load_collection_effect. Qed.

Theorem C19_env_reload_keeps_edits : forall fs c e,
  let c' := fst (step fs c (LoadShellEnv e)) in
  c_collection c' = c_collection c /\ c_mods c' = c_mods c /\ c_dels c' = c_dels c /\
  c_defaults c' = c_defaults c /\ c_overrides c' = c_overrides c.
Proof. exact load_shell_env_effect. Qed.

(** Proved form of "each task sees the collection-level settings of its own
    namespace path", for DIRECTLY REQUESTED calls, every tree and every name,
    alias or default shortcut: the collection level loaded before the body is,
    setting by setting, the value of the outermost collection on the task's own
    path that defines it (C17), it replaces whatever the previous task had
    there, and the session's modifications and deletions are kept.
    Guard = the call carries its name (pre/post/default-task calls do not:
    F-C19) -- and this is the collection LEVEL, not yet the view: the
    environment level is loaded next (C19_env_reload_forgets_old_env). *)
Theorem C19_named_call_gets_own_path_settings_partial : forall ns fs c0 n t cfgs,
  ns_wf ns = true -> ns_canon ns = true ->
  ref_path ns (segs_of n) = Some (t, cfgs) -> all_compatible cfgs = true ->
  exists d,
    configuration ns n = Ok d /\
    (forall p, leaf_at p (Node d) = first_some (map (fun g => leaf_at p (Node g)) cfgs)) /\
    let c1 := fst (step fs c0 (LoadCollection (Node d))) in
    c_collection c1 = Node d /\ c_mods c1 = c_mods c0 /\ c_dels c1 = c_dels c0.
Proof. exact named_call_level. Qed.

(** F-C19: a pre-task living in sub-collection [a] does not see [a]'s
    settings (it gets the root collection's only); requested by name it does. *)
Theorem C19_task_view_refuted_hook :
  build ns_script = Ok ns_tree /\
  judge [] [("t0", SCall 0 [leaf_call 1] [])] None [[]] = false /\
  (exists v0 v1, session ns_tree init0 [] [("t0", SCall 0 [leaf_call 1] [])] None true [[]]
                 = Ok ([(1, v0, [], v0); (0, v1, [], v1)], None) /\
                 leaf_at ["k"; "a"] (Node v0) = None /\ leaf_at ["k"; "x"] (Node v0) = Some (VInt 0)) /\
  judge [] [("a.t1", leaf_call 1)] None [[]] = true.
Proof. exact refuted_hook. Qed.

(** F-C19 again: the implicitly chosen default task of a default sub-collection. *)
Theorem C19_task_view_refuted_default_task :
  exists c, build ns_script_d = Ok c /\
    C19Spec.spec_ok c (Node []) (Node []) (fun _ => []) [[]]
            (session c (mkInit (Node []) (Node []) None None false) [] [] (Some (leaf_call 1)) true [[]]) = false /\
    C19Spec.spec_ok c (Node []) (Node []) (fun _ => []) [[]]
            (session c (mkInit (Node []) (Node []) None None false) [] [("a", leaf_call 1)] None true [[]]) = true.
Proof. exact refuted_default_task. Qed.

(** (F-C19c) Session edits do NOT always persist safely: `first second`, no
    environment variable set, root configured {db: {host: localhost}}; [first]
    writes the NEW setting db_host.  The reload before [second] crawls the
    merged view, finds two settings answering to DB_HOST and refuses
    (AmbiguousEnvVar): [second] never runs, the error escapes execute().  The
    same session without the write, or writing db_port instead, is as
    specified; with INVOKE_DB_HOST actually set the refusal is the documented
    one (C16) and outside the statement.  (In [C19_session_views_partial]
    below this outcome hides in "[benign_err]": that theorem speaks about the
    views of the bodies that did run.) *)
Theorem C19_session_edits_refuted_env_name_clash :
  exists c, build ns_script_c = Ok c /\
    let i := mkInit (Node []) (Node []) None None false in
    let reqs := [("first", leaf_call 1); ("second", leaf_call 2)] in
    (exists v0 v1, session c i clash_bodies reqs None true [[]] = Ok ([(1, v0, [ONone], v1)], Some EAmbigEnv) /\
                   leaf_at ["db_host"] (Node v1) = Some (VStr "x") /\
                   leaf_at ["db"; "host"] (Node v1) = Some (VStr "localhost")) /\
    C19Spec.spec_ok c (Node []) (Node []) (body_of clash_bodies) [[]]
                    (session c i clash_bodies reqs None true [[]]) = false /\
    C19Spec.spec_ok c (Node []) (Node []) (body_of []) [[]] (session c i [] reqs None true [[]]) = true /\
    (let other := [(1, [SetV Item [] "db_port" (Leaf (VStr "x"))])] in
     C19Spec.spec_ok c (Node []) (Node []) (body_of other) [[]] (session c i other reqs None true [[]]) = true) /\
    C19Spec.spec_ok c (Node []) (Node []) (body_of clash_bodies) [[("INVOKE_DB_HOST", "h")]]
            (session c i clash_bodies reqs None true [[("INVOKE_DB_HOST", "h")]]) = true.
Proof. exact refuted_env_name_clash. Qed.

(** Freshly read environment overrides: the reload of the environment level
    does not depend on the level computed for the previous task at all. *)
Theorem C19_env_reload_forgets_old_env : forall fs c e old,
  step fs (set_env c old) (LoadShellEnv e) = step fs c (LoadShellEnv e).
Proof. exact env_reload_forgets_old_env. Qed.

(** The former witness of F-C19b (found by this check, repaired in /repo by
    150639c; until then [C19_task_view_refuted_stale_env] stood here): with
    INVOKE_K_A set, `sub.first second`, only [sub] configuring [k.a] -- the
    environment level computed for [first] used to re-create [k.a = 5] for
    [second].  Now the session meets the specification and [second] sees
    nothing of it.  The same case is in corpus/C19 and is replayed on the
    real code on every run. *)
Example C19_stale_env_repaired :
  exists c, build ns_script_e = Ok c /\
    let i := mkInit (Node []) (Node []) None None false in
    let reqs := [("sub.first", leaf_call 1); ("second", leaf_call 2)] in
    C19Spec.spec_ok c (Node []) (Node []) (fun _ => []) [[("INVOKE_K_A", "5")]]
            (session c i [] reqs None true [[("INVOKE_K_A", "5")]]) = true /\
    (exists v1 v2, session c i [] reqs None true [[("INVOKE_K_A", "5")]]
                   = Ok ([(1, v1, [], v1); (2, v2, [], v2)], None) /\
                   leaf_at ["k"; "a"] (Node v1) = Some (VInt 5) /\
                   leaf_at ["k"; "a"] (Node v2) = None).
Proof. exact stale_env_gone. Qed.

(** Inside the guard (direct requests) the views on entry and exit of every body are
    the reference, and nothing escapes, on each of 28 request sequences (1-3
    requests over names, a default shortcut and three collections) x 7 first-body edit scripts (writes, deletions of a setting
    and of a whole section, pop, write-delete-write, attribute syntax) x 5
    environment schedules (one of them naming a setting
    only one collection defines) = 980 sessions.  A TEST, not the property. *)
Theorem C19_task_view_bounded_980 :
  sweep = true /\
  List.length req_seqs = 28 /\ List.length edits = 7 /\ List.length env_schedules = 5.
Proof. split; [exact view_bounded | exact sweep_size]. Qed.

(** Non-vacuity: in the sweep's tree the three tasks live in three collections
    with conflicting settings, and a session of the sweep really swaps them. *)
Example C19_example_session :
  exists va va' vb,
    session ns_tree init0 [(1, [SetV Item ["k"] "n" (Leaf (VInt 5)); Del Item ["k"] "top"])]
            [("a.t1", leaf_call 1); ("b.t2", leaf_call 2)] None true [[]; [("INVOKE_K_X", "7")]]
    = Ok ([(1, va, [ONone; ONone], va'); (2, vb, [], vb)], None) /\
    leaf_at ["k"; "x"] (Node va) = Some (VInt 0) /\ leaf_at ["k"; "a"] (Node va) = Some (VInt 1) /\
    leaf_at ["k"; "x"] (Node vb) = Some (VInt 7) /\ leaf_at ["k"; "a"] (Node vb) = None /\
    leaf_at ["k"; "n"] (Node vb) = Some (VInt 5) /\ leaf_at ["k"; "top"] (Node vb) = None /\
    leaf_at ["k"; "d"] (Node vb) = Some (VInt 0).
Proof.
  eexists. eexists. eexists. split; [vm_compute; reflexivity|].
  repeat split; vm_compute; reflexivity.
Qed.

(** * The general session theorem (Proofs/C19_flagship.v)

    For EVERY namespace tree, start-up state, body table, request list,
    environment schedule and schema [S]: if every executed call was requested
    by name and its own-path collection configuration conforms to [S]
    ([call_cfg_ok]: [level_okb S]) and every edit of every executed body is
    inside C06's [op_ok S] -- the boolean [session_guard] -- then the session
    runs to the end ([session] returns [Ok]), and the records satisfy
    [views_ok]: the k-th record is of the k-th call; the collection level in
    force inside it is [configuration ns <its own path>]; the view on entry is
    the replay of the journal of ALL earlier bodies' edits over the merge of
    the levels then in force (C06's [sim]/[replay] reading, [view_is]); the
    view on exit is the same with the body's own edits added to the journal;
    and the only errors that can end the session are the documented refusals
    and missing-key errors of a body's own edits ([benign_err]) -- never an
    internal error of the machinery.
    Guard, exactly: [is_node S], [start [] i = Ok c0], [good0 S c0],
    [session_guard S ns bodies (session_calls reqs dflt dd)].  The guard
    excludes F-C19 (pre/post hooks and the implicitly chosen default task are
    calls without a name: [call_cfg_ok] is false for them).
    What is missing with respect to the boolean [C19Spec.spec_ok]: the
    statement is in C06's semantic terms; the per-path [expected] of
    Spec/C19Spec.v (environment conversion included), [write_ok] and the
    outcome list are compared with the model by the bounded sweep
    [C19_task_view_bounded_980] and by the correspondence runs only. *)
From InvokeVerif Require Import Model.ConfigModel Spec.C06Spec Proofs.C06_shapes Proofs.C06_track
     Proofs.C06_refine Proofs.C19_flagship.

Theorem C19_session_views_partial :
  forall S ns i bodies reqs dflt dd envs c0,
  is_node S = true -> start [] i = Ok c0 -> good0 S c0 = true ->
  let bf := fun t => match find (fun b => Nat.eqb (fst b) t) bodies with
                     | Some b => snd b | None => [] end in
  let calls := session_calls reqs dflt dd in
  session_guard S ns bf calls = true ->
  exists recs er,
    session ns i bodies reqs dflt dd envs = Ok (recs, er) /\
    views_ok S [] ns bf [] calls recs /\
    (forall e, er = Some e -> benign_err e).
Proof. exact session_views. Qed.

(** The same from any state satisfying C06's invariant (any journal so far). *)
Theorem C19_run_calls_views_partial :
  forall S fs ns bodies, is_node S = true -> forall calls c J envs,
  good S c J -> session_guard S ns bodies calls = true ->
  views_ok S fs ns bodies J calls (fst (run_calls fs ns c bodies calls envs)) /\
  (forall e, snd (run_calls fs ns c bodies calls envs) = Some e -> benign_err e).
Proof. exact run_calls_views. Qed.

(** The collection level [views_ok] names is the C17 reference: the deep
    merge of the configurations along the task's own path, innermost first. *)
Theorem C19_own_path_level_partial :
  forall ns n t cfgs d,
  ns_wf ns = true -> ns_canon ns = true ->
  ref_path ns (segs_of n) = Some (t, cfgs) -> all_compatible cfgs = true ->
  configuration ns n = Ok d ->
  wf (Node d) = true /\
  forall p, leaf_at p (Node d) = first_some (map (fun g => leaf_at p (Node g)) cfgs).
Proof. exact own_path_level. Qed.

(** Non-vacuity: the guard holds for two named requests over the three-collection
    tree of the sweep with an editing body. *)
Example C19_example_session_guard :
  let bodies := [(1, [SetV Item ["k"] "n" (Leaf (VInt 5)); Del Item ["k"] "top"])] in
  let bf := fun t => match find (fun b => Nat.eqb (fst b) t) bodies with
                     | Some b => snd b | None => [] end in
  let reqs := [("a.t1", leaf_call 1); ("b.t2", leaf_call 2)] in
  exists c0, start [] init0 = Ok c0 /\ good0 S_ex c0 = true /\
             session_guard S_ex ns_tree bf (session_calls reqs None true) = true /\
             forallb call_named (session_calls reqs None true) = true.
Proof. exact flagship_example. Qed.

(** * Deletions stay in force across namespace switches (Proofs/C19_deletions.v)

    [Config._deletions] is a tree of marks; [masked D p] = [p] or a section
    above it carries a mark.  [keeps p o] = [o] is an operation of a task body
    (or a reload) that does not WRITE [p] or a section above it;
    [nobody_writes p bodies calls] = no body of [calls] does. *)
From InvokeVerif Require Import Proofs.C19_deletions.

(** A successful [del] by a task body is on record afterwards ([pop] and
    [popitem] likewise).  No guard: by construction of the model. *)
Theorem C19_deletion_recorded : forall fs c fl kp k,
  snd (step fs c (Del fl kp k)) = ONone ->
  masked (c_dels (fst (step fs c (Del fl kp k)))) (kp ++ [k]) = true.
Proof. exact del_records. Qed.

Theorem C19_pop_recorded : forall fs c fl kp k dflt d t,
  nav fl (c_cache c) kp = Ok d -> get k d = Some t ->
  snd (step fs c (Pop fl kp k dflt)) = OVal t ->
  masked (c_dels (fst (step fs c (Pop fl kp k dflt)))) (kp ++ [k]) = true.
Proof. exact pop_records. Qed.

Theorem C19_popitem_recorded : forall fs c fl kp k t,
  snd (step fs c (PopItem fl kp)) = OPair k t ->
  masked (c_dels (fst (step fs c (PopItem fl kp)))) (kp ++ [k]) = true.
Proof. exact popitem_records. Qed.

(** Nothing but a write to [p] or to a section above it takes the mark away:
    not a reload of the collection level or of the environment (whatever is
    loaded -- [LoadCollection t] for EVERY [t], with or without the key), not
    any other edit, read or deletion.  No guard. *)
Theorem C19_deletion_mark_survives : forall fs c o p,
  keeps p o = true -> masked (c_dels c) p = true -> masked (c_dels (fst (step fs c o))) p = true.
Proof. exact step_keeps_mask. Qed.

(** ... and a marked path is hidden in ANY (well-formed) freshly merged data,
    also in data that do not have the key (any more): [merge()] ends with
    [obliterate cache deletions]. *)
Theorem C19_mark_hides_with_or_without_key : forall D X p,
  wf (Node D) = true -> wf (Node X) = true -> masked D p = true ->
  shape_at p (Node (obliterate X (Node D))) = None.
Proof. exact masked_hidden. Qed.

(** The session statement: a deletion on record stays in force in EVERY later
    execution of the session -- named calls, pre-/post-tasks and the implicit
    default task alike, in whatever namespace, whatever collection level is
    loaded for them (also levels that lack the deleted key) -- on entry to and
    on exit from the body, until some body writes [p] or a section above it
    again.
    Guard (booleans): [session_guard_any] = the guard of
    [C19_session_views_partial] with calls without a name admitted (they are
    loaded with [configuration_none]): every call's collection level conforms
    to the schema [S], every body edit is inside C06's [op_ok S] (leaf-valued
    writes); [nobody_writes].  [good S c J] is C06's invariant (it holds of the
    start state by [good0_good] and is kept by every guarded step).
    Missing for full strength: dict-valued writes (F-C06a territory) and
    levels outside one schema. *)
Theorem C19_deletion_stays_in_force_partial :
  forall S fs ns bodies, is_node S = true -> forall calls c J envs p,
  good S c J -> session_guard_any S ns bodies calls = true ->
  masked (c_dels c) p = true -> nobody_writes p bodies calls = true ->
  Forall (gone_in p) (fst (run_calls fs ns c bodies calls envs)).
Proof. exact deletion_stays. Qed.

(** Non-vacuity, the three-step history: root{shared} > a{build:{flags,jobs},
    artifact} > first, last ; b{lint} > mid.  `a.first b.mid a.last`, [first]
    deletes build.flags and artifact (only [a] supplies them).  [c1_r] is the
    state after [first]: the hypotheses of the theorem hold there for the
    rest of the session, [mid]'s data have no [build] at all, and [last]
    sees [a]'s settings minus what [first] deleted. *)
Example C19_example_three_step_history :
  let reqs := [("a.first", leaf_call 1); ("b.mid", leaf_call 2); ("a.last", leaf_call 3)] in
  let rest := [(2, Some "b.mid"); (3, Some "a.last")] in
  build ns_script_r = Ok ns_r /\
  good S_r c1_r J1_r /\
  masked (c_dels c1_r) ["build"; "flags"] = true /\ masked (c_dels c1_r) ["artifact"] = true /\
  session_guard_any S_r ns_r bf_r rest = true /\
  nobody_writes ["build"; "flags"] bf_r rest = true /\ nobody_writes ["artifact"] bf_r rest = true /\
  exists va va' vb vl outs,
    session ns_r init_r bodies_r reqs None true [[]]
      = Ok ([(1, va, outs, va'); (2, vb, [], vb); (3, vl, [], vl)], None) /\
    run_calls [] ns_r c1_r bf_r rest [[]] = ([(2, vb, [], vb); (3, vl, [], vl)], None) /\
    leaf_at ["build"; "flags"] (Node va) = Some (VStr "-O2") /\
    leaf_at ["artifact"] (Node va) = Some (VStr "a.tar") /\
    lookup ["build"] (Node vb) = None /\ leaf_at ["marker"] (Node vb) = Some (VStr "m") /\
    leaf_at ["build"; "jobs"] (Node vl) = Some (VInt 4) /\
    leaf_at ["build"; "flags"] (Node vl) = None /\ leaf_at ["artifact"] (Node vl) = None /\
    leaf_at ["marker"] (Node vl) = Some (VStr "m").
Proof. exact three_step_history. Qed.

(** The same with the other namespace as a POST-TASK of the deleting task (a
    call without a name: outside [session_guard], inside [session_guard_any])
    and a whole section deleted. *)
Example C19_example_three_step_history_hook :
  let reqs := [("a.first", SCall 1 [] [leaf_call 2]); ("a.last", leaf_call 3)] in
  let rest := [(2, None); (3, Some "a.last")] in
  session_calls reqs None true = (1, Some "a.first") :: rest /\
  good S_r c1_r2 (journal [] c2_r (bf_r2 1)) /\
  masked (c_dels c1_r2) ["build"] = true /\ masked (c_dels c1_r2) ["build"; "jobs"] = true /\
  session_guard_any S_r ns_r bf_r2 rest = true /\ session_guard S_r ns_r bf_r2 rest = false /\
  nobody_writes ["build"] bf_r2 rest = true /\
  exists va va' vb vl outs,
    session ns_r init_r bodies_r2 reqs None true [[]]
      = Ok ([(1, va, outs, va'); (2, vb, [], vb); (3, vl, [], vl)], None) /\
    lookup ["build"] (Node va) <> None /\ lookup ["build"] (Node vb) = None /\
    lookup ["build"] (Node vl) = None /\ leaf_at ["artifact"] (Node vl) = Some (VStr "a.tar").
Proof. exact three_step_history_hook. Qed.

(** * One collection object mounted under several parents (Proofs/C19_shared.v)

    A reusable task group added to two parents gives each of its tasks two
    namespace paths; the specification judges a call made by name against the
    path THAT NAME goes through ([C19Spec.call_path], [spec_ok_named]).  In the
    model a namespace is a value, [run_calls] never rebuilds it and
    [configuration ns n] depends on the tree and the name alone: that lookups
    leave nothing behind in the stored configurations is true of the model by
    construction; that the implementation agrees is checked by the
    correspondence runs of the shared-group family (both orders, the same task
    through both mounts, lookups made before the session). *)
From InvokeVerif Require Import Proofs.C19_shared.

(** Full strength over every tree (groups mounted any number of times) and
    every canonical name: the path the specification judges a named call by is
    the list of configurations whose per-setting merge (outermost defining
    collection wins) the model loads as the collection level for that call,
    from any session state [c0] -- whatever was looked up or executed before.
    (Hypotheses are those of C17's reference: a well-formed canonical tree and
    type-consistent configurations along the path.) *)
Theorem C19_named_call_judged_by_its_own_mount : forall ns fs c0 n t cfgs,
  ns_wf ns = true -> ns_canon ns = true ->
  ref_path ns (segs_of n) = Some (t, cfgs) -> all_compatible cfgs = true ->
  call_path ns (t_id t) (Some n) = Some cfgs /\
  exists d,
    configuration ns n = Ok d /\
    (forall p, leaf_at p (Node d) = first_some (map (fun g => leaf_at p (Node g)) cfgs)) /\
    c_collection (fst (step fs c0 (LoadCollection (Node d)))) = Node d.
Proof. exact named_call_path_level. Qed.

(** Judging by name with no names given is judging by where the task is bound
    (the form every other C19 statement uses); calls without a name are
    judged there too. *)
Theorem C19_spec_by_name_extends_spec : forall c dflts overrides bodies envs obs,
  spec_ok_named c dflts overrides bodies envs [] obs = C19Spec.spec_ok c dflts overrides bodies envs obs.
Proof. exact spec_ok_named_nil. Qed.

Theorem C19_unnamed_call_judged_at_home : forall c t, call_path c t None = home c t.
Proof. exact call_path_unnamed. Qed.

(** Non-vacuity: the group db > t1, t2 under [p] (k.p, only) and under [s]
    (k.s): the two mounts are different paths of one task (and the second is
    not where [home] finds it); sessions through both mounts in both orders,
    the same task through both mounts and back (dedupe off, an environment
    naming the settings only [p] has) satisfy the specification; the view of
    the call through [s] has none of [p]'s settings and equals what a session
    of that call alone shows. *)
Example C19_example_shared_group :
  ns_wf shared_tree = true /\
  call_path shared_tree 2 (Some "p.db.t2") <> call_path shared_tree 2 (Some "s.db.t2") /\
  call_path shared_tree 2 (Some "s.db.t2") <> home shared_tree 2 /\
  judge_named [] [("p.db.t1", leaf_call 1); ("s.db.t2", leaf_call 2)] true [[]] = true /\
  judge_named [] [("s.db.t2", leaf_call 2); ("p.db.t1", leaf_call 1)] true [[]] = true /\
  judge_named [(1, [SetV Item ["k"] "n" (Leaf (VInt 5))])]
              [("p.db.t1", leaf_call 1); ("s.db.t1", leaf_call 1); ("p.db", leaf_call 1)] false
              [[("INVOKE_ONLY", "9"); ("INVOKE_K_P", "7")]] = true /\
  (exists vp vs,
     session shared_tree init_e [] [("p.db.t1", leaf_call 1); ("s.db.t2", leaf_call 2)] None true [[]]
     = Ok ([(1, vp, [], vp); (2, vs, [], vs)], None) /\
     leaf_at ["only"] (Node vp) = Some (VInt 5) /\ leaf_at ["k"; "p"] (Node vp) = Some (VInt 1) /\
     leaf_at ["k"; "s"] (Node vp) = None /\
     leaf_at ["only"] (Node vs) = None /\ leaf_at ["k"; "p"] (Node vs) = None /\
     leaf_at ["k"; "s"] (Node vs) = Some (VInt 2) /\ leaf_at ["k"; "g"] (Node vs) = Some (VInt 3) /\
     session shared_tree init_e [] [("s.db.t2", leaf_call 2)] None true [[]] = Ok ([(2, vs, [], vs)], None)).
Proof. exact shared_group_sessions. Qed.
