(** C07 -- parsing is total, side-effect free and fails only with documented
    parse errors.  Statements only; proofs in Proofs/C07_*.v.

    Purity (argv / contexts never modified, repeated parse same answer) holds
    by construction in a functional model, so it is NOT claimed here: it is a
    snapshot test in harness/props/c07.py ([extra_checks]). *)
From InvokeVerif Require Import Corr.C07Corr Proofs.C07_fuel Proofs.C07_errors Proofs.C07_witness
     Proofs.C07_positional.
From InvokeVerif Require Spec.C01Spec Proofs.C01_final Proofs.C01_wide_final2.
From InvokeVerif Require Import Proofs.C07_noerror Proofs.C07_converse Proofs.C18_parser Proofs.C01_steps.

(** Termination (full): the token loop -- which re-inserts pieces of split
    tokens into the list it iterates over -- always ends within [body_fuel]
    steps, a bound linear in the size of the command line. *)
Theorem C07_terminates : forall p argv,
  exists r, parse_argv_fuel (body_fuel (fst (split_ddash argv))) p argv = Some r.
Proof. exact parse_fuel_sufficient. Qed.

Theorem C07_fuel_irrelevant : forall p argv fuel,
  body_fuel (fst (split_ddash argv)) <= fuel ->
  parse_argv_fuel fuel p argv = Some (parse_argv p argv).
Proof. exact parse_fuel_irrelevant. Qed.

Theorem C07_fuel_linear : forall body,
  body_fuel body <= fold_right (fun t n => 2 * String.length t + 1 + n) 0 body.
Proof. exact body_fuel_linear. Qed.

(** Only documented errors.  Guard [c07_guard], every conjunct of it:
      - the parser can be constructed (named tasks, distinct names/aliases);
      - every argument has a name;
      - counters start from a number.  NOT benign: a counter with a None / str
        default makes "-v" raise TypeError -- finding F-C07e,
        [C07_only_parse_errors_refuted_counter];
      - an argument called "help" has a type that cannot reject a text (the
        per-task --help special case assigns the task's NAME to the initial
        context's help argument outside the guarded assignment).  Benign: the
        only initial contexts invoke builds are Program's, whose help argument
        is a str; tasks' own "help" parameters are never the target.
    Arguments of ANY type are allowed: int (401bc73) and every other callable
    type, whose rejections -- ValueError or TypeError -- are ParseErrors
    (f5d4a34; [KOther] carries the type's behaviour as an oracle).  Value-optional
    list arguments are allowed (the invariant tracks that a list argument's
    raw_value is never None; this was a guard conjunct before).  An initial
    context is NOT required (e36c9e6).  So the theorem applies to the real core
    context and to bare [Parser(contexts)] ([C07_guard_inhabited],
    [C07_no_initial_cluster_is_parse_error]).  Then the outcome is a result or
    ParseError: AttributeError, KeyError, TypeError, ValueError and fluidity's
    InvalidTransition are unreachable.  The name keeps _partial because of the
    counter conjunct. *)
Theorem C07_only_parse_errors_partial : forall cs init ign argv,
  c07_guard cs init = true ->
  match parser_parse cs init ign argv with Ok _ => True | Err e => e = EParse end.
Proof. exact only_parse_errors. Qed.

(** F-C07a is repaired (401bc73): a value the argument's type cannot convert
    is a ParseError, for flags and through the core pass alike. *)
Theorem C07_int_value_is_parse_error :
  c07_guard small_cs (Some core_ctx) = true /\
  parser_parse small_cs (Some core_ctx) false ["t"; "--num=abc"] = Err EParse /\
  parser_parse [] (Some core_ctx) true ["-T"; "abc"] = Err EParse.
Proof. exact int_value_is_parse_error. Qed.

(** F-C07f is repaired (f5d4a34): a text rejected by the argument's own type is
    a ParseError whichever exception the type raises -- float: ValueError,
    bytes: TypeError; a text the type converts is delivered converted. *)
Theorem C07_other_kind_value_is_parse_error :
  c07_guard [ctx_o] (Some core_ctx) = true /\
  parser_parse [ctx_o] (Some core_ctx) false ["o"; "--ratio"; "abc"] = Err EParse /\
  parser_parse [ctx_o] (Some core_ctx) false ["o"; "-d"; "ab"] = Err EParse /\
  spec_ok [ctx_o] (Some core_ctx) false ["o"; "-d"; "ab"] (model_parse [ctx_o] ICore false ["o"; "-d"; "ab"]) = true /\
  exists r, parser_parse [ctx_o] (Some core_ctx) false ["o"; "-r"; "2.5"] = Ok r /\
            map obs_of_ctx (tl (pr_ctxs r)) = [(Some "o", [("ratio", AStr "<float 2.5>"); ("data", AStr "<bytes b'x'>")])].
Proof. exact other_kind_value_is_parse_error. Qed.

(** Historical record (F-C07f, fixed): before f5d4a34 the guarded assignment
    ([checked_old]) caught ValueError only. *)
Theorem C07_type_error_historical_refuted :
  exists m f, set_arg_value m f (IStr "ab") true = Err EType /\
              checked_old (set_arg_value m f (IStr "ab") true) = Err EType /\
              checked (set_arg_value m f (IStr "ab") true) = Err EParse.
Proof. exact type_error_historical_refuted. Qed.

(** F-C07e: "never any other exception type" is FALSE for a counter that does
    not start from a number: [@task(incrementable=['v']) def t(c, v=None)],
    "inv t -v" raises TypeError.  The guard of the theorem above excludes
    exactly this. *)
Theorem C07_only_parse_errors_refuted_counter :
  c07_guard [ctx_badcounter] (Some core_ctx) = false /\
  parser_parse [ctx_badcounter] (Some core_ctx) false ["t"; "-v"] = Err EType /\
  spec_ok [ctx_badcounter] (Some core_ctx) false ["t"; "-v"]
          (model_parse [ctx_badcounter] ICore false ["t"; "-v"]) = false.
Proof. exact refuted_counter. Qed.

(** F-C07b is repaired (e36c9e6): no initial context + a short-flag cluster. *)
Theorem C07_no_initial_cluster_is_parse_error :
  c07_guard small_cs None = true /\
  parser_parse small_cs None false ["-abc"] = Err EParse /\
  exists r, parser_parse small_cs None false ["t"; "-fn"; "x"; "q"; "5"] = Ok r
            /\ List.length (pr_ctxs r) = 2.
Proof. exact no_initial_cluster_is_parse_error. Qed.

(** "Missing positional arguments are an error" (full, no guard): whenever a
    parse succeeds -- any parser, any initial context or none, any command line,
    with or without ignore_unknown -- no returned context has a positional
    argument left without a value (clause B1 of [spec_ok], at model level). *)
Theorem C07_missing_positional_errors : forall cs init ign argv r,
  parser_parse cs init ign argv = Ok r ->
  forallb (fun c => negb (has_missing c)) (pr_ctxs r) = true.
Proof. exact missing_positional_errors. Qed.

(** "A value-requiring flag left without a value is an error" -- since repair
    9120dc5 (F-C07c, F-C07d fixed) also for list-kind flags and for arguments
    that already hold a value (given earlier by flag, or positionally): the
    former witnesses are ParseErrors and satisfy the complete [spec_ok]; an
    optional-value flag repeated bare keeps its earlier value.  The universally
    quantified statement is [C07_missing_value_raises] below. *)
Theorem C07_missing_value_list_raises :
  c07_guard small_cs (Some core_ctx) = true /\
  parser_parse small_cs (Some core_ctx) false ["t"; "--lst"] = Err EParse /\
  parser_parse small_cs (Some core_ctx) false ["t"; "--lst"; "a"; "--lst"] = Err EParse /\
  spec_ok small_cs (Some core_ctx) false ["t"; "--lst"] (model_parse small_cs ICore false ["t"; "--lst"]) = true.
Proof. exact missing_value_list_raises. Qed.

Theorem C07_missing_value_repeat_raises :
  parser_parse small_cs (Some core_ctx) false ["t"; "--name"; "x"; "--name"] = Err EParse /\
  parser_parse small_cs (Some core_ctx) false ["p"; "v"; "--pos"] = Err EParse /\
  spec_ok small_cs (Some core_ctx) false ["t"; "--name"; "x"; "--name"]
          (model_parse small_cs ICore false ["t"; "--name"; "x"; "--name"]) = true /\
  exists r, parser_parse small_cs (Some core_ctx) false ["t"; "--opt"; "o"; "--opt"] = Ok r /\
            map obs_of_ctx (tl (pr_ctxs r))
            = [(Some "t", [("name", ANone); ("num", AInt 1); ("flag", ABool false);
                           ("lst", AList []); ("opt", AStr "o")])].
Proof. exact missing_value_repeat_raises. Qed.

(** Historical record (F-C07c / F-C07d, fixed): [complete_flag_old] is the rule
    before 9120dc5 ("needed a value" judged by [raw_value is None]).  On the
    machines reached after "t --lst", "t --name x --name" and "p v --pos" -- the
    dangling flag is current, flag_got_value is False -- the old rule was
    satisfied by the raw_value already present and let the parse finish; the
    repaired rule raises.  (A revert is caught by the harness: corpus/C07 keeps
    the witnesses.) *)
Theorem C07_missing_value_errors_historical_refuted :
  (exists m, machine_after ["t"; "--lst"] = Some (Ok m) /\ m_got m = false /\
             complete_flag_old m = Ok m /\ complete_flag m = Err EParse) /\
  (exists m, machine_after ["t"; "--name"; "x"; "--name"] = Some (Ok m) /\ m_got m = false /\
             complete_flag_old m = Ok m /\ complete_flag m = Err EParse) /\
  (exists m, machine_after ["p"; "v"; "--pos"] = Some (Ok m) /\ m_got m = false /\
             complete_flag_old m = Ok m /\ complete_flag m = Err EParse).
Proof. exact missing_value_historical_refuted. Qed.

(** "Raises exactly in the documented situations", the converse direction: a
    well-formed command line does NOT raise.  Universally quantified over the
    spelling fragments of the C01 round-trip theorems (corollaries): every
    command line that spells an invocation of the simple fragment
    ([C01_final.simple_guard]) or of the widest proved fragment
    ([C01_wide_final2.guard_wide_x]: glued values, counters, positionals by
    position, optional flags with value, clusters) parses to a result. *)
Theorem C07_no_error_on_roundtrip_fragment : forall cs ic inv,
  C01_final.simple_guard cs ic inv = true ->
  exists r, parser_parse cs (Some ic) false (C01Spec.spell cs inv) = Ok r.
Proof. exact no_error_simple. Qed.

Theorem C07_no_error_on_wide_fragment : forall cs ic inv,
  parser_ok cs = true -> C01_wide_final2.guard_wide_x cs ic inv = true ->
  exists r, parser_parse cs (Some ic) false (C01Spec.spell cs inv) = Ok r.
Proof. exact no_error_wide. Qed.

(** "Raises in the documented situations", universally quantified (state-level
    counterparts of the spec clauses B2-B4; B1 is [C07_missing_positional_errors]).
    Each holds for EVERY parser [p], every prefix [pre] of the command line that
    the loop has processed without error (leaving machine [m1]), and everything
    that may follow; the guard is a condition on [m1] and the next token. *)

(** B3 -- an unknown token: nothing pending (not waiting for a value, no
    positional missing), a plain word that is not a task name, not ignore_unknown. *)
Theorem C07_unknown_token_raises_partial : forall p f1 m0 pre m1 tok rest,
  new_machine p = Ok m0 -> loop p f1 m0 pre = Some (Ok m1) ->
  no_ddash (pre ++ tok :: rest) = true ->
  p_ignore p = false ->
  m_st m1 = SContext -> waiting m1 = false ->
  match cur_ctx m1 with Some c => has_missing c | None => false end = false ->
  starts_with "-" tok = false -> is_ctx_name (p_ctxs p) tok = false ->
  parse_argv p (pre ++ tok :: rest) = Err EParse.
Proof. exact unknown_token_raises. Qed.

(** B4 -- an ambiguous token after an optional-value flag: the pending flag is
    optional-value without value; the next plain word names a task, or the
    current task still lacks a positional. *)
Theorem C07_ambiguous_token_raises_partial : forall p f1 m0 pre m1 r tok rest,
  new_machine p = Ok m0 -> loop p f1 m0 pre = Some (Ok m1) ->
  no_ddash (pre ++ tok :: rest) = true ->
  m_st m1 = SContext ->
  flag_arg m1 = Some r -> takes_value (r_spec r) = true ->
  a_optional (r_spec r) = true -> r_raw r = false ->
  starts_with "-" tok = false ->
  (match cur_ctx m1 with Some c => has_missing c | None => false end
   || is_ctx_name (p_ctxs p) tok) = true ->
  parse_argv p (pre ++ tok :: rest) = Err EParse.
Proof. exact ambiguous_token_raises. Qed.

(** B2 -- a value-requiring flag left without a value (full for clause B2 of
    [spec_ok] since repair 9120dc5): the LAST token is an exact flag of the
    current context for an argument that takes a non-optional value.  No
    condition on what the argument already holds: list kind, given before,
    filled positionally -- the parse fails.  (Until 9120dc5 this carried the
    guard [r_raw r = false], the complement of F-C07c/d.) *)
Theorem C07_missing_value_raises : forall p f1 m0 pre m1 c k t i r,
  new_machine p = Ok m0 -> loop p f1 m0 pre = Some (Ok m1) ->
  no_ddash (pre ++ [t]) = true ->
  m_st m1 = SContext -> m_unparsed m1 = [] ->
  m_cur m1 = Some k -> get_ctx m1 k = Some c ->
  clean_flag t = true ->
  find_flag (rc_args c) t = Some i -> nth_error (rc_args c) i = Some r ->
  takes_value (r_spec r) = true -> a_optional (r_spec r) = false ->
  fails (parse_argv p (pre ++ [t])).
Proof. exact dangling_value_flag_raises. Qed.

(** The "stale flag is inert" invariant behind every round-trip proof, restated
    for the repaired [complete_flag]: it runs on every state entry with whatever
    [self.flag] was left behind; when that flag's argument holds a value and --
    if the flag needs one (list kind, or value-taking and not optional) -- this
    occurrence received it ([flag_got_value], reset only by [switch_to_flag]),
    then [complete_flag] changes nothing and the machine is not waiting. *)
Theorem C07_stale_flag_is_inert : forall m,
  inert m -> complete_flag m = Ok m /\ waiting m = false /\
             forall p v, check_ambiguity p v m = Ok m.
Proof. exact stale_flag_is_inert. Qed.

Example C07_converse_hypotheses_inhabited :
  (exists m0 m1, new_machine ex_parser = Ok m0 /\ loop ex_parser 9 m0 ["t"; "v"] = Some (Ok m1) /\
                 m_st m1 = SContext /\ waiting m1 = false /\
                 match cur_ctx m1 with Some c => has_missing c | None => false end = false) /\
  parse_argv ex_parser ["t"; "v"; "zzz"; "u"] = Err EParse /\
  (exists m0 m1 r, new_machine ex_parser = Ok m0 /\
                   loop ex_parser 9 m0 ["t"; "v"; "--opt"] = Some (Ok m1) /\
                   flag_arg m1 = Some r /\ a_optional (r_spec r) = true /\ r_raw r = false) /\
  parse_argv ex_parser ["t"; "v"; "--opt"; "u"] = Err EParse /\
  (exists m0 m1 c r, new_machine ex_parser = Ok m0 /\ loop ex_parser 9 m0 ["t"; "v"] = Some (Ok m1) /\
                     get_ctx m1 0 = Some c /\ find_flag (rc_args c) "--name" = Some 0 /\
                     nth_error (rc_args c) 0 = Some r /\ r_raw r = false) /\
  parse_argv ex_parser ["t"; "v"; "--name"] = Err EParse.
Proof. exact converse_examples. Qed.

(** A TEST, not the property: all 2958 command lines of <= 3 tokens over a
    14-token alphabet (task names, flags, glued/= forms, cluster, "--", inverse
    flag, core flag) against two tasks + the real core context satisfy the
    complete [spec_ok] (A, B1-B5, C) -- without exemption since repair 9120dc5. *)
Theorem C07_spec_bounded_3 : forallb sweep_ok (seqs 3 sweep_alpha) = true.
Proof. exact spec_sweep_3. Qed.

(** Non-vacuity: the guards are satisfied by real-looking parsers. *)
Example C07_guard_inhabited :
  c07_guard small_cs (Some core_ctx) = true /\
  c07_guard [ctx_t_noint; ctx_p] (Some init_noint) = true /\
  exists r, parser_parse [ctx_t_noint; ctx_p] (Some init_noint) false
                         ["t"; "-vv"; "--name=x"; "-e"; "q"; "5"; "--no-yes"] = Ok r
            /\ List.length (pr_ctxs r) = 3.
Proof. exact (conj guard_core_small (conj guard_strict_example strict_example_parses)). Qed.
