(** C12 -- Auto-responses depend on the output text, not on how it was chunked.
    Statements only; proofs are in Proofs/C12_regex.v and Proofs/C12_watch.v.

    [current]  = the code in /repo as it stands (Model/WatchModel.v), which does NOT
                 have the property: F-C12a (index := end of the read) and F-C12b
                 ([tried] latches on the first submit).  For it: [_refuted] witnesses
                 and [_partial] theorems under boolean guards.
    [repaired] = the candidate two-line patch (index := end of the last match; the
                 response list is materialised before its truthiness is tested):
                 [C12_repaired_*] are the full-strength statements, proved for
                 [submit_fixed = submit repaired].  They say nothing about /repo
                 until the patch is applied and Corr/C12Corr.v's [impl_variant] is
                 switched.
    Pattern family: non-empty fixed-length sequences of character classes. *)
From InvokeVerif Require Import Model.WatchModel Spec.C12Spec Proofs.C12_regex Proofs.C12_watch.

(** The full statements, for a variant [v] of the code. *)
Definition C12_chunk_independent_statement (v : variant) : Prop :=
  forall (p : pattern) (r : string) (chunks : list text),
    total (fst (feed_stream v [WResp p r] chunks)) = occ p (List.concat chunks).

Definition C12_failing_sentinel_statement (v : variant) : Prop :=
  forall (p : pattern) (r : string) (s : pattern) (chunks : list text),
    snd (feed_stream v [WFail p r s] chunks) = must_raise p s [] false chunks.

Definition C12_meets_spec_statement (v : variant) : Prop :=
  forall (ws : list watcher) (sched : list event) (how : via),
    spec_ok ws sched how (fst (run v ws sched)) (snd (run v ws sched))
            (outcome_exn how (snd (run v ws sched))) = true.

(** ** The code as it stands *)

(** Flagship (partial): any watchers, any schedule of reads over the two threads --
    inside the guard (no occurrence straddles the end of a read in which an
    occurrence was completed; no sentinel completed in a non-first read before the
    watcher has answered) what the model of the present code writes and raises is
    accepted by the executable specification.  Missing: everything outside the
    guard, where the statement is false (next two theorems). *)
Theorem C12_run_meets_spec_partial : forall ws sched how,
  guard false false ws sched = true ->
  spec_ok ws sched how (fst (run current ws sched)) (snd (run current ws sched))
          (outcome_exn how (snd (run current ws sched))) = true.
Proof. exact current_meets_spec_in_guard. Qed.

(** F-C12a: "abab" delivered as "aba" | "b" is answered once. *)
Theorem C12_chunk_independent_refuted_straddle :
  exists p r chunks, nonempty p = true /\
    total (fst (feed_stream current [WResp p r] chunks)) <> occ p (List.concat chunks).
Proof. exact current_refuted_straddle. Qed.

Theorem C12_chunk_independent_partial : forall p r chunks,
  no_straddle_after_match p [] chunks = true ->
  total (fst (feed_stream current [WResp p r] chunks)) = occ p (List.concat chunks).
Proof. exact current_chunk_independent_partial. Qed.

(** F-C12b: "xx " | "Sorry" raises although nothing was ever answered (and the same
    text in one read does not raise). *)
Theorem C12_failing_sentinel_refuted_tried :
  exists p r s chunks, nonempty p = true /\ nonempty s = true /\
    occ p (List.concat chunks) = 0 /\
    total (fst (feed_stream current [WFail p r s] chunks)) = 0 /\
    snd (feed_stream current [WFail p r s] chunks) = true /\
    must_raise p s [] false chunks = false /\
    snd (feed_stream current [WFail p r s] [List.concat chunks]) = false.
Proof. exact current_refuted_tried. Qed.

Theorem C12_failing_sentinel_partial : forall p r s chunks,
  failing_region p r s chunks = true ->
  snd (feed_stream current [WFail p r s] chunks) = must_raise p s [] false chunks.
Proof. exact current_failing_sentinel_partial. Qed.

(** Full strength on the present code: no raise when no sentinel occurs in the
    stream's text (any watchers, any chunking, either variant). *)
Theorem C12_never_raises_without_sentinel : forall v ws chunks,
  (forall p r s, In (WFail p r s) ws -> occ s (List.concat chunks) = 0) ->
  snd (feed_stream v ws chunks) = false.
Proof.
  intros v ws chunks H. apply never_raises_without_sentinel; [reflexivity | exact H].
Qed.

(** Full strength on the present code: separate positions per stream -- under every
    interleaving of the reads of the two threads, each thread writes and dies
    exactly as if it were fed its own reads alone. *)
Theorem C12_streams_independent : forall v ws sched,
  proj false sched (fst (run v ws sched)) = fst (feed_stream v ws (chunks_of false sched)) /\
  fst (snd (run v ws sched)) = snd (feed_stream v ws (chunks_of false sched)) /\
  proj true sched (fst (run v ws sched)) = fst (feed_stream v ws (chunks_of true sched)) /\
  snd (snd (run v ws sched)) = snd (feed_stream v ws (chunks_of true sched)).
Proof. exact streams_independent. Qed.

(** ** The repaired variant ([submit_fixed]): the property at full strength *)
Theorem C12_repaired_run_meets_spec : C12_meets_spec_statement repaired.
Proof. exact repaired_meets_spec. Qed.

Theorem C12_repaired_chunk_independent : C12_chunk_independent_statement repaired.
Proof. exact repaired_chunk_independent. Qed.

Theorem C12_repaired_same_text : forall p r chunks1 chunks2,
  List.concat chunks1 = List.concat chunks2 ->
  total (fst (feed_stream repaired [WResp p r] chunks1)) =
  total (fst (feed_stream repaired [WResp p r] chunks2)).
Proof. exact repaired_same_text. Qed.

Theorem C12_repaired_failing_sentinel : C12_failing_sentinel_statement repaired.
Proof. exact repaired_failing_sentinel. Qed.

(** Non-vacuity: a two-thread schedule with a Responder and a FailingResponder that
    lies inside the guard, answers several times and ends in a legitimate raise. *)
Example C12_example_in_guard :
  let ws := [WResp (lit "ab") "y"; WFail (lit "a") "p" (lit "b")] in
  let sched := [(false, "ab"); (true, "xa"); (false, "ab"); (true, "xb")] in
  guard false false ws sched = true /\
  run current ws sched = ([["y"; "p"]; ["p"]; ["y"]; []], (true, true)).
Proof. vm_compute. split; reflexivity. Qed.

(** ... and the guards of the single-watcher corollaries hold on chunkings that do
    split occurrences across reads. *)
Example C12_example_split_prompt :
  no_straddle_after_match (lit "ab") [] [chars "a"; chars "b"; chars "a"; chars "b"] = true /\
  total (fst (feed_stream current [WResp (lit "ab") "y"] [chars "a"; chars "b"; chars "a"; chars "b"])) = 2 /\
  failing_region (lit "pw") "x" (lit "No") [chars "p"; chars "w"; chars "N"; chars "o"] = true /\
  snd (feed_stream current [WFail (lit "pw") "x" (lit "No")] [chars "p"; chars "w"; chars "N"; chars "o"]) = true.
Proof. vm_compute. repeat split; reflexivity. Qed.

(** The full statements are false of the code as it stands. *)
Theorem C12_chunk_independent_refuted : ~ C12_chunk_independent_statement current.
Proof.
  intros H. destruct current_refuted_straddle as (p & r & chunks & _ & N). apply N, H.
Qed.

Theorem C12_failing_sentinel_refuted : ~ C12_failing_sentinel_statement current.
Proof.
  intros H. destruct current_refuted_tried as (p & r & s & chunks & _ & _ & _ & _ & T & M & _).
  rewrite H, M in T. discriminate.
Qed.
