(** C12 -- Auto-responses depend on the output text, not on how it was chunked.
    Statements only; proofs are in Proofs/C12_regex.v and Proofs/C12_watch.v.

    [current] (Model/WatchModel.v) is the code in /repo: [Responder.pattern_matches]
    moves its index to the end of the last match (fix 28f435d) and
    [FailingResponder.submit] materialises the response list before testing it
    (fix 380f659).  For it the property holds at full strength on the pattern
    family (non-empty fixed-length sequences of character classes).
    The last section keeps, for the record, the witnesses that the code BEFORE
    those fixes ([before_fix]) did not have the property. *)
From InvokeVerif Require Import Model.WatchModel Model.WatchBytesModel Spec.C12Spec Spec.C12BytesSpec
     Proofs.C12_regex Proofs.C12_watch Proofs.C12_bytes.

(** Flagship: any watchers, any schedule of reads over the two IO threads, however
    driven -- what the model writes to the child's stdin read by read, which threads
    die and what the call raises is accepted by the executable specification. *)
Theorem C12_run_meets_spec : forall ws sched how,
  spec_ok ws sched how (fst (run current ws sched)) (snd (run current ws sched))
          (outcome_exn how (snd (run current ws sched))) = true.
Proof. exact current_meets_spec. Qed.

(** ... with the watchers a call really gets: per-call list if given, else
    [run.watchers]; under sudo, a copy of that list plus sudo's own responder
    answering with the per-call password if given, else the configured one.  (Every
    call is judged on its own: the model of a call takes no state from earlier calls,
    which is what fix 941d213 restored for a reused watchers list.) *)
Theorem C12_call_meets_spec : forall cfg_ws kw_ws sudo sched how,
  let ws := call_watchers cfg_ws kw_ws sudo in
  spec_ok (spec_watchers cfg_ws kw_ws sudo) sched how
          (fst (run current ws sched)) (snd (run current ws sched))
          (outcome_exn how (snd (run current ws sched))) = true.
Proof. exact call_meets_spec. Qed.

(** For every text and every way of splitting it into reads, a Responder answers
    exactly the non-overlapping occurrences of its pattern in the whole text. *)
Theorem C12_chunk_independent : forall (p : pattern) (r : string) (chunks : list text),
  total (fst (feed_stream current [WResp p r] chunks)) = occ p (List.concat chunks).
Proof. exact current_chunk_independent. Qed.

Theorem C12_same_text : forall p r chunks1 chunks2,
  List.concat chunks1 = List.concat chunks2 ->
  total (fst (feed_stream current [WResp p r] chunks1)) =
  total (fst (feed_stream current [WResp p r] chunks2)).
Proof. exact current_same_text. Qed.

(** A FailingResponder raises iff some read completes an occurrence of the sentinel
    after a response was sent in an earlier read. *)
Theorem C12_failing_sentinel : forall p r s chunks,
  snd (feed_stream current [WFail p r s] chunks) = must_raise p s [] false chunks.
Proof. exact current_failing_sentinel. Qed.

(** No raise when no sentinel occurs in the stream's text (any watchers, any chunking). *)
Theorem C12_never_raises_without_sentinel : forall ws chunks,
  (forall p r s, In (WFail p r s) ws -> occ s (List.concat chunks) = 0) ->
  snd (feed_stream current ws chunks) = false.
Proof.
  intros ws chunks H. apply never_raises_without_sentinel; [reflexivity | exact H].
Qed.

(** Separate positions per stream: under every interleaving of the reads of the two
    threads, each thread writes and dies exactly as if it were fed its own reads alone. *)
Theorem C12_streams_independent : forall ws sched,
  proj false sched (fst (run current ws sched)) = fst (feed_stream current ws (chunks_of false sched)) /\
  fst (snd (run current ws sched)) = snd (feed_stream current ws (chunks_of false sched)) /\
  proj true sched (fst (run current ws sched)) = fst (feed_stream current ws (chunks_of true sched)) /\
  snd (snd (run current ws sched)) = snd (feed_stream current ws (chunks_of true sched)).
Proof. exact (streams_independent current). Qed.

(** Non-vacuity: a two-thread schedule with a Responder and a FailingResponder,
    occurrences split across reads and straddling read boundaries after a match,
    several answers, one legitimate raise, one stream with a sentinel but no earlier
    answer (no raise). *)
Example C12_example_schedule :
  let ws := [WResp (lit "ab") "y"; WFail (lit "a") "p" (lit "x")] in
  let sched := [(false, "aba"); (true, "x"); (false, "b"); (true, "xb"); (false, "x")] in
  run current ws sched = ([["y"; "p"; "p"]; []; ["y"]; []; []], (true, false)) /\
  occ (lit "ab") (chars "ababx") = 2.
Proof. vm_compute. split; reflexivity. Qed.

Example C12_example_straddle_answered :
  total (fst (feed_stream current [WResp (lit "ab") "y"] [chars "aba"; chars "b"])) = 2 /\
  snd (feed_stream current [WFail (lit "pw") "y" (lit "Sorry")] [chars "xx "; chars "Sorry"]) = false /\
  snd (feed_stream current [WFail (lit "pw") "y" (lit "No")] [chars "p"; chars "w"; chars "N"; chars "o"]) = true.
Proof. vm_compute. repeat split; reflexivity. Qed.

(** * Output delivered as UTF-8 bytes, reads cut anywhere -- also inside a character

    [run_bytes] (Model/WatchBytesModel.v): each IO thread pushes the bytes of its reads
    through ITS OWN incremental decoder and submits the characters completed so far.
    [spec_ok_bytes] (Spec/C12BytesSpec.v) judges the responses against the whole
    characters each read completes on its stream, read directly off the bytes.

    Partial: under the boolean guard [decoders_agree] -- on this schedule the decoder
    transducer of Model/Utf8Model.v delivers exactly those whole characters -- the run
    meets the specification.  Missing: the general statement that the guard holds for
    every schedule whose streams are well-formed UTF-8 (a fact about the decoder alone,
    in C02's territory; here it is evaluated case by case), and code points >= 256. *)
Theorem C12_bytes_meets_spec_partial : forall ws sched how,
  decoders_agree sched = true ->
  spec_ok_bytes ws sched how (fst (run_bytes current ws sched)) (snd (run_bytes current ws sched))
                (outcome_exn how (snd (run_bytes current ws sched))) = true.
Proof. exact bytes_meets_spec_partial. Qed.

(** One decoder per stream: the text pieces a stream's watchers get are those of a decoder
    run over that stream's reads alone, under every interleaving ... *)
Theorem C12_bytes_own_decoder : forall sid sched,
  of_stream sid (decoded sched) = fst (decode_stream Utf8Model.DInit (of_stream sid sched)).
Proof. intros sid sched. unfold decoded. rewrite own_decoder. destruct sid; reflexivity. Qed.

(** ... so what one stream is decoded to does not depend on what the other stream delivers,
    or when (with [C12_streams_independent]: neither do its responses). *)
Theorem C12_bytes_streams_independent : forall sid s1 s2,
  of_stream sid s1 = of_stream sid s2 ->
  of_stream sid (decoded s1) = of_stream sid (decoded s2).
Proof. exact stream_pieces_independent. Qed.

(** Non-vacuity: stderr is cut inside U+00ED (C3 | AD), stdout delivers U+00E9 in between;
    Responder("\u00ed.") answers the stderr text "\u00ed\u00ed" once, in the read that completes it. *)
Example C12_example_bytes :
  let ws := [WResp [CLit (ascii_of_nat 237); CAny] "y"] in
  let sched := [(true, codes [195]); (false, codes [195; 169]);
                (true, codes [173; 195; 173])] in
  decoders_agree sched = true /\ in_region sched = true /\
  run_bytes current ws sched = ([[]; []; ["y"]], (false, false)) /\
  text_sched [] [] sched = [(true, ""); (false, codes [233]); (true, codes [237; 237])].
Proof. vm_compute. repeat split; reflexivity. Qed.

(** * Historical record -- NOT about the code in /repo

    Before fixes 28f435d / 380f659 the model [before_fix] (index := end of the read
    on any match; [tried] latched on the first submit) violated both statements.
    Kept so that the witnesses stay machine-checked; the same witnesses are in
    corpus/C12 and now have to PASS on the implementation. *)
Theorem C12_before_fix_chunk_independent_historical_refuted :
  exists p r chunks, nonempty p = true /\
    total (fst (feed_stream before_fix [WResp p r] chunks)) <> occ p (List.concat chunks).
Proof. exact before_fix_refuted_straddle. Qed.

Theorem C12_before_fix_failing_sentinel_historical_refuted :
  exists p r s chunks, nonempty p = true /\ nonempty s = true /\
    occ p (List.concat chunks) = 0 /\
    total (fst (feed_stream before_fix [WFail p r s] chunks)) = 0 /\
    snd (feed_stream before_fix [WFail p r s] chunks) = true /\
    must_raise p s [] false chunks = false /\
    snd (feed_stream before_fix [WFail p r s] [List.concat chunks]) = false.
Proof. exact before_fix_refuted_tried. Qed.

(** * The caller's input stream at end-of-file (F-C12d, a defect of the code as it is)

    [run_eof] models a run whose [in_stream] is at EOF ([StringIO("")], [< /dev/null]):
    the stdin worker closes the child's stdin at once, so the first response to be
    written kills its IO thread with ValueError, nothing reaches the child and the run
    ends in ThreadException.  The clause "each response reaches the command's standard
    input" is therefore false for such runs (pipes; under a pty stdin is not closed). *)
Theorem C12_eof_stdin_refuted :
  exists ws sched,
    run current ws sched = ([["x"]], (false, false)) /\
    run_eof current ws sched = ([[]], (false, false), true) /\
    spec_ok ws sched ViaRun (fst (fst (run_eof current ws sched))) (snd (fst (run_eof current ws sched)))
            (outcome_exn_eof ViaRun (snd (fst (run_eof current ws sched))) (snd (run_eof current ws sched)))
    = false.
Proof. exact eof_refuted. Qed.

(** Guarded: when no watcher has anything to answer, EOF on the input stream changes
    nothing (so [C12_run_meets_spec] applies).  Missing: every run with a response. *)
Theorem C12_eof_stdin_partial : forall ws sched,
  nonempty_writes (fst (run current ws sched)) = false ->
  run_eof current ws sched = (fst (run current ws sched), snd (run current ws sched), false).
Proof. exact (eof_harmless_without_responses current). Qed.
