(** C10: CLI task names, collection lookup and listings agree.

    Everything here judges *observations* of the implementation against each
    other and against the tree of bindings that was actually built:
    - names: a token is accepted on the command line iff it is a normalised,
      non-empty name that [name in collection] resolves; an accepted token runs
      the very task [collection[name]] returns;
    - listings: each binding of a task is shown exactly once, under the name it
      is bound by, with exactly the alias names bound to it. *)
From InvokeVerif Require Export Common.Namespace Spec.C17Spec.

(** ** normalised names, stated without [Collection.transform] *)
(** A name is normalised for auto-dash [ad] when no dot-separated segment has
    the rewritten character ('_' when dashing, '-' otherwise) strictly inside. *)
Definition interior (s : string) : string := drop 1 (take (String.length s - 1) s).

Definition normalized (ad : bool) (n : string) : bool :=
  forallb (fun seg => negb (contains_char (if ad then "_" else "-")%char (interior seg)))
          (split_char "." n).

(** ** observations about one candidate token *)
Record nobs := mkN {
  o_contains : result bool;             (* name in coll *)
  o_getitem : result nat;               (* id of coll[name] *)
  o_parser : result (option string);    (* Parser(coll.to_contexts()).contexts: primary name if accepted *)
  o_ran : result (option nat);          (* id of the body run by Program.run([prog, name]);
                                           for the empty name: by Program.run([prog]) *)
  o_help : result (option nat)          (* id of the task whose help Program.run([prog, "--help", name]) prints *)
}.

Definition resolves (o : nobs) : bool :=
  match o_contains o with Ok true => true | _ => false end.

Definition accepted (o : nobs) : bool :=
  match o_parser o with Ok (Some _) => true | _ => false end.

(** a canonical dotted name: non-empty segments, each normalised *)
Definition canonical (ad : bool) (n : string) : bool :=
  forallb (fun seg => negb (String.eqb seg "")) (split_char "." n) && normalized ad n.

Definition name_ok (ad : bool) (n : string) (o : nobs) : bool :=
  let canon := canonical ad n in
  Bool.eqb (accepted o) (canon && resolves o) &&
  (if accepted o then
     match o_ran o, o_getitem o with
     | Ok (Some i), Ok j => Nat.eqb i j
     | _, _ => false
     end
   else match o_ran o with Ok None => true | _ => false end).

(** per-task help is offered for exactly the accepted names and documents the
    task lookup returns *)
Definition help_ok (o : nobs) : bool :=
  match o_help o with
  | Ok (Some i) => accepted o && match o_getitem o with Ok j => Nat.eqb i j | Err _ => false end
  | Ok None => negb (accepted o)
  | Err _ => false
  end.

(** no task on the command line: the default task, i.e. the task lookup of
    the empty name returns, runs -- and nothing when there is none *)
Definition default_ok (o : nobs) : bool :=
  negb (accepted o) &&
  match o_getitem o, o_ran o with
  | Ok j, Ok (Some i) => Nat.eqb i j
  | Err _, Ok None => true
  | Err e, Err e' => err_eqb e e'
  | _, _ => false
  end.

Definition token_ok (ad : bool) (n : string) (o : nobs) : bool :=
  if String.eqb n "" then default_ok o else name_ok ad n o && help_ok o.

(** ** listings *)
Definition r_depth (r : row) : nat := fst (fst (fst r)).
Definition r_name (r : row) : string := snd (fst (fst r)).
Definition r_aliases (r : row) : list string := snd (fst r).
Definition r_task (r : row) : option nat := snd r.

(** what a listing says about one task: where, under which name, which task,
    which aliases *)
Definition entry := (list string * string * nat * list string)%type.

(** the bindings of the tree, as entries: collection path (binding keys),
    binding key, task, alias names bound to that key *)
Fixpoint bindings (c : coll) (path : list string) {struct c} : list (entry * bool) :=
  match c with
  | Coll _ tasks aliases subs dflt _ _ =>
      map (fun kt =>
             ((path, fst kt, t_id (snd kt),
               map fst (filter (fun a => String.eqb (snd a) (fst kt)) aliases)),
              opt_str_eqb dflt (Some (fst kt))))
          tasks ++
      (fix go (l : list (string * coll)) : list (entry * bool) :=
         match l with
         | [] => []
         | (k, sc) :: l' => bindings sc (path ++ [k]) ++ go l'
         end) subs
  end.

Definition subset (l1 l2 : list string) : bool := forallb (fun x => mem x l2) l1.
Definition set_eq (l1 l2 : list string) : bool := subset l1 l2 && subset l2 l1.

Definition entry_key_eqb (a b : entry) : bool :=
  list_eqb String.eqb (fst (fst (fst a))) (fst (fst (fst b))) &&
  String.eqb (snd (fst (fst a))) (snd (fst (fst b))).

Definition entry_same (a b : entry) : bool :=
  entry_key_eqb a b && Nat.eqb (snd (fst a)) (snd (fst b)) && set_eq (snd a) (snd b).

(** every expected entry is shown exactly once, and nothing else is shown *)
Definition same_entries (expected shown : list entry) : bool :=
  Nat.eqb (List.length expected) (List.length shown) &&
  forallb (fun e =>
             match filter (entry_key_eqb e) shown with
             | [s] => entry_same e s
             | _ => false
             end) expected.

(** (adjusted variants only) the same entries as multisets: when own names are
    displayed two bindings may look alike *)
Fixpoint remove_first (f : entry -> bool) (l : list entry) : option (list entry) :=
  match l with
  | [] => None
  | x :: l' => if f x then Some l'
               else match remove_first f l' with Some r => Some (x :: r) | None => None end
  end.

Fixpoint same_multi (expected shown : list entry) : bool :=
  match expected with
  | [] => match shown with [] => true | _ => false end
  | e :: rest => match remove_first (entry_same e) shown with
                 | Some shown' => same_multi rest shown'
                 | None => false
                 end
  end.

Definition dotted (path : list string) (s : string) : string := join "." (path ++ [s]).

(** flat format: full dotted names; a collection's default task also answers
    to the collection's dotted name *)
Definition flat_of (bs : list (entry * bool)) : list entry :=
  map (fun eb : entry * bool =>
         let '((path, key, tid, als), dflt) := eb in
         (([] : list string), dotted path key, tid,
          map (dotted path) als ++
          (if (dflt : bool) then match path with [] => [] | _ => [join "." path] end else [])))
      bs.

Definition flat_expected (c : coll) : list entry := flat_of (bindings c []).

Definition flat_shown (rows : list row) : option (list entry) :=
  if forallb (fun r => match r_task r with Some _ => true | None => false end) rows then
    Some (map (fun r => (([] : list string), r_name r,
                         match r_task r with Some i => i | None => 0 end, r_aliases r)) rows)
  else None.

(** nested / json: rows carry a depth; collection rows open a scope *)
Definition strip_dot (s : string) : string :=
  match s with String "." s' => s' | _ => s end.
Definition strip_star (s : string) : string :=
  match string_rev s with String "*" r => string_rev r | _ => s end.

(** nested: a collection row at depth d names a child of the scope of depth d *)
Fixpoint nested_shown (rows : list row) (cur : list string) : list entry :=
  match rows with
  | [] => []
  | r :: rest =>
      match r_task r with
      | None => nested_shown rest (firstn (r_depth r) cur ++ [strip_dot (r_name r)])
      | Some i =>
          (firstn (r_depth r) cur, strip_star (strip_dot (r_name r)), i,
           map strip_dot (r_aliases r)) :: nested_shown rest cur
      end
  end.

(** json: a header row at depth d >= 1 names a child of the scope of depth d-1;
    the header at depth 0 is the root; task rows at depth d+1 belong to the
    scope of depth d *)
Fixpoint json_shown (rows : list row) (cur : list string) : list entry :=
  match rows with
  | [] => []
  | r :: rest =>
      match r_task r with
      | None =>
          json_shown rest (match r_depth r with
                           | O => []
                           | S d => firstn d cur ++ [r_name r]
                           end)
      | Some i =>
          (firstn (r_depth r - 1) cur, r_name r, i, r_aliases r) :: json_shown rest cur
      end
  end.

Definition rel_expected (c : coll) : list entry := map fst (bindings c []).

(** every name a listing displays is spelled the way the command line accepts
    it: normalised for the root's auto-dash setting *)
Definition entry_normalized (ad : bool) (e : entry) : bool :=
  let '(path, key, _, als) := e in
  forallb (normalized ad) (path ++ key :: als).

(** view: 1 flat, 2 nested, 3 json.  [listing_gen] is parameterised by the
    expected entries and by whether spellings are judged, for the adjusted
    variants used in attribution; [listing_ok] is the specification. *)
Definition listing_gen (strict : bool) (flat_exp rel_exp : list entry) (check_norm : bool) (ad : bool)
           (view : nat) (obs : result (list row)) : bool :=
  match rel_exp with
  | [] => true                              (* nothing to list: "No tasks found" *)
  | _ =>
      match obs with
      | Err _ => false
      | Ok rows0 =>
          (* the "Default task:" trailer (pseudo-row of depth 1000) is not an entry *)
          let rows := filter (fun r => negb (Nat.eqb (r_depth r) 1000)) rows0 in
          let shown :=
            match view with
            | 1 => flat_shown rows
            | 2 => Some (nested_shown rows [])
            | _ => Some (json_shown rows [])
            end in
          match shown with
          | None => false
          | Some sh =>
              (if strict then same_entries (match view with 1 => flat_exp | _ => rel_exp end) sh
               else same_multi (match view with 1 => flat_exp | _ => rel_exp end) sh) &&
              (negb check_norm || forallb (entry_normalized ad) sh)
          end
      end
  end.

Definition listing_ok (c : coll) (view : nat) (obs : result (list row)) : bool :=
  listing_gen true (flat_expected c) (rel_expected c) true (c_auto_dash c) view obs.

(** ** scoped and depth-limited listings: [--list <root>], [--list-depth N]

    [--list <root>] shows the part of the tree below the sub-collection the
    dotted path [root] names (path segments are binding keys, exactly as typed),
    every name relative to it and written with a leading dot -- the same
    bindings, each exactly once.  [--list-depth N] shows the bindings whose
    relative path is shorter than N, and instead of descending further one row
    per sub-collection at depth N with the number of tasks and of collections
    bound in it (zero counts left out).  The nested format shows a row for every
    collection it descends into as well; names below the top level (all names,
    in a scoped listing) carry the leading dot.  JSON has no depth-limited form. *)
Definition has_dot (s : string) : bool := match s with String "." _ => true | _ => false end.

Definition tally_of (sc : coll) : list string :=
  (match List.length (c_tasks sc) with O => [] | n => [(nat_str n ++ " tasks")%string] end) ++
  (match List.length (c_subs sc) with O => [] | n => [(nat_str n ++ " collections")%string] end).

Definition crow := (list string * list string)%type.    (* path, tallies *)

(** every sub-collection below [c], with its path of binding keys *)
Fixpoint sub_colls (c : coll) (path : list string) {struct c} : list crow :=
  match c with
  | Coll _ _ _ subs _ _ _ =>
      (fix go (l : list (string * coll)) : list crow :=
         match l with
         | [] => []
         | (k, sc) :: l' => (path ++ [k], tally_of sc) :: sub_colls sc (path ++ [k]) ++ go l'
         end) subs
  end.

Definition crow_same (a b : crow) : bool :=
  list_eqb String.eqb (fst a) (fst b) && set_eq (snd a) (snd b) &&
  Nat.eqb (List.length (snd a)) (List.length (snd b)).

Definition same_colls (expected shown : list crow) : bool :=
  Nat.eqb (List.length expected) (List.length shown) &&
  forallb (fun e => existsb (crow_same e) shown) expected &&
  forallb (fun e => existsb (crow_same e) expected) shown.

(** the collection rows of a nested listing, read with the same scoping rule
    as [nested_shown] *)
Fixpoint nested_colls (rows : list row) (cur : list string) : list crow :=
  match rows with
  | [] => []
  | r :: rest =>
      match r_task r with
      | None =>
          let p := firstn (r_depth r) cur ++ [strip_dot (r_name r)] in
          (p, r_aliases r) :: nested_colls rest p
      | Some _ => nested_colls rest cur
      end
  end.

Definition entry_path (eb : entry * bool) : list string :=
  let '((path, _, _, _), _) := eb in path.

Definition depth_keep (dl : nat) (eb : entry * bool) : bool :=
  match dl with O => true | _ => Nat.ltb (List.length (entry_path eb)) dl end.

Definition is_task_row (r : row) : bool := match r_task r with Some _ => true | None => false end.

(** [bs], [cs]: the bindings and sub-collections of the collection in focus,
    relative to it.  [strict], [check_norm] as in [listing_gen]; [fe]
    (attribution only): the leading dot of a truncated collection row of the
    flat format is not judged. *)
Definition listing_at (strict fe : bool) (bs : list (entry * bool)) (cs : list crow)
           (check_norm ad : bool) (view : nat) (rooted : bool) (dl : nat)
           (obs : result (list row)) : bool :=
  match bs with
  | [] => true                              (* nothing to list: "No tasks found" *)
  | _ =>
      match view, dl with
      | S (S (S _)), S _ => true            (* json has no depth-limited form *)
      | S (S (S _)), O => listing_gen strict (flat_of bs) (map fst bs) check_norm ad view obs
      | _, _ =>
          match obs with
          | Err _ => false
          | Ok rows0 =>
              let rows := filter (fun r => negb (Nat.eqb (r_depth r) 1000)) rows0 in
              let bs' := filter (depth_keep dl) bs in
              let trows := filter is_task_row rows in
              let crows := filter (fun r => negb (is_task_row r)) rows in
              let same := if strict then same_entries else same_multi in
              let tid (r : row) := match r_task r with Some i => i | None => 0 end in
              match view with
              | 1 =>
                  let dots_ok :=
                    negb rooted ||
                    (forallb (fun r => has_dot (r_name r) && forallb has_dot (r_aliases r)) trows &&
                     (fe || forallb (fun r => has_dot (r_name r)) crows)) in
                  let un (s : string) := if rooted then strip_dot s else s in
                  let sh := map (fun r => (([] : list string), un (r_name r), tid r, map un (r_aliases r))) trows in
                  let csh := map (fun r => ([un (r_name r)], r_aliases r)) crows in
                  let cexp :=
                    match dl with
                    | O => []
                    | _ => map (fun pc : crow => ([join "." (fst pc)], snd pc))
                               (filter (fun pc : crow => Nat.eqb (List.length (fst pc)) dl) cs)
                    end in
                  dots_ok && same (flat_of bs') sh && same_colls cexp csh &&
                  (negb check_norm ||
                   (forallb (entry_normalized ad) sh &&
                    forallb (fun pc : crow => forallb (normalized ad) (fst pc)) csh))
              | _ =>
                  let want (r : row) := rooted || Nat.ltb 0 (r_depth r) in
                  let dots_ok :=
                    forallb (fun r => Bool.eqb (has_dot (r_name r)) (want r) &&
                                      (negb (is_task_row r) ||
                                       forallb (fun a => Bool.eqb (has_dot a) (want r)) (r_aliases r)))
                            rows in
                  let sh := nested_shown rows [] in
                  let csh := nested_colls rows [] in
                  let cexp :=
                    map (fun pc : crow =>
                           (fst pc, match dl with
                                    | O => []
                                    | _ => if Nat.eqb (List.length (fst pc)) dl then snd pc else []
                                    end))
                        (filter (fun pc : crow => match dl with
                                                  | O => true
                                                  | _ => Nat.leb (List.length (fst pc)) dl
                                                  end) cs) in
                  dots_ok && same (map fst bs') sh && same_colls cexp csh &&
                  (negb check_norm ||
                   (forallb (entry_normalized ad) sh &&
                    forallb (fun pc : crow => forallb (normalized ad) (fst pc)) csh))
              end
          end
      end
  end.

(** the sub-collection a dotted root names: binding keys, exactly as typed *)
Fixpoint focus_of (c : coll) (parts : list string) : option coll :=
  match parts with
  | [] => Some c
  | p :: rest => match assoc p (c_subs c) with
                 | Some sc => focus_of sc rest
                 | None => None
                 end
  end.

(** ** the judgement of one case.  Trees in which bindings of one collection
    collide are outside the statement ([ns_wf], as for C17). *)
Fixpoint all2 {A B} (f : A -> B -> bool) (l1 : list A) (l2 : list B) : bool :=
  match l1, l2 with
  | [], [] => true
  | a :: l1', b :: l2' => f a b && all2 f l1' l2'
  | _, _ => false
  end.

(** A script is clean when, inside every collection, all declared names --
    the name each task is bound by, its own aliases, the aliases given at
    binding time, the names of the sub-collections -- are pairwise distinct
    even when '_' and '-' are identified. *)
Definition loose (s : string) : string := replace_char "_" "-" s.

Definition ostr' (o : option string) : string := match o with Some s => s | None => "" end.

Definition declared (it : item) : list string :=
  match it with
  | ITask t n al _ => (match n with Some x => x | None => t_name t end) :: t_aliases t ++ al
  | ISub cn _ _ _ bn _ =>
      [match bn with
       | Some x => if String.eqb x "" then ostr' cn else x
       | None => ostr' cn
       end]
  | IMod mn _ nsitem bn _ =>
      let own := match nsitem with
                 | ISub (Some cn) _ _ _ _ _ => if String.eqb cn "" then mn else cn
                 | _ => mn
                 end in
      [match bn with
       | Some x => if String.eqb x "" then own else x
       | None => own
       end]
  end.

(** (a module whose explicit namespace is empty is ignored by from_module in
    favour of the module's top-level tasks: outside the statement) *)
Fixpoint script_clean (it : item) : bool :=
  match it with
  | ITask _ _ _ _ => true
  | IMod _ _ nsitem _ _ =>
      match nsitem with
      | ISub _ _ _ (_ :: _) _ _ => script_clean nsitem
      | _ => false
      end
  | ISub _ _ _ items _ _ =>
      nodupb (map loose (flat_map declared items)) &&
      (fix go (l : list item) : bool :=
         match l with [] => true | i :: l' => script_clean i && go l' end) items
  end.

(** Normalisation is applied consistently to defaults and aliases: in every
    collection of the built tree the default (if any) is one of the names
    bound there, and every alias points at a bound task name. *)
Fixpoint defaults_consistent (c : coll) : bool :=
  match c with
  | Coll _ tasks aliases subs dflt _ _ =>
      match dflt with
      | Some d => mem d (akeys tasks) || mem d (akeys aliases) || mem d (akeys subs)
      | None => true
      end &&
      forallb (fun a => mem (snd a) (akeys tasks)) aliases &&
      (fix go (l : list (string * coll)) : bool :=
         match l with [] => true | (_, sc) :: l' => defaults_consistent sc && go l' end) subs
  end.

Definition spec_ok (script : item) (c : coll) (view : nat) (names : list string) (nos : list nobs)
           (rows : result (list row)) : bool :=
  if script_clean script then
    defaults_consistent c &&
    match view with
    | O => all2 (token_ok (c_auto_dash c)) names nos
    | _ => listing_ok c view rows
    end
  else true.

(** views with [--list <root>] and / or [--list-depth N] (N > 0) *)
Definition spec_at (script : item) (c : coll) (view : nat) (root : option string) (dl : nat)
           (rows : result (list row)) : bool :=
  if script_clean script then
    defaults_consistent c &&
    match root with
    | None => listing_at true false (bindings c []) (sub_colls c []) true (c_auto_dash c) view false dl rows
    | Some r =>
        match focus_of c (split_char "." r) with
        | None => match rows with Err _ => true | Ok _ => false end     (* no such sub-collection: refused *)
        | Some f => listing_at true false (bindings f []) (sub_colls f []) true (c_auto_dash c) view true dl rows
        end
    end
  else true.
