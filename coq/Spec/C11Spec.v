(** C11: clones are faithful and independent; supplied data is never mutated.

    Judged on observations: the ten levels and the deep views of original and
    clone at the moment of cloning, then both deep views after every later
    operation on either object, together with a flag saying that every
    caller-held source (defaults, overrides, collection data, a subclass' global
    defaults) still deep-equals its snapshot and that original and clone share
    no dict object.

    - faithful: every level of the clone equals the original's (cloning into a
      subclass: the defaults level is the union of the subclass' global defaults
      and the original's, the original winning -- "without overwriting anything
      that may have been pre-defined"); the clone reads exactly like the original
      (into a subclass: at every path the original defines; anything else it
      shows comes from the subclass' defaults);
    - independent: an operation on one object leaves the other's view unchanged;
    - supplied data intact after every step. *)
From InvokeVerif Require Export Common.Tree Common.StrUtil Model.ConfigTypes Spec.C03Spec
     Spec.C06Spec.

(** Levels in the order defaults, collection, system, user, project, env,
    runtime, overrides, modifications, deletions. *)
Definition levels_equal (into : option tree) (lo lc : list tree) : bool :=
  match lo, lc with
  | d :: ro, d' :: rc =>
      tree_equiv (norm d') (match into with
                            | None => norm d
                            | Some g => overlay (norm g) (norm d)
                            end) &&
      Nat.eqb (List.length ro) (List.length rc) &&
      forallb (fun ab => tree_equiv (norm (fst ab)) (norm (snd ab))) (combine ro rc)
  | _, _ => false
  end.

Definition reads_like (into : option tree) (vo vc : tree) : bool :=
  match into with
  | None => tree_equiv vo vc
  | Some g =>
      forallb (fun p => shape_eqb (shape_at p vc) (shape_at p vo)) (all_paths vo) &&
      forallb (fun p => match shape_at p vo, shape_at p (norm g) with
                        | None, None => false
                        | _, _ => true
                        end) (all_paths vc)
  end.

(** One later step: which object was operated on ([true] = the clone), both
    views afterwards, sources intact. *)
Definition post_step := (bool * tree * tree * bool)%type.

Fixpoint independent (vo vc : tree) (post : list post_step) : bool :=
  match post with
  | [] => true
  | (on_clone, vo', vc', intact) :: rest =>
      intact &&
      (if on_clone then tree_equiv vo vo' else tree_equiv vc vc') &&
      independent vo' vc' rest
  end.

Definition spec_ok (into : option tree) (lo lc : list tree) (vo vc : tree) (intact : bool)
           (post : list post_step) : bool :=
  intact && levels_equal into lo lc && reads_like into vo vc && independent vo vc post.
