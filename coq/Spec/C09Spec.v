(** C09, stated on the observable CLI of a task, independently of how
    arg_opts / get_arguments / add_arg compute it. *)
From InvokeVerif Require Export Common.SigTypes.

(** ** The documented naming scheme *)

(** Underscores shown as dashes; leading/trailing underscores dropped. *)
Definition dashed (n : string) : string :=
  replace_char "_"%char "-"%char (strip_char "_"%char n).

(** The long flag of a parameter: [--name], or [-x] for a one-character name. *)
Definition long_flag (n : string) : string :=
  let d := dashed n in
  if Nat.eqb (String.length d) 1 then ("-" ++ d)%string else ("--" ++ d)%string.

(** The name has something left once the underscores are gone. *)
Definition has_core (n : string) : bool := negb (String.eqb (dashed n) "").

Definition is_alnum (c : ascii) : bool :=
  let n := nat_of_ascii c in
  (Nat.leb 48 n && Nat.leb n 57) || (Nat.leb 65 n && Nat.leb n 90) || (Nat.leb 97 n && Nat.leb n 122).

Definition is_short_flag (f : string) : bool :=
  match f with
  | String "-" (String c EmptyString) => is_alnum c
  | _ => false
  end.

Definition inverse_flag (n : string) : string := ("--no-" ++ dashed n)%string.

(** Two parameters whose dashed forms coincide cannot both be given a flag:
    refusing the task (ValueError) is the only acceptable answer then. *)
Fixpoint has_dup (l : list string) : bool :=
  match l with
  | [] => false
  | x :: l' => mem x l' || has_dup l'
  end.

Definition dashed_clash (s : tsig) : bool := has_dup (map (fun p => dashed (p_name p)) (s_params s)).

(** ** Reading the observation *)

(** python-friendly name of the Argument whose main name is [m] *)
Definition pyname_of_main (o : cli) (m : string) : option string :=
  match find (fun a => match a_names a with n :: _ => String.eqb n m | [] => false end) (o_args o) with
  | Some a => Some (arg_name a)
  | None => None
  end.

(** parameter reached by a flag spelling (real key or alias) *)
Definition reached (o : cli) (f : string) : option string :=
  match aget f (o_flags o) with
  | Some m => pyname_of_main o m
  | None => match aget f (o_flag_aliases o) with
            | Some f' => match aget f' (o_flags o) with
                         | Some m => pyname_of_main o m
                         | None => None
                         end
            | None => None
            end
  end.

Definition all_spellings (o : cli) : list string :=
  map fst (o_flags o) ++ map fst (o_flag_aliases o).

Definition flags_of (o : cli) (n : string) : list string :=
  filter (fun f => match reached o f with Some n' => String.eqb n n' | None => false end)
         (all_spellings o).

Definition arg_of (o : cli) (n : string) : option argspec :=
  find (fun a => String.eqb (arg_name a) n) (o_args o).

(** ** The clauses *)

Definition same_set (l1 l2 : list string) : bool :=
  Nat.eqb (List.length l1) (List.length l2) &&
  forallb (fun x => mem x l2) l1 && forallb (fun x => mem x l1) l2.

(** exactly one argument per parameter *)
Definition one_arg_per_param (s : tsig) (o : cli) : bool :=
  same_set (map arg_name (o_args o)) (map p_name (s_params s)) &&
  negb (has_dup (map arg_name (o_args o))).

(** reachable through a well-formed long flag, plus at most one short flag,
    and nothing else *)
Definition flags_wellformed (s : tsig) (o : cli) : bool :=
  forallb (fun p =>
    let n := p_name p in
    let fs := flags_of o n in
    has_core n && mem (long_flag n) fs &&
    match filter (fun f => negb (String.eqb f (long_flag n))) fs with
    | [] => true
    | [f] => is_short_flag f
    | _ => false
    end) (s_params s) &&
  (* every spelling leads to some parameter's argument *)
  forallb (fun f => match reached o f with
                    | Some n => mem n (map p_name (s_params s))
                    | None => false
                    end) (all_spellings o).

(** all flag names of the task distinct (inverse forms included) *)
Definition flags_distinct (o : cli) : bool :=
  negb (has_dup (all_spellings o ++ map fst (o_inverse o))).

(** positionals: implicit = parameters without default, declaration order;
    explicit = as listed (judged only for a duplicate-free list of parameter names) *)
Definition positional_ok (s : tsig) (o : cli) : bool :=
  let got := flat_map (fun m => match pyname_of_main o m with Some n => [n] | None => [""] end)
                      (o_positional o) in
  match d_positional (s_deco s) with
  | None =>
      list_eqb String.eqb got
        (flat_map (fun p => match p_default p with DEmpty => [p_name p] | _ => [] end) (s_params s))
  | Some l =>
      if negb (has_dup l) && forallb (fun n => mem n (map p_name (s_params s))) l
      then list_eqb String.eqb got l
      else forallb (fun n => mem n l) got
  end &&
  (* the positional arguments come first, in that order *)
  list_eqb String.eqb got
    (firstn (List.length got) (map arg_name (o_args o))).

(** kind and inverse form fixed by the default, unless the task says otherwise
    (optional= on a boolean; iterable= on a parameter without usable default) *)
Definition expected_kind (s : tsig) (p : param) : option akind :=
  let dc := s_deco s in
  match p_default p with
  | DEmpty | DNone => if mem (p_name p) (d_iterable dc) then Some KList else None
  | DStr _ => Some KStr
  | DInt _ => Some KInt
  | DList _ => Some KList
  | DOther _ _ => None      (* judged by name, see [expected_kind_name] *)
  | DBool _ => if mem (p_name p) (d_optional dc) then None else Some KBool
  end.

(** the value type by its Python name, for every kind of default *)
Definition expected_kind_name (s : tsig) (p : param) : option string :=
  let dc := s_deco s in
  match p_default p with
  | DEmpty | DNone => if mem (p_name p) (d_iterable dc) then Some "list" else None
  | DStr _ => Some "str"
  | DInt _ => Some "int"
  | DList _ => Some "list"
  | DOther ty _ => if mem (p_name p) (d_optional dc) && String.eqb ty "bool" then None else Some ty
  | DBool _ => if mem (p_name p) (d_optional dc) then None else Some "bool"
  end.

(** observed per-argument facts, looked up by python name *)
Definition takes_of (o : cli) (n : string) : option bool :=
  match find (fun x => String.eqb (arg_name (fst x)) n) (combine (o_args o) (o_takes o)) with
  | Some x => Some (snd x)
  | None => None
  end.

Definition kind_name_of (o : cli) (n : string) : option string :=
  match find (fun ak => String.eqb (arg_name (fst ak)) n) (combine (o_args o) (o_kind_names o)) with
  | Some ak => Some (snd ak)
  | None => None
  end.

Definition wants_inverse (s : tsig) (p : param) : bool :=
  match p_default p with
  | DBool true => negb (mem (p_name p) (d_optional (s_deco s)))
  | _ => false
  end.

Definition kinds_ok (s : tsig) (o : cli) : bool :=
  forallb (fun p =>
    match arg_of o (p_name p) with
    | None => false
    | Some a =>
        match expected_kind s p with
        | Some k => akind_eqb (a_kind a) k
        | None => true
        end &&
        (* the value type, by name, also for types outside str/int/bool/list *)
        match expected_kind_name s p, kind_name_of o (p_name p) with
        | Some k, Some k' => String.eqb k k'
        | None, Some _ => true
        | _, None => false
        end &&
        (* booleans take no value (as the Argument itself reports) *)
        match expected_kind s p, takes_of o (p_name p) with
        | Some KBool, Some tv => negb tv
        | _, Some _ => true
        | _, None => false
        end &&
        (* default-true booleans gain the --no- form, leading back to them *)
        (if wants_inverse s p
         then match aget (inverse_flag (p_name p)) (o_inverse o) with
              | Some f => match reached o f with
                          | Some n => String.eqb n (p_name p)
                          | None => false
                          end
              | None => false
              end
         else true)
    end) (s_params s) &&
  (* no other inverse forms *)
  forallb (fun kv =>
    existsb (fun p => wants_inverse s p && String.eqb (fst kv) (inverse_flag (p_name p)))
            (s_params s)) (o_inverse o).

(** kwargs: exactly the parameter names; unmentioned ones carry the function's
    default (an empty list being acceptable for list-type parameters) *)
Definition listish (s : tsig) (p : param) : bool :=
  mem (p_name p) (d_iterable (s_deco s)) ||
  match p_default p with DList _ => true | _ => false end.

Definition kwargs_ok (s : tsig) (o : cli) : bool :=
  same_set (map fst (o_kwargs o)) (map p_name (s_params s)) &&
  negb (has_dup (map fst (o_kwargs o))) &&
  forallb (fun p =>
    match aget (p_name p) (o_kwargs o) with
    | None => false
    | Some v =>
        match p_default p with
        | DEmpty => true
        | d => aval_eqb v (to_aval d) || (listish s p && aval_eqb v (AList []))
        end
    end) (s_params s) &&
  o_binds o.

(** ** The judgement *)
Definition spec_ok (s : tsig) (obs : result cli) : bool :=
  match obs with
  | Err e => dashed_clash s && err_eqb e EValue
  | Ok o =>
      negb (dashed_clash s) &&
      one_arg_per_param s o && flags_wellformed s o && flags_distinct o &&
      positional_ok s o && kinds_ok s o && kwargs_ok s o
  end.

(** ** Guards used by the partial theorems (boolean, so that the harness can
    tell whether a case lies in the proved region) *)
Fixpoint all_chars (f : ascii -> bool) (s : string) : bool :=
  match s with
  | EmptyString => true
  | String c s' => f c && all_chars f s'
  end.

Definition ident_char (c : ascii) : bool := is_alnum c || Ascii.eqb c "_"%char.

(** an (ASCII) Python identifier; the leading-digit rule is irrelevant here *)
Definition ident_ok (n : string) : bool := negb (String.eqb n "") && all_chars ident_char n.

(** distinct valid identifiers whose dashed forms are pairwise distinct *)
Definition wf_sig (s : tsig) : bool :=
  negb (has_dup (map p_name (s_params s))) &&
  forallb (fun p => ident_ok (p_name p)) (s_params s) &&
  negb (dashed_clash s).

(** outside F-C09b: every name keeps something once underscores are gone *)
Definition all_have_core (s : tsig) : bool := forallb (fun p => has_core (p_name p)) (s_params s).

(** historical (F-C09c, fixed by d208a4d; no longer part of any guard): no underscored name whose dashed form is a single
    character (the only names an earlier auto short flag can take away) *)
Definition no_steal (s : tsig) : bool :=
  negb (d_auto_short (s_deco s)) ||
  forallb (fun p => negb (contains_char "_"%char (p_name p) &&
                          Nat.eqb (String.length (dashed (p_name p))) 1)) (s_params s).

(** outside F-C09d: no parameter is called no_<default-true boolean> *)
Definition no_inverse_clash (s : tsig) : bool :=
  forallb (fun p => negb (wants_inverse s p &&
                          mem ("no-" ++ dashed (p_name p))%string
                              (map (fun q => dashed (p_name q)) (s_params s)))) (s_params s).

(** the proved region of the flagship theorem *)
Definition guard (s : tsig) : bool :=
  wf_sig s && all_have_core s && no_inverse_clash s.

(** explicit positional lists are judged in full only when they are
    duplicate-free lists of parameter names *)
Definition positional_sane (s : tsig) : bool :=
  match d_positional (s_deco s) with
  | None => true
  | Some l => negb (has_dup l) && forallb (fun n => mem n (map p_name (s_params s))) l
  end.

Definition full_guard (s : tsig) : bool := guard s && positional_sane s.

(** ** help= (a decorator option of the property's quantifier)

    A help text may be given for a parameter under its Python spelling or
    under its command-line spelling.  Each text ends up on the argument of the
    parameter it names; a key that names no parameter, or two keys naming the
    same parameter, make the task unusable (documented: ValueError "Help field
    was set for param(s) that don't exist"). *)
Definition shown_name (n : string) : string :=
  if contains_char "_"%char n then dashed n else n.

Definition key_names (k : string) (p : param) : bool :=
  String.eqb k (p_name p) || String.eqb k (shown_name (p_name p)).

Definition help_wf (s : tsig) (h : list (string * string)) : bool :=
  negb (has_dup (map fst h)) &&
  forallb (fun kv => Nat.eqb (List.length (filter (key_names (fst kv)) (s_params s))) 1) h &&
  forallb (fun p => Nat.leb (List.length (filter (fun kv => key_names (fst kv) p) h)) 1) (s_params s).

Definition expected_help (h : list (string * string)) (p : param) : option string :=
  match find (fun kv => key_names (fst kv) p) h with
  | Some kv => Some (snd kv)
  | None => None
  end.

(** [ho]: (python-friendly name, help text) of every argument, as observed *)
Definition help_ok (s : tsig) (h : list (string * string)) (obs : result cli)
           (ho : list (string * option string)) : bool :=
  if dashed_clash s then true           (* judged by [spec_ok]: refusal *)
  else if help_wf s h then
    match obs with
    | Ok _ =>
        forallb (fun p => match aget (p_name p) ho with
                          | Some t => opt_eqb String.eqb t (expected_help h p)
                          | None => false
                          end) (s_params s)
    | Err _ => false
    end
  else match obs with Err e => err_eqb e EValue | Ok _ => false end.

(** the whole judgement of one task: the CLI, the help texts, and -- "the
    keyword arguments produced for a task always bind to its function" -- the
    call with those keyword arguments hands every parameter its value
    ([calls], observed by really calling the task) *)
Definition spec_task (s : tsig) (h : list (string * string)) (obs : result cli)
           (ho : list (string * option string)) (calls : bool) : bool :=
  (if negb (dashed_clash s) && negb (help_wf s h) then true else spec_ok s obs) &&
  help_ok s h obs ho &&
  match obs with Ok _ => calls | Err _ => true end.
