(** C17: a task's namespace settings are the deep merge of the configurations
    of exactly the collections on the path from the root to the task, outer
    winning at each individual setting.

    Stated without the lookup code and without merge_dicts:
    - [ref_path] walks a canonical dotted name segment by segment and returns
      the task together with the configurations of the collections it passes
      (root first), following default shortcuts down to where the task lives;
    - the expected value of every setting (leaf path) is the one given by the
      outermost collection on that path that defines it ([first_some]). *)
From InvokeVerif Require Export Common.Namespace.

(** ** Well-formed namespace: inside every collection the task names, alias
    names and sub-collection names are pairwise distinct, aliases point at task
    names, the default names a member, stored configurations have no duplicate
    keys.  (Trees in which a later binding silently overwrites or shadows an
    earlier one are outside the statement.) *)
Fixpoint ns_wf (c : coll) : bool :=
  match c with
  | Coll _ tasks aliases subs dflt _ cfg =>
      nodupb (akeys tasks ++ akeys aliases ++ akeys subs) &&
      forallb (fun a => mem (snd a) (akeys tasks)) aliases &&
      match dflt with
      | Some d => mem d (akeys tasks) || mem d (akeys subs)
      | None => true
      end &&
      wf (Node cfg) &&
      (fix go (l : list (string * coll)) : bool :=
         match l with [] => true | (_, sc) :: l' => ns_wf sc && go l' end) subs
  end.

(** The task bound in [c] under primary name or alias [s]. *)
Definition task_here (c : coll) (s : string) : option taskinfo :=
  match assoc s (c_tasks c) with
  | Some t => Some t
  | None => match assoc s (c_aliases c) with
            | Some k => assoc k (c_tasks c)
            | None => None
            end
  end.

(** Reference resolution of a canonical name given as segments.  Returns the
    task and the configurations of the collections from the root down to the
    collection that holds the task.  [down k rest] = resolution of [rest]
    inside the sub-collection named [k], if there is one. *)
Definition ref_push (cfg : dict) (r : option (taskinfo * list dict)) :=
  match r with Some (t, cfgs) => Some (t, cfg :: cfgs) | None => None end.

Definition ref_step (down : string -> list string -> option (option (taskinfo * list dict)))
           (here : string -> option taskinfo) (dflt : option string) (cfg : dict)
           (segs : list string) : option (taskinfo * list dict) :=
  let last (s : string) :=
    match down s [] with
    | Some r => ref_push cfg r              (* a collection name: its default, recursively *)
    | None => match here s with
              | Some t => Some (t, [cfg])
              | None => None
              end
    end in
  match segs with
  | [] => match dflt with Some d => last d | None => None end
  | [s] => last s
  | s :: rest => match down s rest with Some r => ref_push cfg r | None => None end
  end.

Fixpoint ref_path (c : coll) (segs : list string) {struct c}
  : option (taskinfo * list dict) :=
  match c with
  | Coll _ tasks aliases subs dflt _ cfg =>
      ref_step
        (fun k rest =>
           (fix go (l : list (string * coll)) {struct l}
              : option (option (taskinfo * list dict)) :=
              match l with
              | [] => None
              | (k', sc) :: l' => if String.eqb k k' then Some (ref_path sc rest) else go l'
              end) subs)
        (task_here c) dflt cfg segs
  end.

Definition segs_of (name : string) : list string :=
  if String.eqb name "" then [] else split_char "." name.

(** ** Type consistency: no path is a section in one configuration and a plain
    value in another (merging those is documented to be an error). *)
Fixpoint compatible (a b : tree) {struct a} : bool :=
  match a, b with
  | Leaf _, Leaf _ => true
  | Node ka, Node kb =>
      (fix go (l : list (string * tree)) : bool :=
         match l with
         | [] => true
         | (k, ca) :: l' =>
             match get k kb with Some cb => compatible ca cb | None => true end && go l'
         end) ka
  | _, _ => false
  end.

Fixpoint all_compatible (cfgs : list dict) : bool :=
  match cfgs with
  | [] => true
  | g :: rest => forallb (fun h => compatible (Node g) (Node h)) rest && all_compatible rest
  end.

(** ** Expected settings *)
Fixpoint first_some {A} (l : list (option A)) : option A :=
  match l with
  | [] => None
  | Some a :: _ => Some a
  | None :: l' => first_some l'
  end.

Definition opt_value_eqb (a b : option value) : bool :=
  match a, b with
  | Some x, Some y => value_eqb x y
  | None, None => true
  | _, _ => false
  end.

(** [d] is the deep merge of [cfgs] (outermost first): at every setting path
    occurring anywhere, [d] holds the value of the outermost configuration that
    defines it, and nothing else. *)
Definition deep_merge_ok (cfgs : list dict) (d : dict) : bool :=
  let paths := map fst (leaf_paths (Node d)) ++
               flat_map (fun g => map fst (leaf_paths (Node g))) cfgs in
  wf (Node d) &&
  forallb (fun p => opt_value_eqb (leaf_at p (Node d))
                                  (first_some (map (fun g => leaf_at p (Node g)) cfgs))) paths.

(** Judge one observed [configuration(name)] (with the task that [coll[name]]
    returned) against the tree [c]. *)
Definition spec_ok (c : coll) (name : string) (obs : result (nat * tree)) : bool :=
  if ns_wf c then
    match ref_path c (segs_of name) with
    | None => true                       (* not a canonical name of a task: nothing claimed here *)
    | Some (t, cfgs) =>
        if all_compatible cfgs then
          match obs with
          | Ok (tid, Node d) => Nat.eqb tid (t_id t) && deep_merge_ok cfgs d
          | _ => false
          end
        else true                        (* type-inconsistent configurations: outside the statement *)
    end
  else true.

(** ** whichever spelling: '_' and '-' inside a segment are the same name *)
(** normalisation of one segment, stated directly: the first and the last
    character stay, every other occurrence of the rewritten character changes *)
Fixpoint norm_tail (f t : ascii) (s : string) : string :=
  match s with
  | EmptyString => EmptyString
  | String c EmptyString => String c EmptyString
  | String c s' => String (if Ascii.eqb c f then t else c) (norm_tail f t s')
  end.

Definition norm_seg (ad : bool) (s : string) : string :=
  match s with
  | EmptyString => EmptyString
  | String c s' => String c (if ad then norm_tail "_" "-" s' else norm_tail "-" "_" s')
  end.

Definition norm_name (ad : bool) (n : string) : string :=
  join "." (map (norm_seg ad) (split_char "." n)).

(** two names that normalise alike, whatever the collections' settings *)
Definition same_spelling (a b : string) : bool :=
  String.eqb (norm_name true a) (norm_name true b) && String.eqb (norm_name false a) (norm_name false b).

Definition obs_same (a b : result (nat * tree)) : bool :=
  match a, b with
  | Ok (i, x), Ok (j, y) => Nat.eqb i j && dict_equiv x y && dict_equiv y x
  | Err e1, Err e2 => err_eqb e1 e2
  | _, _ => false
  end.

(** every two names of the list that are spellings of one another are
    answered alike *)
Fixpoint spelling_invariant (names : list string) (obs : list (result (nat * tree))) : bool :=
  match names, obs with
  | n :: names', o :: obs' =>
      (fix go (ns : list string) (os : list (result (nat * tree))) : bool :=
         match ns, os with
         | m :: ns', p :: os' => (if same_spelling n m then obs_same o p else true) && go ns' os'
         | _, _ => true
         end) names' obs' &&
      spelling_invariant names' obs'
  | _, _ => true
  end.

(** ** stored configurations are what was configured: the collection built for
    each sub-collection item of the script (in order) holds exactly the
    configuration the script gives it -- nothing of a sibling's, a parent's or
    a caller's later edits *)
Fixpoint cfg_match (it : item) (c : coll) {struct it} : bool :=
  match it with
  | ITask _ _ _ _ => true
  | IMod _ _ nsitem _ _ => cfg_match nsitem c
  | ISub _ _ cfg items _ _ =>
      dict_equiv cfg (Node (c_config c)) && dict_equiv (Node (c_config c)) cfg &&
      (* (a later binding under the same name replaces an earlier one: then
         the positions do not correspond and nothing is claimed below) *)
      if Nat.eqb (List.length (filter (fun i => match i with ITask _ _ _ _ => false | _ => true end) items))
                 (List.length (c_subs c))
      then
        (fix go (l : list item) (ss : list (string * coll)) {struct l} : bool :=
           match l with
           | [] => true
           | i :: l' =>
               match i with
               | ITask _ _ _ _ => go l' ss
               | _ => match ss with
                      | (_, sc) :: ss' => cfg_match i sc && go l' ss'
                      | [] => true
                      end
               end
           end) items (c_subs c)
      else true
  end.
