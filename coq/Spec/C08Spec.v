(** C08, judged on an observed run of the event script (never calls the model).

    "Whenever the command's process comes to an end -- by exiting, by being killed
    on timeout, or after a forwarded interrupt -- ... running it (or joining an
    asynchronous promise) terminates, and by then every I/O worker it started has
    finished, the timeout timer is disarmed, the child has been reaped ...  If
    instead the process cannot be started, or an I/O worker dies (unexpected
    exception or watcher error) while the process is still running, the call
    still ends within a bounded delay and reports that failure instead of
    hanging." *)
From InvokeVerif Require Export Model.RunnerSM.
(* only the TYPES of RunnerSM (events, configuration, observation record) are used
   here; no model function is called *)

Definition is_end (c : cfg) (e : ev) : bool :=
  match e with
  | EExit _ | EExitKbd _ => true
  | ETimer => c_timeout c         (* the armed timer kills the process *)
  | _ => false
  end.

(** the process comes to an end somewhere in the script *)
Definition process_ends (c : cfg) (script : list ev) : bool := existsb (is_end c) script.

(** readers eventually get EOF: nobody else keeps the pipes open.
    NOTE this condition sits INSIDE [spec_ok]: the termination claim is only made
    for runs whose readers reach EOF.  What it leaves out is a genuine defect of the
    code -- a descendant holding a pipe makes the untimed joins of [_finish] block
    although the command has ended (finding F-C14b, registered for C08 as well). *)
Definition fair (c : cfg) : bool := negb (c_hold_out c) && negb (c_hold_err c).

Definition worker_exists (c : cfg) (w : who) : bool :=
  match w with WOut => true | WIn => c_in c | WErr => negb (c_pty c) end.

(** first death of a worker while the process is still running.  [EExc w k] makes
    [w] die at its next blocking call: it means nothing for a worker that does not
    exist or that has already finished (its reader got EOF). *)
Fixpoint death_from (c : cfg) (out_done err_done : bool) (script : list ev) : option (who * exk) :=
  match script with
  | [] => None
  | e :: r =>
      if is_end c e then None
      else match e with
           | EExc w k =>
               let gone := match w with WOut => out_done | WErr => err_done | WIn => false end in
               if worker_exists c w && negb gone then Some (w, k) else death_from c out_done err_done r
           | EEof WOut => death_from c true err_done r
           | EEof WErr => death_from c out_done true r
           | _ => death_from c out_done err_done r
           end
  end.

Definition death_while_running (c : cfg) (script : list ev) : option (who * exk) :=
  death_from c false false script.

Definition documented (o : outcome) : bool :=
  match o with
  | OResult | OUnexpectedExit | OFailure | OTimedOut | OThreadException => true
  | _ => false
  end.

Definition is_failure_report (o : outcome) : bool :=
  match o with OThreadException | OFailure => true | _ => false end.

Definition spec_ok (c : cfg) (script : list ev) (o : sm_obs) : bool :=
  if c_start_fail c then
    (* cannot be started: reported, nothing left behind *)
    match o_outcome o with
    | Some OStartError => (match o_alive o with [] => true | _ => false end) && negb (o_timer_armed o)
    | _ => false
    end
  else
    (* the process ends and the readers get EOF: terminates, clean *)
    (if process_ends c script && fair c then
       match o_outcome o with
       | Some oc => documented oc && (match o_alive o with [] => true | _ => false end) && negb (o_timer_armed o) &&
                    o_reaped o && o_flag o && Nat.leb 1 (o_stop o)
       | None => false
       end
     else true) &&
    (* a worker dies while the process runs: ends anyway, reporting that failure *)
    (match death_while_running c script with
     | Some _ => match o_outcome o with
                 | Some oc => is_failure_report oc && negb (o_timer_armed o) && o_flag o
                 | None => false
                 end
     | None => true
     end).
