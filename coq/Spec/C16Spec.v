(** C16, stated independently of the crawl: which variables apply, how they
    are converted, when the load is ambiguous. *)
From InvokeVerif Require Export Common.Tree Common.StrUtil.

(** Documented prefix form: upper-cased, followed by an underscore. *)
Definition effective_prefix (p : string) : string := upper p ++ "_".

Definition var_name (p : path) : string := upper (join "_" p).

(** Two distinct setting (leaf) paths map to the same variable name. *)
Definition ambiguous (t : tree) : bool :=
  let ps := map fst (leaf_paths t) in
  existsb (fun p => existsb (fun q => negb (path_eqb p q) &&
                                      String.eqb (var_name p) (var_name q)) ps) ps.

Definition lookup_env (name : string) (e : list (string * string)) : option string :=
  match find (fun nv => String.eqb name (fst nv)) e with
  | Some nv => Some (snd nv)
  | None => None
  end.

(** Conversion by the type of the overridden value. *)
Definition convert (old : value) (s : string) : result value :=
  match old with
  | VBool _ => Ok (VBool (if String.eqb s "" then false else if String.eqb s "0" then false else true))
  | VInt _ => match parse_int s with Some z => Ok (VInt z) | None => Err EValue end
  | VStr _ | VNone => Ok (VStr s)
  | VList _ | VTuple _ => Err EUncastable
  end.

(** The settings an environment names: (path, old value, new string). *)
Definition applicable (t : tree) (pfx : string) (env : list (string * string))
  : list (path * value * string) :=
  flat_map (fun pv => match lookup_env (pfx ++ var_name (fst pv)) env with
                      | Some s => [(fst pv, snd pv, s)]
                      | None => []
                      end) (leaf_paths t).

Definition pv_eqb (a b : path * value) : bool :=
  path_eqb (fst a) (fst b) && value_eqb (snd a) (snd b).

Definition subset_pv (l1 l2 : list (path * value)) : bool :=
  forallb (fun a => existsb (pv_eqb a) l2) l1.

Fixpoint no_empty_sections (t : tree) : bool :=
  match t with
  | Leaf _ => true
  | Node kids =>
      (fix go (l : list (string * tree)) : bool :=
         match l with
         | [] => true
         | (_, c) :: l' =>
             match c with Node [] => false | _ => no_empty_sections c end && go l'
         end) kids
  end.

Definition is_err {A} (r : result A) : bool := match r with Err _ => true | Ok _ => false end.

(** Judge an observed outcome [obs] of loading the environment over [t]. *)
Definition spec_ok (t : tree) (pfx : string) (env : list (string * string))
           (obs : result dict) : bool :=
  if ambiguous t then
    match obs with Err EAmbigEnv => true | _ => false end
  else
    let app := applicable t pfx env in
    let conv := map (fun x => (fst (fst x), convert (snd (fst x)) (snd x))) app in
    if existsb (fun pc => is_err (snd pc)) conv then
      (* refused, with the error of one of the offending settings *)
      match obs with
      | Err e => existsb (fun pc => match snd pc with Err e' => err_eqb e e' | Ok _ => false end) conv
      | Ok _ => false
      end
    else
      match obs with
      | Err _ => false
      | Ok d =>
          let want := flat_map (fun pc => match snd pc with Ok v => [(fst pc, v)] | Err _ => [] end) conv in
          let got := leaf_paths (Node d) in
          wf (Node d) && no_empty_sections (Node d) &&
          subset_pv want got && subset_pv got want
      end.

(** ** The configuration after the load (what a user reads).
    [t]: the settings before the load (all other levels merged, deletions
    applied); [higher]: the levels that take precedence over the environment
    (command-line overrides, runtime modifications); [d]: the environment level
    that was accepted by [spec_ok]; [v]: the observed view.
    (a) no setting or section is created or lost; (b) a setting named by an
    applied variable reads the converted value unless a higher level defines it;
    every other setting is untouched. *)
Fixpoint all_paths (t : tree) : list path :=
  match t with
  | Leaf _ => []
  | Node kids =>
      (fix go (l : list (string * tree)) : list path :=
         match l with
         | [] => []
         | (k, c) :: l' => [k] :: map (cons k) (all_paths c) ++ go l'
         end) kids
  end.

Definition path_in (p : path) (l : list path) : bool := existsb (path_eqb p) l.
Definition subset_paths (a b : list path) : bool := forallb (fun p => path_in p b) a.

Definition defined_in (p : path) (t : tree) : bool :=
  match lookup p t with Some _ => true | None => false end.

Definition opt_value_eqb (a b : option value) : bool :=
  match a, b with
  | Some x, Some y => value_eqb x y
  | None, None => true
  | _, _ => false
  end.

Definition spec_view (t : tree) (higher : list tree) (d : dict) (v : tree) : bool :=
  subset_paths (all_paths v) (all_paths t) && subset_paths (all_paths t) (all_paths v) &&
  forallb (fun px =>
             let p := fst px in
             let want := match leaf_at p (Node d) with
                         | Some w => if existsb (defined_in p) higher then snd px else w
                         | None => snd px
                         end in
             opt_value_eqb (leaf_at p v) (Some want))
          (leaf_paths t).
