(** C14, "promptly" -- the wait loop's share.  While the command runs the main thread
    only sleeps and looks; an exit (by itself or by the timeout's kill) is noticed by the
    next look.  So: between two looks the thread never asks to sleep longer than the
    configured [input_sleep] -- at any age of the command.  Judged on the observed
    durations handed to [time.sleep] by the thread that called run() (microseconds). *)
From Coq Require Import NArith List Bool.
Import ListNotations.

Definition wait_ok (input_sleep : N) (sleeps : list N) : bool :=
  forallb (fun d => N.leb d input_sleep) sleeps.

(** in time: a command that ends at [t] is noticed less than one [input_sleep] later *)
Definition noticed_promptly (input_sleep t noticed : N) : bool :=
  N.leb t noticed && N.ltb noticed (t + input_sleep).
