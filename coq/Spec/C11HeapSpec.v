(** C11 on object graphs: what "independent" and "never mutated" mean for
    merge_dicts / copy_dict / clone, judged on an observed heap.

    [h0] is the object graph before the call (every node a caller-held dict
    object), [h1] the graph after it with the SAME addresses for the old objects
    and addresses >= |h0| for objects created by the call.
    - merge_dicts(base, updates): objects not reachable from [base] before the
      call are unchanged; everything reachable from [base] afterwards was
      reachable from it before or was created by the call (so nothing of
      [updates] is adopted by reference);
    - copy_dict(src): no old object changes; everything reachable from the
      result was created by the call; the result reads like the source;
    - clone: the same for every copied level, and the copies are pairwise
      disjoint. *)
From InvokeVerif Require Export Common.Tree Common.StrUtil Model.HeapMerge.

Definition hval_eqb (a b : hval) : bool :=
  match a, b with
  | HLeaf x, HLeaf y => value_eqb x y
  | HRef x, HRef y => Nat.eqb x y
  | _, _ => false
  end.

Definition hnode_eqb (a b : hnode) : bool :=
  list_eqb (fun x y => String.eqb (fst x) (fst y) && hval_eqb (snd x) (snd y)) a b.

Definition onode_eqb (a b : option hnode) : bool :=
  match a, b with
  | Some x, Some y => hnode_eqb x y
  | None, None => true
  | _, _ => false
  end.

Definition refs (n : hnode) : list addr :=
  flat_map (fun kv => match snd kv with HRef c => [c] | HLeaf _ => [] end) n.

(** Addresses reachable from [a] (fuel = depth bound; repeats possible). *)
Fixpoint reach_list (fuel : nat) (h : heap) (a : addr) {struct fuel} : list addr :=
  match fuel with
  | O => []
  | S f => a :: match hget h a with
                | Some n => flat_map (reach_list f h) (refs n)
                | None => []
                end
  end.

Definition memn (x : addr) (l : list addr) : bool := existsb (Nat.eqb x) l.

Definition depth_bound : nat := 16.

Definition unchanged (h0 h1 : heap) (a : addr) : bool := onode_eqb (hget h0 a) (hget h1 a).

Definition old_addrs (h0 : heap) : list addr := seq 0 (List.length h0).

Definition is_new (h0 : heap) (x : addr) : bool := Nat.leb (List.length h0) x.

Definition merge_ok (h0 h1 : heap) (b : addr) : bool :=
  let rb := reach_list depth_bound h0 b in
  forallb (fun a => memn a rb || unchanged h0 h1 a) (old_addrs h0) &&
  forallb (fun x => is_new h0 x || memn x rb) (reach_list depth_bound h1 b).

Definition tree_opt_eqb (a b : option tree) : bool :=
  match a, b with
  | Some x, Some y => tree_eqb x y
  | _, _ => false
  end.

Definition copy_ok (h0 h1 : heap) (src res : addr) : bool :=
  forallb (unchanged h0 h1) (old_addrs h0) &&
  forallb (is_new h0) (reach_list depth_bound h1 res) &&
  tree_opt_eqb (hview depth_bound h1 res) (hview depth_bound h0 src).

Fixpoint pairwise_disjoint (ls : list (list addr)) : bool :=
  match ls with
  | [] => true
  | l :: rest => forallb (fun l' => forallb (fun x => negb (memn x l')) l) rest && pairwise_disjoint rest
  end.

Definition clone_ok (h0 h1 : heap) (roots res : list addr) : bool :=
  Nat.eqb (List.length roots) (List.length res) &&
  forallb (unchanged h0 h1) (old_addrs h0) &&
  forallb (fun sr => copy_ok h0 h1 (fst sr) (snd sr)) (combine roots res) &&
  pairwise_disjoint (map (reach_list depth_bound h1) res).
