(** C05, stated on what a caller observes. *)
From InvokeVerif Require Export Common.ExitTypes.

(** How a command ended, as the operating system saw it. *)
Inductive ending := Exited (code : Z) | Killed (sig : Z).

(** the true exit status: the code, or the negative signal number *)
Definition true_status (e : ending) : Z :=
  match e with Exited c => c | Killed s => (- s)%Z end.

Definition optz_eqb (a b : option Z) : bool :=
  match a, b with
  | Some x, Some y => (x =? y)%Z
  | None, None => true
  | _, _ => false
  end.

(** a result object is coherent: ok exactly when the status is zero *)
Definition view_ok (r : rview) : bool :=
  Bool.eqb (rv_ok r) (optz_eqb (rv_exited r) (Some 0%Z)) &&
  Bool.eqb (rv_failed r) (negb (rv_ok r)) &&
  Bool.eqb (rv_bool r) (rv_ok r) &&
  optz_eqb (rv_return_code r) (rv_exited r).

(** What happened while the command ran. *)
Record situation := mkSit {
  s_thread_excs : nat;      (* worker threads that died of an unforeseen exception *)
  s_watcher_errs : nat;     (* worker threads stopped by a watcher error *)
  s_timeout_set : bool;     (* a timeout was requested *)
  s_timed_out : bool;       (* ... and it expired *)
  s_status : Z;             (* the command's true exit status *)
  s_warn : bool;
  s_sudo : bool;            (* run through Context.sudo *)
  s_bad_password : bool }.  (* the (first) watcher error is sudo's rejected-password responder *)

(** "warn was requested": the call says so; or the call has no opinion (keyword
    omitted, or None) and the configuration says so. *)
Definition warn_requested (ws : warn_src) : bool :=
  match ws_kw ws with
  | KwVal b => b
  | KwOmitted | KwNone => match ws_cfg ws with Some b => b | None => false end
  end.

(** the situation of a call whose warn comes from [w] *)
Definition set_warn (s : situation) (w : bool) : situation :=
  mkSit (s_thread_excs s) (s_watcher_errs s) (s_timeout_set s) (s_timed_out s) (s_status s) w
        (s_sudo s) (s_bad_password s).

(** The failure raised, by priority; [None] = returns normally. *)
Definition expected_raise (s : situation) : option raise_kind :=
  if negb (Nat.eqb (s_thread_excs s) 0) then Some RThreadException
  else if negb (Nat.eqb (s_watcher_errs s) 0)
       then Some (if s_sudo s && s_bad_password s then RAuthFailure else RFailure)
  else if s_timeout_set s && s_timed_out s then Some RCommandTimedOut
  else if negb (s_status s =? 0)%Z && negb (s_warn s) then Some RUnexpectedExit
  else None.

Definition kind_eqb (a b : raise_kind) : bool :=
  match a, b with
  | RThreadException, RThreadException | RFailure, RFailure
  | RCommandTimedOut, RCommandTimedOut | RUnexpectedExit, RUnexpectedExit
  | RAuthFailure, RAuthFailure => true
  | _, _ => false
  end.

Definition spec_finish (s : situation) (o : outcome) : bool :=
  match expected_raise s, o with
  | None, Return r => view_ok r && optz_eqb (rv_exited r) (Some (s_status s))
  | Some RThreadException, Raise RThreadException _ => true
  | Some RFailure, Raise RFailure (Some r) | Some RAuthFailure, Raise RAuthFailure (Some r) =>
      (* a watcher error aborts execution: the status may be unknown (None) *)
      view_ok r && (optz_eqb (rv_exited r) None || optz_eqb (rv_exited r) (Some (s_status s)))
  | Some RFailure, _ | Some RAuthFailure, _ => false
  | Some k, Raise k' (Some r) =>
      kind_eqb k k' && view_ok r && optz_eqb (rv_exited r) (Some (s_status s))
  | _, _ => false
  end.

(** The program's own exit status. *)
Definition spec_program (e : prog_event) (o : prog_out) : bool :=
  match e, o with
  | PSuccess, PReturns => true
  | PUnexpectedExit x, PSysExit c => (c =? x)%Z
  | PExit (Some c) _, PSysExit c' => (c =? c')%Z
  | PExit None m, PSysExit c' => (c' =? (if m then 1 else 0))%Z
  | PParseError, PSysExit c => (c =? 1)%Z
  | PKeyboardInterrupt, PSysExit c => (c =? 1)%Z     (* as Python itself outside a REPL *)
  | POtherException, PPropagates => true              (* not the program's business *)
  | _, _ => false
  end.

(** The program running one task that runs one command exiting with [code]:
    warn requested on the command line (-w), in the configuration, or by the
    call's keyword (an explicit True / False wins). *)
Definition spec_task_run (flag : bool) (cfg : option bool) (kw : kwopt) (code : Z) (o : prog_out) : bool :=
  let requested := warn_requested (mkWs (if flag then Some true else cfg) kw) in
  spec_program (if (code =? 0)%Z || requested then PSuccess else PUnexpectedExit code) o.
