(** C01: every spelling of an intended invocation parses to exactly that
    invocation.

    An *intended invocation* is a list of calls; a call names a task (by its
    primary name or an alias) and lists *occurrences* of its arguments in
    command-line order.  Each occurrence carries its value and its *spelling
    script*: which of the argument's names is used and in which documented form
    the value is attached.  [spell] renders the command line, [expected] is
    what the tasks must receive, [admissible] is the property's side condition
    ("values not colliding with a flag or task name", the documented ambiguity
    rules of optional-value flags, required positionals supplied).  Nothing
    here runs the parser model. *)
From InvokeVerif Require Export Spec.ParserObs.

Inductive oval :=
| VB (b : bool)        (* boolean value *)
| VN (n : nat)         (* counter: number of increments of this occurrence *)
| VS (s : string)      (* text of a value *)
| VT.                  (* optional-value flag given bare: True *)

Inductive oform :=
| FBare     (* --flag            boolean True, or optional-value flag alone *)
| FInv      (* --no-flag         default-true boolean switched off *)
| FRep      (* -v -v             counter repeated *)
| FStack    (* -vvv              counter stacked on its short name *)
| FNext     (* --flag value *)
| FEq       (* --flag=value *)
| FGlued    (* -fvalue *)
| FPos.     (* value             positional, by position *)

Record occ := mkOcc { o_arg : nat; o_name : nat; o_form : oform; o_val : oval }.

Inductive item :=
| One (o : occ)
| Cluster (l : list occ).   (* one "-abc" token: short booleans / stacked counters,
                               optionally ending in a value flag ([FNext]) *)

Record call := mkCall { k_task : nat; k_as : string; k_items : list item }.
Definition invocation := list call.

Definition oform_eqb (a b : oform) : bool :=
  match a, b with
  | FBare, FBare | FInv, FInv | FRep, FRep | FStack, FStack
  | FNext, FNext | FEq, FEq | FGlued, FGlued | FPos, FPos => true
  | _, _ => false
  end.

Section Spec.
Variable cs : list ctxspec.

(** ** Rendering *)

Definition flag_of (a : argspec) (k : nat) : string := to_flag (nth k (a_names a) "").

Definition short_letter (fl : string) : string := drop 1 fl.

Fixpoint repeat_str (s : string) (n : nat) : string :=
  match n with O => "" | S n' => (s ++ repeat_str s n')%string end.

Definition text_of (v : oval) : string := match v with VS s => s | _ => "" end.
Definition count_of (v : oval) : nat := match v with VN n => n | _ => 0 end.

Definition spell_occ (c : ctxspec) (o : occ) : list string :=
  match nth_error (cx_args c) (o_arg o) with
  | None => []
  | Some a =>
      let fl := flag_of a (o_name o) in
      match o_form o with
      | FBare => [fl]
      | FInv => [to_flag ("no-" ++ main_name a)]
      | FRep => repeat fl (count_of (o_val o))
      | FStack => [("-" ++ repeat_str (short_letter fl) (count_of (o_val o)))%string]
      | FNext => [fl; text_of (o_val o)]
      | FEq => [(fl ++ "=" ++ text_of (o_val o))%string]
      | FGlued => [(fl ++ text_of (o_val o))%string]
      | FPos => [text_of (o_val o)]
      end
  end.

(** letters a cluster member contributes, and the trailing value token *)
Definition cluster_letters (c : ctxspec) (o : occ) : string :=
  match nth_error (cx_args c) (o_arg o) with
  | None => ""
  | Some a =>
      let ch := short_letter (flag_of a (o_name o)) in
      match o_form o with
      | FStack => repeat_str ch (count_of (o_val o))
      | _ => ch
      end
  end.

Definition cluster_tail (o : occ) : list string :=
  match o_form o with FNext => [text_of (o_val o)] | _ => [] end.

Definition spell_item (c : ctxspec) (it : item) : list string :=
  match it with
  | One o => spell_occ c o
  | Cluster l =>
      ("-" ++ String.concat "" (map (cluster_letters c) l))%string :: flat_map cluster_tail l
  end.

Definition spell_call (k : call) : list string :=
  match nth_error cs (k_task k) with
  | None => [k_as k]
  | Some c => k_as k :: flat_map (spell_item c) (k_items k)
  end.

Definition spell (inv : invocation) : list string := flat_map spell_call inv.

(** ** Expected meaning *)

Definition occs_of (it : item) : list occ := match it with One o => [o] | Cluster l => l end.
Definition call_occs (k : call) : list occ := flat_map occs_of (k_items k).

Definition aval_to_Z (v : aval) : Z :=
  match v with AInt z => z | ABool true => 1%Z | _ => 0%Z end.

(** the value an argument ends up with: declared default, updated by its
    occurrences in order, typed by kind *)
Definition apply_occ (a : argspec) (cur : aval) (first_list : bool) (o : occ) : aval :=
  match o_val o with
  | VB b => ABool b
  | VN n => AInt (aval_to_Z cur + Z.of_nat n)
  | VT => ABool true
  | VS s =>
      match a_kind a with
      | KList => match cur with
                 | AList l => if first_list then AList [s] else AList (l ++ [s])
                 | _ => AList [s]
                 end
      | KInt => match parse_int s with Some z => AInt z | None => ANone end
      | KBool => ABool (negb (String.eqb s ""))
      | KStr => AStr s
      | KOther ty d tbl =>
          (* whatever the argument's own type makes of the text (oracle) *)
          match cast_other d tbl s with COk r => AStr (other_repr ty r) | _ => ANone end
      end
  end.

(** fold over the occurrences that concern argument [i]; [seen] = whether a
    list value was already given (the first one replaces the default) *)
Fixpoint value_after (a : argspec) (i : nat) (cur : aval) (seen : bool) (l : list occ) : aval :=
  match l with
  | [] => cur
  | o :: l' =>
      if Nat.eqb (o_arg o) i
      then value_after a i (apply_occ a cur (negb seen) o) true l'
      else value_after a i cur seen l'
  end.

(** what a task receives for an argument the command line does not mention:
    its declared default (a list parameter without one receives []) *)
Definition declared_default (a : argspec) : aval :=
  match a_kind a, a_default a with
  | KList, AList l => AList l
  | KList, _ => if a_incrementable a then a_default a else AList []
  | _, d => d
  end.

Fixpoint expected_kwargs_from (i : nat) (args : list argspec) (os : list occ)
  : list (string * aval) :=
  match args with
  | [] => []
  | a :: rest => (arg_name a, value_after a i (declared_default a) false os)
                 :: expected_kwargs_from (S i) rest os
  end.

Definition expected_call (k : call) : option string * list (string * aval) :=
  match nth_error cs (k_task k) with
  | None => (None, [])
  | Some c => (cx_name c, expected_kwargs_from 0 (cx_args c) (call_occs k))
  end.

Definition expected (inv : invocation) : list (option string * list (string * aval)) :=
  map expected_call inv.

(** ** Admissibility (the property's side condition) *)

Definition is_short_flag (fl : string) : bool :=
  starts_with "-" fl && negb (starts_with "--" fl) && Nat.eqb (String.length fl) 2.

Definition ctx_flag (c : ctxspec) (t : string) : bool :=
  match arg_of_flag c t with Some _ => true | None =>
  match arg_of_inverse c t with Some _ => true | None => false end end.

(** the token the parser would look at first when it meets [t] *)
Definition split_head (t : string) : string :=
  if starts_with "-" t then
    if contains_char "=" t then let '(h, _, _) := partition_char "=" t in h
    else if negb (starts_with "--" t) && Nat.ltb 2 (String.length t) then take 2 t
    else t
  else t.

Definition required_positional (a : argspec) : bool :=
  a_positional a && aval_is_none (a_default a) && takes_value a
  && negb (akind_eqb (a_kind a) KList).

(** indices of required positionals not in [given] *)
Fixpoint first_missing_from (i : nat) (args : list argspec) (given : list nat) : option nat :=
  match args with
  | [] => None
  | a :: rest =>
      if required_positional a && negb (existsb (Nat.eqb i) given) then Some i
      else first_missing_from (S i) rest given
  end.
Definition first_missing (c : ctxspec) (given : list nat) : option nat :=
  first_missing_from 0 (cx_args c) given.

(** a positional parameter that a value can be given to by position -- whether
    or not it also declares a default ("positionals given positionally") *)
Definition positional_slot (a : argspec) : bool :=
  a_positional a && takes_value a && negb (akind_eqb (a_kind a) KList).

(** the first positional slot, in declaration order, not yet given a value *)
Fixpoint first_slot_from (i : nat) (args : list argspec) (given : list nat) : option nat :=
  match args with
  | [] => None
  | a :: rest =>
      if positional_slot a && negb (existsb (Nat.eqb i) given) then Some i
      else first_slot_from (S i) rest given
  end.
Definition first_slot (c : ctxspec) (given : list nat) : option nat :=
  first_slot_from 0 (cx_args c) given.

Definition intlike (s : string) : bool := match parse_int s with Some _ => true | None => false end.

(** a value that can be written as its own token after a flag *)
Definition value_token_ok (c : ctxspec) (a : argspec) (s : string) : bool :=
  negb (String.eqb s "--")
  && negb (ctx_flag c s)
  && castable a s
  && (negb (a_optional a)
      || (negb (is_task_name cs s) && negb (starts_with "-" s))).

(** shape of one occurrence against its argument *)
Definition occ_ok (c : ctxspec) (given : list nat) (in_cluster : bool) (o : occ) : bool :=
  match nth_error (cx_args c) (o_arg o) with
  | None => false
  | Some a =>
      Nat.ltb (o_name o) (List.length (a_names a)) &&
      let fl := flag_of a (o_name o) in
      match o_form o, o_val o with
      | FBare, VB true => akind_eqb (a_kind a) KBool && negb (a_incrementable a)
                          && (negb in_cluster || is_short_flag fl)
      | FBare, VT => a_optional a && takes_value a && negb (akind_eqb (a_kind a) KList)
                     && negb in_cluster
                     && match first_missing c given with None => true | Some _ => false end
      | FInv, VB false =>
          negb in_cluster &&
          match inverse_of a with
          | Some s => match arg_of_flag c s with None => true | Some _ => false end
          | None => false
          end
      | FRep, VN n => a_incrementable a && Nat.leb 1 n && negb in_cluster
                      && match a_default a with AInt _ | ABool _ => true | _ => false end
      | FStack, VN n => a_incrementable a && Nat.leb 1 n && is_short_flag fl
                        && match a_default a with AInt _ | ABool _ => true | _ => false end
      | FNext, VS s =>
          takes_value a && value_token_ok c a s
          && (negb in_cluster || (is_short_flag fl && negb (a_optional a)))
          && (negb (a_optional a)
              || match first_missing c given with None => true | Some _ => false end)
      | FEq, VS s =>
          takes_value a && negb in_cluster
          && negb (ctx_flag c s)
          && castable a s
          && (negb (a_optional a)
              || (negb (is_task_name cs s) && negb (starts_with "-" s)
                  && match first_missing c given with None => true | Some _ => false end))
      | FGlued, VS s =>
          takes_value a && negb in_cluster && is_short_flag fl
          && negb (String.eqb s "") && negb (starts_with "=" s)
          && negb (ctx_flag c s)
          && castable a s
          && (negb (a_optional a)
              || (negb (is_task_name cs s) && negb (starts_with "-" s)
                  && match first_missing c given with None => true | Some _ => false end))
      | FPos, VS s =>
          negb in_cluster && positional_slot a
          && match first_slot c given with Some i => Nat.eqb i (o_arg o) | None => false end
          && negb (starts_with "-" s)
          && castable a s
      | _, _ => false
      end
  end.

(** arguments that receive a (single) value through this occurrence *)
Definition gives_value (o : occ) : bool :=
  match o_val o with VS _ | VT => true | _ => false end.

Definition is_bare_optional (it : item) : bool :=
  match it with One o => match o_form o, o_val o with FBare, VT => true | _, _ => false end
  | Cluster _ => false end.

(** first token of an item is (after splitting) a flag of the context *)
Definition starts_with_ctx_flag (c : ctxspec) (it : item) : bool :=
  match spell_item c it with
  | t :: _ => ctx_flag c t || ctx_flag c (split_head t)
  | [] => false
  end.

Definition cluster_ok (c : ctxspec) (given : list nat) (l : list occ) : bool :=
  Nat.leb 2 (List.length l)
  && forallb (occ_ok c given true) l
  && (* only the last member may take a value *)
     forallb (fun o => negb (oform_eqb (o_form o) FNext)) (removelast l)
  && (* the first member must not be a value flag, or the rest would be its value *)
     match l with o :: _ => negb (oform_eqb (o_form o) FNext) | [] => false end.

(** single-valued arguments are given at most once *)
Definition repeats_ok (c : ctxspec) (given : list nat) (o : occ) : bool :=
  match nth_error (cx_args c) (o_arg o) with
  | Some a =>
      if gives_value o && negb (akind_eqb (a_kind a) KList)
      then negb (existsb (Nat.eqb (o_arg o)) given) else true
  | None => false
  end.

Fixpoint items_ok (c : ctxspec) (given : list nat) (last_call : bool) (items : list item) : bool :=
  match items with
  | [] => match first_missing c given with None => true | Some _ => false end
  | it :: rest =>
      let os := occs_of it in
      match it with
      | One o => occ_ok c given false o
      | Cluster l => cluster_ok c given l
      end
      && forallb (repeats_ok c given) os
      && (* a bare optional-value flag must be followed by one of the task's own flags,
            or end the command line *)
         (negb (is_bare_optional it)
          || match rest with
             | [] => last_call
             | nxt :: _ => starts_with_ctx_flag c nxt
             end)
      && items_ok c (map o_arg (filter gives_value os) ++ given) last_call rest
  end.

Fixpoint calls_ok (inv : invocation) : bool :=
  match inv with
  | [] => true
  | k :: rest =>
      match nth_error cs (k_task k) with
      | None => false
      | Some c =>
          names_ctx (k_as k) c && plain (k_as k)
          && items_ok c [] (match rest with [] => true | _ => false end) (k_items k)
          && calls_ok rest
      end
  end.

(** a required positional (no default) must be able to receive a value.  The one
    way to violate this is a COUNTER declared without a numeric default
    ([@task(incrementable=['n']) def t(c, n)]): it is "missing" for ever -- its
    flag raises TypeError (finding F-C07e, registered under C07), a word cannot
    be assigned to it -- so no invocation of such a task is an intended one. *)
Definition positional_fillable (a : argspec) : bool :=
  negb (a_positional a && aval_is_none (a_default a) && negb (takes_value a)).

(** signatures: pairwise distinct flag spellings per task, distinct task names,
    required positionals fillable *)
Definition sigs_ok : bool :=
  forallb (fun c => wf_args (cx_args c) && forallb positional_fillable (cx_args c)) cs
  && nodupb (flat_map (fun c => match cx_name c with Some n => n :: cx_aliases c | None => [] end) cs)
  && forallb (fun c => match cx_name c with Some _ => true | None => false end) cs.

Definition admissible (inv : invocation) : bool :=
  sigs_ok && match inv with [] => false | _ => true end && calls_ok inv.

(** ** The judgement *)
Definition spec_ok (inv : invocation) (obs : result pobs) : bool :=
  if admissible inv then
    match obs with
    | Ok o =>
        match o_ctxs o with
        | _initial :: tasks => list_eqb octx_eqb tasks (expected inv)
        | [] => false
        end
        && match o_unparsed o with [] => true | _ => false end
        && String.eqb (o_remainder o) ""
    | Err _ => false
    end
  else true.

End Spec.
