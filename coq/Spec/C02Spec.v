(** C02, stated independently of the read loop and of the byte transducer.

    "Captured stdout/stderr are exactly the decoding of the complete respective
    byte streams in the effective encoding (undecodable bytes replaced) ...
    whatever is not hidden is forwarded as the same text in the same order,
    hidden streams receive nothing."

    The reference decoder is a whole-string, look-ahead definition read off
    Unicode Table 3-7 (well-formed UTF-8 byte sequences) with the
    maximal-subpart replacement rule; it never mentions decoder states. *)
From InvokeVerif Require Export Common.ByteText Common.MirrorStream.
Local Open Scope N_scope.

Definition is_cont (b : N) : bool := in_range 128 191 b.

(** Table 3-7: for a lead byte, (number of continuation bytes, value bits of the
    lead byte, admissible range of the SECOND byte).  [None]: not a lead byte. *)
Definition lead (b : N) : option (nat * N * N * N) :=
  if in_range 194 223 b then Some (1%nat, b - 192, 128, 191)
  else if b =? 224 then Some (2%nat, 0, 160, 191)
  else if in_range 225 236 b || in_range 238 239 b then Some (2%nat, b - 224, 128, 191)
  else if b =? 237 then Some (2%nat, 13, 128, 159)
  else if b =? 240 then Some (3%nat, 0, 144, 191)
  else if in_range 241 243 b then Some (3%nat, b - 240, 128, 191)
  else if b =? 244 then Some (3%nat, 4, 128, 143)
  else None.

Definition cbits (b : N) : N := b - 128.

Fixpoint utf8_ref (bs : bytes) : text :=
  match bs with
  | [] => []
  | b0 :: r0 =>
      if b0 <? 128 then b0 :: utf8_ref r0
      else
        match lead b0 with
        | None => REPL :: utf8_ref r0
        | Some (n, v, lo, hi) =>
            match r0 with
            | [] => [REPL]                                   (* truncated *)
            | b1 :: r1 =>
                if negb (in_range lo hi b1) then REPL :: utf8_ref r0
                else
                  match n with
                  | 1%nat => (v * 64 + cbits b1) :: utf8_ref r1
                  | _ =>
                      match r1 with
                      | [] => [REPL]
                      | b2 :: r2 =>
                          if negb (is_cont b2) then REPL :: utf8_ref r1
                          else
                            match n with
                            | 2%nat => ((v * 64 + cbits b1) * 64 + cbits b2) :: utf8_ref r2
                            | _ =>
                                match r2 with
                                | [] => [REPL]
                                | b3 :: r3 =>
                                    if negb (is_cont b3) then REPL :: utf8_ref r2
                                    else (((v * 64 + cbits b1) * 64 + cbits b2) * 64 + cbits b3)
                                           :: utf8_ref r3
                                end
                            end
                      end
                  end
            end
        end
  end.

(** [bytes.decode(enc, 'replace')], reference form. *)
Definition ref_decode (e : enc) (bs : bytes) : text :=
  match e with
  | Utf8 => utf8_ref bs
  | Latin1 => bs
  | Ascii => map (fun b => if b <? 128 then b else REPL) bs
  end.

(** "the effective encoding": the [encoding=] keyword if given, else the configured
    [run.encoding], else the interpreter's locale encoding. *)
Definition effective_encoding (kwarg config : option enc) (locale : enc) : enc :=
  match kwarg with
  | Some e => e
  | None => match config with Some e => e | None => locale end
  end.

(** Documented meaning of [hide] (run() docstring): which streams are hidden;
    "both"/True hide both, "out"/"stdout" and "err"/"stderr" one, None/False
    none; an explicitly given stream object is never hidden; asynchronous runs
    hide as if [hide=True]. *)
Inductive hide_req := QNone | QFalse | QOut | QStdout | QErr | QStderr | QBoth | QTrue.

Definition names_stdout (h : hide_req) : bool :=
  match h with QOut | QStdout | QBoth | QTrue => true | _ => false end.
Definition names_stderr (h : hide_req) : bool :=
  match h with QErr | QStderr | QBoth | QTrue => true | _ => false end.

Definition stdout_hidden (h : hide_req) (async out_given : bool) : bool :=
  (async || names_stdout h) && negb out_given.
Definition stderr_hidden (h : hide_req) (async err_given : bool) : bool :=
  (async || names_stderr h) && negb err_given.

(** When the command really runs under a pty (documented for [Local], options [pty] and
    [fallback]): a pty was asked for, and either sys.stdin is backed by a descriptor or
    falling back to plain pipes was switched off.  Otherwise the command talks to two pipes. *)
Definition pty_in_effect (requested stdin_is_file fallback : bool) : bool :=
  requested && (stdin_is_file || negb fallback).

(** Judge an observed run: [out_bytes]/[err_bytes] are the complete byte streams
    the command wrote to its stdout / stderr pipe.  Under a pty there is no
    stderr pipe (the kernel merges both into the pty): captured stderr is empty.
    [pty] is what is IN EFFECT ([pty_in_effect]), not what was asked for: a run that fell
    back to pipes owes both streams in full.
    [mo]/[me] describe the stream objects the output is forwarded to (advertised
    encoding; recording stream or TextIOWrapper with its own error handler) and
    [got_out_stream]/[got_err_stream] are their contents afterwards: a stream that
    is not hidden holds what an identical stream holds after ONE write of the
    complete expected text -- for a recording stream that text itself, whatever
    encoding it advertises -- and a hidden one what it holds after no write at all. *)
Definition spec_ok (e : enc) (out_bytes err_bytes : bytes) (h : hide_req)
           (async out_given err_given pty : bool) (mo me : mirror)
           (got_stdout got_stderr got_out_stream got_err_stream : text) : bool :=
  let want_out := ref_decode e out_bytes in
  let want_err := if pty then [] else ref_decode e err_bytes in
  text_eqb got_stdout want_out &&
  text_eqb got_stderr want_err &&
  text_eqb got_out_stream (stream_content mo (if stdout_hidden h async out_given then [] else [want_out])) &&
  text_eqb got_err_stream (stream_content me (if stderr_hidden h async err_given then [] else [want_err])).
