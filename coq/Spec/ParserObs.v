(** What the parser properties (C01, C07, C18) observe of a parse: for every
    returned context its name and [as_kwargs] (insertion order), the unparsed
    tokens and the remainder string -- or the class of the exception.
    Shared helper predicates over the *static* description of the contexts
    (never over the parser model). *)
From InvokeVerif Require Export Model.CtxModel.

Record pobs := mkObs {
  o_ctxs : list (option string * list (string * aval));
  o_unparsed : list string;
  o_remainder : string
}.

Definition octx_eqb (a b : option string * list (string * aval)) : bool :=
  opt_str_eqb (fst a) (fst b) && kwargs_eqb (snd a) (snd b).

Definition pobs_eqb (a b : pobs) : bool :=
  list_eqb octx_eqb (o_ctxs a) (o_ctxs b)
  && list_eqb String.eqb (o_unparsed a) (o_unparsed b)
  && String.eqb (o_remainder a) (o_remainder b).

Definition res_eqb {A} (eqb : A -> A -> bool) (a b : result A) : bool :=
  match a, b with
  | Ok x, Ok y => eqb x y
  | Err e1, Err e2 => err_eqb e1 e2
  | _, _ => false
  end.

(** Tokens before / after the first bare "--". *)
Fixpoint before_ddash (argv : list string) : list string :=
  match argv with
  | [] => []
  | t :: l => if String.eqb t "--" then [] else t :: before_ddash l
  end.

Fixpoint after_ddash (argv : list string) : list string :=
  match argv with
  | [] => []
  | t :: l => if String.eqb t "--" then l else after_ddash l
  end.

Definition plain (t : string) : bool := negb (starts_with "-" t).

Definition names_ctx (tok : string) (c : ctxspec) : bool :=
  match cx_name c with
  | Some n => String.eqb n tok || mem tok (cx_aliases c)
  | None => false
  end.

Definition task_named (cs : list ctxspec) (tok : string) : option ctxspec :=
  find (names_ctx tok) cs.

Definition is_task_name (cs : list ctxspec) (tok : string) : bool :=
  existsb (names_ctx tok) cs.

(** The context description an observed context name refers to
    ([None] = the initial context). *)
Definition spec_of_name (cs : list ctxspec) (init : option ctxspec) (n : option string)
  : option ctxspec :=
  match n with
  | None => init
  | Some s => find (fun c => opt_str_eqb (cx_name c) (Some s)) cs
  end.

(** The argument of a context a flag spelling belongs to. *)
Definition arg_of_flag (c : ctxspec) (tok : string) : option argspec :=
  find (fun a => mem tok (arg_flags a)) (cx_args c).

Definition arg_of_inverse (c : ctxspec) (tok : string) : option argspec :=
  find (fun a => match inverse_of a with Some s => String.eqb s tok | None => false end)
       (cx_args c).

Definition has_positionals (c : ctxspec) : bool := existsb a_positional (cx_args c).

Fixpoint kw_get (k : string) (d : list (string * aval)) : option aval :=
  match d with
  | [] => None
  | (k', v) :: d' => if String.eqb k k' then Some v else kw_get k d'
  end.

Definition is_ok {A} (r : result A) : bool := match r with Ok _ => true | Err _ => false end.
