(** C13, stated independently of the poll loop.

    "For any text available on the input stream, a command that reads its standard
    input receives exactly that text, encoded in the effective encoding, in order
    and without duplication, followed by end-of-file once the input stream is
    exhausted (when no pty is used) ...  Input is mirrored to the output stream
    exactly when requested, or by default when the input is a terminal and no pty
    is used, and disabling the input stream forwards nothing while watcher
    responses still get through." *)
From InvokeVerif Require Export Common.StdinScript Spec.C02Spec.
Local Open Scope N_scope.

(** The units that were available before the worker may stop: everything read
    while the command runs, and what was already available when it finished
    (the data items directly after [SFinish]). *)
Fixpoint deliverable (fin : bool) (s : list sread) : list (list N) :=
  match s with
  | [] => []
  | SFinish :: r => deliverable true r
  | SData u :: r => u :: deliverable fin r
  | SNotReady :: r | SEof :: r => if fin then [] else deliverable fin r
  end.

(** Was the stream seen exhausted before the worker may stop? *)
Fixpoint eof_reached (fin : bool) (s : list sread) : bool :=
  match s with
  | [] => false
  | SFinish :: r => eof_reached true r
  | SData _ :: r => eof_reached fin r
  | SEof :: _ => true
  | SNotReady :: r => if fin then false else eof_reached fin r
  end.

Definition finishes (s : list sread) : bool :=
  existsb (fun x => match x with SFinish => true | _ => false end) s.

(** Everything read before the command finished (must be delivered whatever
    happens afterwards). *)
Fixpoint before_finish (s : list sread) : list (list N) :=
  match s with
  | [] => []
  | SFinish :: _ => []
  | SData u :: r => u :: before_finish r
  | _ :: r => before_finish r
  end.

(** The text on the input stream: the characters of a text-mode stream, the
    decoding of the WHOLE byte sequence of a byte-mode stream. *)
Definition stream_text (m : in_mode) (e : enc) (units : list (list N)) : text :=
  match m with
  | MText => List.concat units
  | MBytes => ref_decode e (List.concat units)
  end.

Definition echo_wanted (echo : option bool) (pty tty : bool) : bool :=
  match echo with
  | Some b => b                    (* requested / refused explicitly *)
  | None => tty && negb pty        (* default: terminal input, no pty *)
  end.

Definition opt_bytes_eqb (a b : option bytes) : bool :=
  match a, b with
  | Some x, Some y => bytes_eqb x y
  | None, None => true
  | _, _ => false
  end.

(** [stream = None]: input stream disabled. *)
Definition spec_ok (e : enc) (stream : option (in_mode * bool)) (echo : option bool) (pty : bool)
           (script : list sread) (responses : list text)
           (got_received : option bytes) (got_closes : nat) (got_echo : text)
           (got_terminated : bool) (got_responses : option bytes) : bool :=
  opt_bytes_eqb got_responses (encode e (List.concat responses)) &&
  match stream with
  | None =>
      opt_bytes_eqb got_received (Some []) && Nat.eqb got_closes 0 && text_eqb got_echo []
  | Some (m, tty) =>
      let txt := stream_text m e (deliverable false script) in
      match encode e txt with
      | None => true               (* text not representable in the effective encoding: out of scope *)
      | Some want =>
          opt_bytes_eqb got_received (Some want) &&
          Nat.eqb got_closes (if pty then 0 else if eof_reached false script then 1 else 0)%nat &&
          text_eqb got_echo (if echo_wanted echo pty tty then txt else []) &&
          Bool.eqb got_terminated (finishes script)
      end
  end.
