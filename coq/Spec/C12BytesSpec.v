(** C12 when the output arrives as UTF-8 BYTES and a read may end inside a character.

    "The text the command has produced" after some reads of a stream is the sequence of
    WHOLE characters in the bytes that stream has delivered so far -- of that stream
    alone: what the other stream delivers, and when, is not part of it.  [whole_chars]
    reads well-formed UTF-8 directly (lead byte -> length; an incomplete last character
    contributes nothing yet); the text a read adds is what it appends to that sequence.
    The responses are then judged by [spec_ok] (Spec/C12Spec.v) on these text reads.
    Nothing here refers to a decoder object or its state. *)
From Coq Require Import NArith.
From InvokeVerif Require Export Spec.C12Spec.
Local Open Scope N_scope.

Fixpoint whole_chars (bs : list N) : list N :=
  match bs with
  | [] => []
  | b :: r =>
      if b <? 128 then b :: whole_chars r
      else if b <? 224 then
        match r with
        | c :: r1 => ((b - 192) * 64 + (c - 128)) :: whole_chars r1
        | _ => []
        end
      else if b <? 240 then
        match r with
        | c :: d :: r2 => (((b - 224) * 64 + (c - 128)) * 64 + (d - 128)) :: whole_chars r2
        | _ => []
        end
      else
        match r with
        | c :: d :: e :: r3 =>
            ((((b - 240) * 64 + (c - 128)) * 64 + (d - 128)) * 64 + (e - 128)) :: whole_chars r3
        | _ => []
        end
  end.

Definition str_bytes (s : string) : list N := map N_of_ascii (chars s).
Definition cps_text (t : list N) : string := string_of_list_ascii (map ascii_of_N t).

(** [bo] / [be]: the bytes stdout / stderr have delivered so far. *)
Fixpoint text_sched (bo be : list N) (sched : list event) : list event :=
  match sched with
  | [] => []
  | (sid, c) :: rest =>
      let before := if sid then be else bo in
      let after := (before ++ str_bytes c)%list in
      (sid, cps_text (skipn (List.length (whole_chars before)) (whole_chars after)))
        :: text_sched (if sid then bo else after) (if sid then after else be) rest
  end.

Definition spec_ok_bytes (ws : list watcher) (sched : list event) (how : via)
           (writes : list (list string)) (raised : bool * bool) (exc : option exn) : bool :=
  spec_ok ws (text_sched [] [] sched) how writes raised exc.
