(** C07: parsing either returns a result or raises the documented parse error,
    and it raises exactly in the documented situations.

    [spec_ok] judges an *observed* outcome from the inputs alone.  It never
    runs the parser model: the "exactly when" half is a reference with explicit
    don't-care regions -- decidable *sufficient* conditions under which an
    error is due (B1-B4, one per documented situation; B5, unconvertible values,
    counted under "unknown token") and one decidable region
    of plainly well-formed command lines on which no error is due (C).  Outside
    those regions only the class of the outcome is judged (A). *)
From InvokeVerif Require Export Spec.ParserObs.

Section Spec.
Variable cs : list ctxspec.          (* the parser's task contexts *)
Variable init : option ctxspec.      (* its initial context, if any *)
Variable ign : bool.                 (* ignore_unknown *)

(** A. The only outcomes: a result, or ParseError. *)
Definition documented_outcome (obs : result pobs) : bool :=
  match obs with Ok _ => true | Err EParse => true | Err _ => false end.

(** B1. Missing positional arguments are an error: no returned context has a
    positional argument whose value is None. *)
Definition ctx_complete (oc : option string * list (string * aval)) : bool :=
  match spec_of_name cs init (fst oc) with
  | None => true
  | Some c =>
      forallb (fun a => negb (a_positional a) ||
                        match kw_get (arg_name a) (snd oc) with
                        | Some ANone => false
                        | _ => true
                        end) (cx_args c)
  end.

Definition b1_no_missing_positionals (o : pobs) : bool := forallb ctx_complete (o_ctxs o).

(** B2. A value-requiring flag left without a value is an error: when the
    whole body was parsed and its last token is literally a flag of the last
    context, for an argument that takes a (non-optional) value, the parse must
    not succeed. *)
Definition needs_value (a : argspec) : bool := takes_value a && negb (a_optional a).

Definition b2_dangling_flag (body : list string) (o : pobs) : bool :=
  match o_unparsed o, rev body, rev (o_ctxs o) with
  | [], t :: _, oc :: _ =>
      match spec_of_name cs init (fst oc) with
      | Some c => match arg_of_flag c t with
                  | Some a => needs_value a
                  | None => false
                  end
      | None => false
      end
  | _, _, _ => false
  end.

(** B3. An unknown token is an error (or, with ignore_unknown, ends up in
    [unparsed]): when no context has positional arguments, a plain word that is
    not a task name and does not follow a dash-token cannot be anything else. *)
Fixpoint stray_word (prev_plain : bool) (body : list string) : bool :=
  match body with
  | [] => false
  | t :: l =>
      (prev_plain && plain t && negb (is_task_name cs t)) || stray_word (plain t) l
  end.

Definition no_positionals_anywhere : bool :=
  negb (existsb has_positionals cs)
  && match init with Some c => negb (has_positionals c) | None => true end.

Definition b3_unknown_due (body : list string) : bool :=
  no_positionals_anywhere && stray_word true body.

(** B4. An ambiguous token after an optional-value flag is an error: the
    command line starts  <task> <optional-value flag of that task> <x>  and
    either x is a task name or the task still lacks a positional argument
    (list-kind positionals start as [] and are never "lacking"). *)
Definition b4_ambiguity_due (body : list string) : bool :=
  match body with
  | c0 :: f :: x :: _ =>
      plain c0 &&
      match init with Some ic => negb (has_positionals ic) | None => true end &&
      match task_named cs c0 with
      | Some c =>
          match arg_of_flag c f with
          | Some a =>
              a_optional a && takes_value a && negb (akind_eqb (a_kind a) KList)
              && ((plain x && is_task_name cs x)
                  || existsb (fun p => a_positional p && aval_is_none (a_default p)
                                       && negb (akind_eqb (a_kind p) KList)) (cx_args c))
          | None => false
          end
      | None => false
      end
  | _ => false
  end.

(** B5. A value its argument's type cannot convert is an error.  The property
    lists four situations; a text that is not an integer given to an int-typed
    flag is an unusable token and is counted under the first ("an unknown
    token").  Sufficient condition judged here: the command line starts
    <task> <non-optional value flag of that task> <x>  with x a text the
    argument's type does not convert ([castable]: not of the form [+-]?[0-9]+ for
    an int, rejected by the oracle for another callable type). *)
Definition b5_bad_value_due (body : list string) : bool :=
  match body with
  | c0 :: f :: x :: _ =>
      plain c0 &&
      match init with Some ic => negb (has_positionals ic) | None => true end &&
      match task_named cs c0 with
      | Some c =>
          match arg_of_flag c f with
          | Some a =>
              takes_value a && negb (a_optional a) && negb (castable a x)
          | None => false
          end
      | None => false
      end
  | _ => false
  end.

(** C. Plainly well-formed command lines: task names (of tasks without
    positional arguments), each followed by exact flags of that task -- value
    flags (not optional-value, not repeated unless list-kind) followed by one
    plain value that is not a task name and is an integer where an integer is
    expected.  On these no error is due. *)
Definition intlike (s : string) : bool :=
  match parse_int s with Some _ => true | None => false end.

Definition plain_value (a : argspec) (t : string) : bool :=
  plain t && negb (is_task_name cs t)
  && castable a t.

Fixpoint plain_run (cur : option ctxspec) (given : list string) (pending : option argspec)
         (toks : list string) : bool :=
  match toks with
  | [] => match pending with None => true | Some _ => false end
  | t :: l =>
      match pending with
      | Some a => plain_value a t && plain_run cur given None l
      | None =>
          if plain t then
            match task_named cs t with
            | Some c => negb (has_positionals c) && plain_run (Some c) [] None l
            | None => false
            end
          else
            match cur with
            | None => false
            | Some c =>
                match arg_of_flag c t with
                | Some a =>
                    if takes_value a then
                      negb (a_optional a)
                      && (akind_eqb (a_kind a) KList || negb (mem (arg_name a) given))
                      && plain_run cur (arg_name a :: given) (Some a) l
                    else
                      (* counters need an integer (or bool) to count from *)
                      (negb (a_incrementable a) ||
                       match a_default a with AInt _ | ABool _ => true | _ => false end)
                      && plain_run cur given None l
                | None =>
                    match arg_of_inverse c t with
                    | Some _ => plain_run cur given None l
                    | None => false
                    end
                end
            end
      end
  end.

Definition c_plainly_valid (argv : list string) : bool :=
  match init with Some ic => negb (has_positionals ic) | None => true end
  && negb (existsb (String.eqb "--") argv)
  && plain_run None [] None argv.

Definition spec_ok (argv : list string) (obs : result pobs) : bool :=
  let body := before_ddash argv in
  documented_outcome obs
  && match obs with
     | Ok o =>
         b1_no_missing_positionals o
         && negb (b2_dangling_flag body o)
         && negb (b3_unknown_due body && (negb ign || match o_unparsed o with [] => true | _ => false end))
         && negb (b4_ambiguity_due body)
         && negb (b5_bad_value_due body)
     | Err _ => negb (c_plainly_valid argv)
     end.

End Spec.
