(** C03: every setting comes from the highest-precedence level that defines it.

    Stated with a per-setting oracle that never merges anything: for a path [p],
    look at the levels from the highest precedence downwards and take what the
    first one defining [p] says (a leaf value, or "a section here").  The view
    must agree with the oracle at every path, every path defined by any level
    must be visible (so sections are unions), the environment level must hold
    exactly the settings the environment names (converted by the type of the
    setting as the other levels define it), and each file location contributes
    its first existing candidate in the documented suffix order.  Nothing here
    depends on the order of the load calls: the levels are read off the script
    as "what was supplied for that level". *)
From InvokeVerif Require Export Common.Tree Common.StrUtil Model.ConfigTypes.
From InvokeVerif Require Export Spec.C16Spec.

(** Documented precedence, lowest first, and documented suffix preference. *)
Definition doc_order : list string :=
  ["defaults"; "collection"; "system"; "user"; "project"; "env"; "runtime"; "overrides";
   "modifications"].
Definition doc_suffixes : list string := ["yaml"; "yml"; "json"; "py"].

(** * The per-setting oracle *)
Inductive shape := SLeaf (v : value) | SNode.

Definition shape_of (t : tree) : shape :=
  match t with Leaf v => SLeaf v | Node _ => SNode end.

Definition shape_at (p : path) (t : tree) : option shape :=
  match lookup p t with Some t' => Some (shape_of t') | None => None end.

Definition shape_eqb (a b : option shape) : bool :=
  match a, b with
  | None, None => true
  | Some SNode, Some SNode => true
  | Some (SLeaf x), Some (SLeaf y) => value_eqb x y
  | _, _ => false
  end.

(** [levels] lowest precedence first: the last level defining [p] decides. *)
Fixpoint oracle (p : path) (levels : list tree) : option shape :=
  match levels with
  | [] => None
  | l :: rest =>
      match oracle p rest with
      | Some s => Some s
      | None => shape_at p l
      end
  end.

(** Every path of a tree, sections (also empty ones) included. *)
Fixpoint all_paths (t : tree) : list path :=
  match t with
  | Leaf _ => [[]]
  | Node kids =>
      [] :: (fix go (l : list (string * tree)) : list path :=
               match l with
               | [] => []
               | (k, c) :: l' => map (cons k) (all_paths c) ++ go l'
               end) kids
  end.

(** * Type consistency: a path is a section in every level defining it, or a
    leaf in every level defining it *)
Definition kinds_at (p : path) (levels : list tree) : list bool :=
  flat_map (fun l => match lookup p l with Some t => [is_node t] | None => [] end) levels.

Definition consistent_at (p : path) (levels : list tree) : bool :=
  match kinds_at p levels with
  | [] => true
  | b :: r => forallb (Bool.eqb b) r
  end.

Definition levels_tc (levels : list tree) : bool :=
  forallb (fun p => consistent_at p levels) (flat_map all_paths levels).

(** * Reading the supplied levels off a script *)
Definition norm (t : tree) : tree := match t with Leaf _ => Node [] | Node _ => t end.

Definition exists_at (fs : fsys) (loc s : string) : bool :=
  match fs_get fs loc s with Some _ => true | None => false end.

(** First existing candidate of a location in the documented suffix order. *)
Definition first_existing (fs : fsys) (loc : string) : option (string * fentry) :=
  match filter (exists_at fs loc) doc_suffixes with
  | s :: _ => match fs_get fs loc s with Some e => Some (s, e) | None => None end
  | [] => None
  end.

Definition last_of {A} (f : op -> option A) (ops : list op) (dflt : A) : A :=
  fold_left (fun acc o => match f o with Some a => a | None => acc end) ops dflt.

Definition is_set_op (o : op) : bool :=
  match o with SetProjectLocation _ | SetRuntimePath _ => true | _ => false end.
Definition is_env_op (o : op) : bool :=
  match o with LoadShellEnv _ => true | _ => false end.
Definition is_load_op (o : op) : bool :=
  match o with
  | LoadDefaults _ | LoadOverrides _ | LoadCollection _ | LoadSystem | LoadUser
  | LoadProject | LoadRuntime
  | LoadDefaultsD _ | LoadOverridesD _ | LoadCollectionD _ | LoadSystemD | LoadUserD
  | LoadProjectD | LoadRuntimeD | Merge => true
  | _ => false
  end.

(** A load call with [merge=False] supplies the same level as the plain one. *)
Definition undefer (o : op) : op :=
  match o with
  | LoadDefaultsD t => LoadDefaults t
  | LoadOverridesD t => LoadOverrides t
  | LoadCollectionD t => LoadCollection t
  | LoadSystemD => LoadSystem
  | LoadUserD => LoadUser
  | LoadProjectD => LoadProject
  | LoadRuntimeD => LoadRuntime
  | _ => o
  end.

Definition is_deferred (o : op) : bool :=
  match o with
  | LoadDefaultsD _ | LoadOverridesD _ | LoadCollectionD _ | LoadSystemD | LoadUserD
  | LoadProjectD | LoadRuntimeD => true
  | _ => false
  end.

(** After deferred loads the view is meaningful only once something merged:
    the script must then end with [merge()] or [load_shell_env()]. *)
(** Re-pointing the project location / runtime path after that level was loaded
    empties the level without merging: like a deferred load. *)
Fixpoint repoints (lp lr : bool) (ops : list op) : bool :=
  match ops with
  | [] => false
  | o :: rest =>
      match undefer o with
      | LoadProject => repoints true lr rest
      | LoadRuntime => repoints lp true rest
      | SetProjectLocation _ => lp || repoints false lr rest
      | SetRuntimePath _ => lr || repoints lp false rest
      | _ => repoints lp lr rest
      end
  end.

Definition settled (ops : list op) : bool :=
  negb (existsb is_deferred ops || repoints false false ops) ||
  match last ops Merge with
  | Merge | LoadShellEnv _ => true
  | _ => false
  end.

(** Scripts C03 talks about: level loads and (re-)pointings of the project
    location / runtime path in any order, then (optionally) the environment,
    once. *)
Fixpoint wf_order (ops : list op) : bool :=
  match ops with
  | [] => true
  | [o] => is_load_op o || is_set_op o || is_env_op o
  | o :: rest => (is_load_op o || is_set_op o) && wf_order rest
  end.
Definition wf_script (ops : list op) : bool := wf_order ops && settled ops.

Record supplied := mkSupplied {
  s_defaults : tree; s_collection : tree; s_system : tree; s_user : tree; s_project : tree;
  s_runtime : tree; s_overrides : tree;
  s_unreadable : bool;                    (* a file that must be read cannot be *)
  s_sfx : list (option string);           (* suffix each of system/user/project must be read from *)
  s_env : option (list (string * string)) (* the environment, if it is loaded *)
}.

Definition located (fs : fsys) (loaded : bool) (loc : option string)
  : tree * bool * option string :=
  match loaded, loc with
  | true, Some l =>
      match first_existing fs l with
      | Some (s, FData t) => (norm t, false, Some s)
      | Some (s, FIOErr) => (Node [], true, Some s)
      | None => (Node [], false, None)
      end
  | _, _ => (Node [], false, None)
  end.

Definition has_op (f : op -> bool) (ops : list op) : bool := existsb f ops.

(** The calls after the last one satisfying [f] (all of them if there is none):
    re-pointing a location forgets what was loaded from the old one. *)
Fixpoint after_last (f : op -> bool) (ops : list op) : list op :=
  match ops with
  | [] => []
  | o :: rest => if existsb f rest then after_last f rest
                 else if f o then rest else o :: rest
  end.

Definition supplied_of (fs : fsys) (i : init_args) (ops0 : list op) : supplied :=
  let ops := map undefer ops0 in
  let d := last_of (fun o => match o with LoadDefaults t => Some t | _ => None end) ops (i_defaults i) in
  let o := last_of (fun o => match o with LoadOverrides t => Some t | _ => None end) ops (i_overrides i) in
  let col := last_of (fun o => match o with LoadCollection t => Some t | _ => None end) ops (Node []) in
  let ploc := last_of (fun o => match o with SetProjectLocation l => Some l | _ => None end) ops (i_proj i) in
  let rtp := last_of (fun o => match o with SetRuntimePath p => Some p | _ => None end) ops (i_rt i) in
  let sy := located fs (negb (i_lazy i) || has_op (fun o => match o with LoadSystem => true | _ => false end) ops) (Some "sys") in
  let us := located fs (negb (i_lazy i) || has_op (fun o => match o with LoadUser => true | _ => false end) ops) (Some "usr") in
  let pr := located fs (has_op (fun o => match o with LoadProject => true | _ => false end)
                               (after_last (fun o => match o with SetProjectLocation _ => true | _ => false end) ops))
                       ploc in
  let rt :=
    match has_op (fun o => match o with LoadRuntime => true | _ => false end)
                 (after_last (fun o => match o with SetRuntimePath _ => true | _ => false end) ops), rtp with
    | true, Some (stem, sfx) =>
        if negb (mem sfx doc_suffixes) then (Node [], true)     (* no loader for that suffix *)
        else
        match fs_get fs stem sfx with
        | Some (FData t) => (norm t, false)
        | Some FIOErr => (Node [], true)
        | None => (Node [], false)
        end
    | _, _ => (Node [], false)
    end in
  mkSupplied (norm d) (norm col) (fst (fst sy)) (fst (fst us)) (fst (fst pr)) (fst rt) (norm o)
             (snd (fst sy) || snd (fst us) || snd (fst pr) || snd rt)
             [snd sy; snd us; snd pr]
             (last_of (fun o => match o with LoadShellEnv e => Some (Some e) | _ => None end) ops None).

(** The eight non-environment levels, lowest first; [with_env] inserts the
    environment level at its documented place. *)
Definition below_env (s : supplied) : list tree :=
  [s_defaults s; s_collection s; s_system s; s_user s; s_project s].
Definition above_env (s : supplied) : list tree := [s_runtime s; s_overrides s].
Definition levels8 (s : supplied) : list tree := below_env s ++ above_env s.
Definition levels9 (s : supplied) (envl : tree) : list tree :=
  below_env s ++ [envl] ++ above_env s.

(** * The environment level *)
(** Settings (leaf paths with their value) as the non-environment levels define them. *)
Definition settings (ls : list tree) : list (path * value) :=
  flat_map (fun p => match oracle p ls with Some (SLeaf v) => [(p, v)] | _ => [] end)
           (flat_map all_paths ls).

Definition ambiguous_settings (st : list (path * value)) : bool :=
  existsb (fun a => existsb (fun b => negb (path_eqb (fst a) (fst b)) &&
                                      String.eqb (var_name (fst a)) (var_name (fst b))) st) st.

Definition named (pfx : string) (env : list (string * string)) (st : list (path * value))
  : list (path * result value) :=
  flat_map (fun pv => match lookup_env (pfx ++ var_name (fst pv)) env with
                      | Some s => [(fst pv, convert (snd pv) s)]
                      | None => []
                      end) st.

Definition env_outcome_ok (pfx : string) (env : list (string * string)) (ls : list tree)
           (obs : result tree) : bool :=
  let st := settings ls in
  if ambiguous_settings st then match obs with Err EAmbigEnv => true | _ => false end
  else
    let nm := named pfx env st in
    if existsb (fun pc => is_err (snd pc)) nm then
      match obs with
      | Err e => existsb (fun pc => match snd pc with Err e' => err_eqb e e' | Ok _ => false end) nm
      | Ok _ => false
      end
    else
      match obs with
      | Err _ => false
      | Ok envl =>
          let want := flat_map (fun pc => match snd pc with Ok v => [(fst pc, v)] | Err _ => [] end) nm in
          let got := leaf_paths envl in
          wf envl && no_empty_sections envl && is_node envl &&
          subset_pv want got && subset_pv got want
      end.

(** * Judging an observed run of a script *)
Definition sfx_ok (want got : list (option string)) : bool :=
  (fix go (w g : list (option string)) : bool :=
     match w, g with
     | [], [] => true
     | Some s :: w', Some s' :: g' => String.eqb s s' && go w' g'
     | Some _ :: _, None :: _ => false
     | None :: w', _ :: g' => go w' g'          (* no candidate exists: nothing to read *)
     | _, _ => false
     end) want got.

(** What the property says about a view given the nine level contents. *)
Definition view_ok (levels : list tree) (view : tree) : bool :=
  wf view &&
  forallb (fun p => shape_eqb (shape_at p view) (oracle p levels))
          (all_paths view ++ flat_map all_paths levels).

(** Observation: the final view, the environment level and the suffixes the
    system/user/project data were read from -- or the exception class. *)
Definition spec_ok (fs : fsys) (i : init_args) (ops : list op) (pfx : string)
           (obs : result (tree * tree * list (option string))) : bool :=
  if negb (wf_script ops) then true else
  let s := supplied_of fs i ops in
  if negb (levels_tc (levels8 s) && forallb wf (levels8 s)) then true else
  if s_unreadable s then match obs with Err EOther => true | _ => false end
  else
    match obs with
    | Err e =>
        match s_env s with
        | Some env => env_outcome_ok pfx env (levels8 s) (Err e)
        | None => false
        end
    | Ok (view, envl, sfxs) =>
        match s_env s with
        | Some env => env_outcome_ok pfx env (levels8 s) (Ok envl)
        | None => tree_eqb envl (Node [])
        end &&
        sfx_ok (s_sfx s) sfxs &&
        view_ok (levels9 s envl) view
    end.
