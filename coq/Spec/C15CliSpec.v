(** C15 / C18 / C14, the command-line part: which configuration a task's [run()]
    resolves against when core flags were given.

    - each run-option flag given (truthy) on the command line is a setting of the
      overrides level, with the documented value; nothing else is in that level; the
      four sections run / tasks / sudo / timeouts are always there;
    - "configured" in the resolution of C15 therefore reads: the flag's value if the
      flag was given, else what the lower levels configure;
    - the command timeout: per-call value if given, else -T (a -T of 0 counts as not
      given), else the configured [timeouts.command];
    - the runtime configuration file is the -f value, else INVOKE_RUNTIME_CONFIG. *)
From InvokeVerif Require Export Model.ProgramTypes Spec.C15Spec.

Definition flag_value (a : coreargs) (o : opt) : option oval :=
  match o with
  | Warn => if a_warn_only a then Some (OBool true) else None
  | Pty => if a_pty a then Some (OBool true) else None
  | Echo => if a_echo a then Some (OBool true) else None
  | Dry => if a_dry a then Some (OBool true) else None
  | Hide => match a_hide a with
            | Some s => if String.eqb s "" then None else Some (OStr s)
            | None => None
            end
  | _ => None
  end.

Definition flag_timeout (a : coreargs) : option oval :=
  match a_timeout a with
  | Some n => if Z.eqb n 0 then None else Some (OInt n)
  | None => None
  end.

Definition documented_config (a : coreargs) (lower : config) : config :=
  mkCfg (fun o => match flag_value a o with Some v => Some v | None => cf lower o end)
        (match flag_timeout a with Some v => v | None => cf_timeout lower end).

(** the settings of the overrides level, in closed form *)
Definition expected_overrides (a : coreargs) : list (path * value) :=
  (if a_warn_only a then [(["run"; "warn"], VBool true)] else [])
  ++ (if a_pty a then [(["run"; "pty"], VBool true)] else [])
  ++ (match a_hide a with
      | Some s => if String.eqb s "" then [] else [(["run"; "hide"], VStr s)]
      | None => []
      end)
  ++ (if a_echo a then [(["run"; "echo"], VBool true)] else [])
  ++ (if a_dry a then [(["run"; "dry"], VBool true)] else [])
  ++ (if a_no_dedupe a then [(["tasks"; "dedupe"], VBool false)] else [])
  ++ (match a_sudo_password a with Some p => [(["sudo"; "password"], VStr p)] | None => [] end)
  ++ (match a_timeout a with
      | Some n => if Z.eqb n 0 then [] else [(["timeouts"; "command"], VInt n)]
      | None => []
      end).

Definition pv_eqb (x y : path * value) : bool :=
  path_eqb (fst x) (fst y) && value_eqb (snd x) (snd y).
Definition pvs_subset (l1 l2 : list (path * value)) : bool :=
  forallb (fun x => existsb (pv_eqb x) l2) l1.

Definition has_section (t : tree) (k : string) : bool :=
  match t with
  | Node kids => match get k kids with Some (Node _) => true | _ => false end
  | Leaf _ => false
  end.

Definition overrides_ok (a : coreargs) (obs : tree) : bool :=
  pvs_subset (leaf_paths obs) (expected_overrides a)
  && pvs_subset (expected_overrides a) (leaf_paths obs)
  && has_section obs "run" && has_section obs "tasks" && has_section obs "sudo"
  && has_section obs "timeouts".

Definition spec_ok_cli_r (strict : bool) (a : coreargs) (lower : config) (env_var : option string)
           (parent : env) (command : string) (k : kwargs)
           (obs_overrides : tree) (obs_runtime : option string) (obs : outcome) : bool :=
  overrides_ok a obs_overrides
  && opt_str_eqb obs_runtime (match a_config a with Some p => Some p | None => env_var end)
  && spec_ok_opts_r strict (documented_config a lower) parent command k obs.

Definition spec_ok_cli := spec_ok_cli_r true.
