(** C06: a config behaves like a nested dict under any history of edits and
    reloads.

    The reference is a plain nested dictionary.  It starts as the deep union of
    the levels (higher level on top).  Every operation of the history is applied
    to it with ordinary dict semantics, which also says what the operation must
    return or raise; the successful edits are remembered in a journal.  When a
    lower level is reloaded the reference becomes the journal replayed over the
    new union of the levels (writes create missing parents, deleting an absent
    key does nothing).  After every operation the observed deep view (read
    through the root) must equal the reference, the observed outcome must be the
    one the dictionary gives, and no exception other than KeyError /
    AttributeError for a genuinely absent key is acceptable.

    A held proxy ([p = c.a.b], used later) is a handle on the path it was
    fetched at: an operation through it is the same operation at that path.
    Handles whose section (or an ancestor) was deleted or overwritten by a dict
    after they were fetched, or BELOW whose section a dict was written (that
    dict object is then shared between the proxy's snapshot and the
    modifications level), are out of scope (F-C06b and the aliasing listed under
    not-modelled): judging of operations through that handle stops there
    ([detaches]). *)
From InvokeVerif Require Export Common.Tree Common.StrUtil Model.ConfigTypes Spec.C03Spec.

(** * Reference dictionary operations *)
(** Deep union, [b] on top of [a]. *)
Fixpoint overlay (a : tree) (b : tree) {struct b} : tree :=
  match b with
  | Leaf _ => b
  | Node kb =>
      match a with
      | Leaf _ => b
      | Node ka =>
          Node ((fix go (l : list (string * tree)) (acc : dict) {struct l} : dict :=
                   match l with
                   | [] => acc
                   | (k, vb) :: l' =>
                       go l' (set k (match get k acc with
                                     | Some va => overlay va vb
                                     | None => vb
                                     end) acc)
                   end) kb ka)
      end
  end.

Definition union_of (levels : list tree) : tree := fold_left overlay levels (Node []).

Inductive event := JSet (p : path) (v : tree) | JDel (p : path).

(** [d[k1][k2]...[kn] = v], creating missing parents. *)
Fixpoint set_path (d : dict) (p : path) (v : tree) : dict :=
  match p with
  | [] => d
  | [k] => set k v d
  | k :: p' =>
      match get k d with
      | Some (Node kids) => set k (Node (set_path kids p' v)) d
      | _ => set k (Node (set_path [] p' v)) d
      end
  end.

(** [del d[k1]...[kn]] if it is there. *)
Fixpoint del_path (d : dict) (p : path) : dict :=
  match p with
  | [] => d
  | [k] => remove k d
  | k :: p' =>
      match get k d with
      | Some (Node kids) => set k (Node (del_path kids p')) d
      | _ => d
      end
  end.

Definition apply_event (d : dict) (e : event) : dict :=
  match e with JSet p v => set_path d p v | JDel p => del_path d p end.

Definition replay (base : tree) (journal : list event) : dict :=
  fold_left apply_event journal (match base with Node d => d | Leaf _ => [] end).

(** * What a nested dict does for one operation *)
Definition miss_of (fl : flavour) : err := match fl with Item => EKey | Attr => EAttr end.
Definition leaf_err_of (fl : flavour) : err := match fl with Item => EType | Attr => EAttr end.

Fixpoint walk (fl : flavour) (d : dict) (p : path) : result dict :=
  match p with
  | [] => Ok d
  | k :: p' =>
      match get k d with
      | None => Err (miss_of fl)
      | Some (Node kids) => walk fl kids p'
      | Some (Leaf _) => Err (leaf_err_of fl)
      end
  end.

Definition tree_equiv (a b : tree) : bool := dict_equiv a b && dict_equiv b a.

(** Expected outcome and journal entries of a path operation on the reference
    [st].  [obs] is consulted only by [popitem] (a dict may pop any item: the
    observed one must be an item of the dict). *)
Definition nd_step (st : dict) (o : op) (obs : outcome) : outcome * list event :=
  match o with
  | Get fl kp k =>
      match walk fl st kp with
      | Err e => (OErr e, [])
      | Ok d => match get k d with Some t => (OVal t, []) | None => (OErr (miss_of fl), []) end
      end
  | SetV fl kp k v =>
      match walk fl st kp with
      | Err e => (OErr e, [])
      | Ok _ => (ONone, [JSet (kp ++ [k]) v])
      end
  | Del fl kp k =>
      match walk fl st kp with
      | Err e => (OErr e, [])
      | Ok d => if has k d then (ONone, [JDel (kp ++ [k])]) else (OErr (miss_of fl), [])
      end
  | Pop fl kp k dflt =>
      match walk fl st kp with
      | Err e => (OErr e, [])
      | Ok d => match get k d, dflt with
                | Some t, _ => (OVal t, [JDel (kp ++ [k])])
                | None, Some dv => (OVal dv, [])
                | None, None => (OErr EKey, [])
                end
      end
  | PopItem fl kp =>
      match walk fl st kp with
      | Err e => (OErr e, [])
      | Ok d =>
          match d with
          | [] => (OErr EKey, [])
          | _ => match obs with
                 | OPair k t => match get k d with
                                | Some t' => (OPair k t', [JDel (kp ++ [k])])
                                | None => (OErr EOther, [])     (* popped something that is not there *)
                                end
                 | _ => (OErr EOther, [])
                 end
          end
      end
  | Clear fl kp =>
      match walk fl st kp with
      | Err e => (OErr e, [])
      | Ok d => (ONone, map (fun k => JDel (kp ++ [k])) (keys d))
      end
  | SetDefault fl kp k dflt =>
      match walk fl st kp with
      | Err e => (OErr e, [])
      | Ok d => match get k d with
                | Some t => (OVal t, [])
                | None => let dv := match dflt with Some dv => dv | None => Leaf VNone end in
                          (OVal dv, [JSet (kp ++ [k]) dv])
                end
      end
  | Update fl kp kvs =>
      match walk fl st kp with
      | Err e => (OErr e, [])
      | Ok _ => (ONone, map (fun kv => JSet (kp ++ [fst kv]) (snd kv)) kvs)
      end
  | Contains fl kp k =>
      match walk fl st kp with Err e => (OErr e, []) | Ok d => (OBool (has k d), []) end
  | Len fl kp =>
      match walk fl st kp with Err e => (OErr e, []) | Ok d => (ONat (List.length d), []) end
  | Keys fl kp =>
      match walk fl st kp with Err e => (OErr e, []) | Ok d => (OKeys (keys d), []) end
  | View fl kp =>
      match walk fl st kp with Err e => (OErr e, []) | Ok d => (OVal (Node d), []) end
  | EqD fl kp same =>
      match walk fl st kp with Err e => (OErr e, []) | Ok _ => (OBool same, []) end
  | GetM fl kp k dflt =>
      match walk fl st kp with
      | Err e => (OErr e, [])
      | Ok d => match get k d with
                | Some t => (OVal t, [])
                | None => (OVal (match dflt with Some dv => dv | None => Leaf VNone end), [])
                end
      end
  | UpdateBoth fl kp kvs kw =>
      (* dict.update(mapping, **kw): the mapping, then the keyword arguments *)
      match walk fl st kp with
      | Err e => (OErr e, [])
      | Ok _ => (ONone, map (fun kv => JSet (kp ++ [fst kv]) (snd kv)) (kvs ++ kw))
      end
  | UpdateProxy fl kp src =>
      (* dict.update(other_section): every item of the other section *)
      match walk fl st kp with
      | Err e => (OErr e, [])
      | Ok _ => match walk fl st src with
                | Err e => (OErr e, [])
                | Ok sd => (ONone, map (fun kv => JSet (kp ++ [fst kv]) (snd kv)) sd)
                end
      end
  | RawSet fl kp sec k v =>
      (* r = d[...].get(sec); r[k] = v : the sub-dict IS the dict's *)
      match walk fl st kp with
      | Err e => (OErr e, [])
      | Ok d => match get sec d with
                | Some (Node _) => (ONone, [JSet (kp ++ [sec; k]) v])
                | _ => (OErr EType, [])
                end
      end
  | LeafAppend fl kp k s =>
      match walk fl st kp with
      | Err e => (OErr e, [])
      | Ok d => match get k d with
                | Some (Leaf (VList l)) => (ONone, [JSet (kp ++ [k]) (Leaf (VList (l ++ [s])))])
                | Some _ => (OErr EAttr, [])
                | None => (OErr (miss_of fl), [])
                end
      end
  | _ => (ONone, [])
  end.

Definition same_keys (a b : list string) : bool :=
  Nat.eqb (List.length a) (List.length b) && forallb (fun k => mem k b) a.

Definition out_match (want got : outcome) : bool :=
  match want, got with
  | ONone, ONone => true
  | OVal a, OVal b => tree_equiv a b
  | OPair k a, OPair k' b => String.eqb k k' && tree_equiv a b
  | OBool a, OBool b => Bool.eqb a b
  | ONat a, ONat b => Nat.eqb a b
  | OKeys a, OKeys b => same_keys a b
  | OErr e, OErr e' => err_eqb e e'
  | _, _ => false
  end.

(** * Histories *)
(** One observed step: the operation, its outcome, the deep view read through
    the root afterwards, the environment level afterwards. *)
Definition obs_step := (sop * outcome * tree * tree)%type.

Fixpoint is_prefix (p q : path) : bool :=
  match p, q with
  | [], _ => true
  | a :: p', b :: q' => String.eqb a b && is_prefix p' q'
  | _ :: _, [] => false
  end.

(** An event that takes the handle at [hp] out of scope: its section or an
    ancestor is deleted or overwritten by a dict, or a dict is written below it
    (the written object is then shared with the proxy's snapshot). *)
Definition detaches (e : event) (hp : path) : bool :=
  match e with
  | JDel p => is_prefix p hp
  | JSet p (Node _) => is_prefix p hp || is_prefix hp p
  | JSet _ (Leaf _) => false
  end.

Fixpoint hget (h : nat) (l : list (nat * path)) : option path :=
  match l with
  | [] => None
  | (m, p) :: l' => if Nat.eqb h m then Some p else hget h l'
  end.

Definition rebase_op (hp : path) (o : op) : option op :=
  match o with
  | Get fl kp k => Some (Get fl (hp ++ kp) k)
  | SetV fl kp k v => Some (SetV fl (hp ++ kp) k v)
  | Del fl kp k => Some (Del fl (hp ++ kp) k)
  | Pop fl kp k d => Some (Pop fl (hp ++ kp) k d)
  | PopItem fl kp => Some (PopItem fl (hp ++ kp))
  | Clear fl kp => Some (Clear fl (hp ++ kp))
  | SetDefault fl kp k d => Some (SetDefault fl (hp ++ kp) k d)
  | Update fl kp kvs => Some (Update fl (hp ++ kp) kvs)
  | Contains fl kp k => Some (Contains fl (hp ++ kp) k)
  | Len fl kp => Some (Len fl (hp ++ kp))
  | Keys fl kp => Some (Keys fl (hp ++ kp))
  | View fl kp => Some (View fl (hp ++ kp))
  | EqD fl kp b => Some (EqD fl (hp ++ kp) b)
  | GetM fl kp k d => Some (GetM fl (hp ++ kp) k d)
  | UpdateBoth fl kp kvs kw => Some (UpdateBoth fl (hp ++ kp) kvs kw)
  | UpdateProxy fl kp src => Some (UpdateProxy fl (hp ++ kp) src)
  | RawSet fl kp sec k v => Some (RawSet fl (hp ++ kp) sec k v)
  | LeafAppend fl kp k s => Some (LeafAppend fl (hp ++ kp) k s)
  | _ => None
  end.

Definition is_path_op (o : op) : bool :=
  match rebase_op [] o with Some _ => true | None => false end.

Definition is_reload (o : op) : bool :=
  match o with
  | LoadDefaults _ | LoadOverrides _ | LoadCollection _ | LoadShellEnv _ | LoadSystem | LoadUser
  | LoadProject | LoadRuntime | SetProjectLocation _ | SetRuntimePath _ => true
  | _ => false
  end.

Definition env_error (o : outcome) : bool :=
  match o with
  | OErr EAmbigEnv | OErr EValue | OErr EUncastable => true
  | _ => false
  end.

(** Reference state while judging a history. *)
Record rstate := mkR {
  r_st : dict;                      (* the nested dict *)
  r_journal : list event;           (* successful edits, oldest first *)
  r_loads : list op;                (* load/location calls so far, oldest first *)
  r_env : tree;                     (* the environment level as last observed *)
  r_handles : list (nat * path);
  r_dead : list nat                 (* handles out of scope *)
}.

Definition levels_now (fs : fsys) (i : init_args) (loads : list op) (envl : tree) : list tree :=
  levels9 (supplied_of fs i loads) envl.

Definition scope_ok (fs : fsys) (i : init_args) (loads : list op) (envl : tree) : bool :=
  let s := supplied_of fs i loads in
  negb (s_unreadable s) && levels_tc (levels_now fs i loads envl) &&
  forallb wf (levels_now fs i loads envl).

(** [Some true]: accept and stop judging (left the scope of the property);
    [Some false]: rejected; [None]: go on with the new state. *)
Definition judge_path_op (r : rstate) (o : op) (out : outcome) (view envl : tree)
  : option bool * rstate :=
  let '(want, evs) := nd_step (r_st r) o out in
  let st' := fold_left apply_event evs (r_st r) in
  let dead' := map fst (filter (fun hp => existsb (fun e => detaches e (snd hp)) evs) (r_handles r)) in
  let r' := mkR st' (r_journal r ++ evs) (r_loads r) (r_env r)
                (filter (fun hp => negb (existsb (fun e => detaches e (snd hp)) evs)) (r_handles r))
                (dead' ++ r_dead r) in
  if out_match want out && tree_equiv (Node st') view && tree_equiv envl (r_env r)
  then (None, r') else (Some false, r').

(** [merge=False] loads and re-pointings ([set_project_location],
    [set_runtime_path]) change a level without merging: the view must stay as it
    is, and the change becomes visible at the next call that always merges --
    [merge()], a reload of a dict level or [load_shell_env()].  What happens in
    between is not specified by the API (reads see the old view; writes happen
    to merge as a side effect; a file load merges only when it finds a file): a
    history that does anything else before such a call leaves the scope there. *)
Definition defers (o : op) : bool := is_deferred o || is_set_op o.

Definition settles (o : op) : bool :=
  match o with
  | Merge | LoadDefaults _ | LoadOverrides _ | LoadCollection _ | LoadShellEnv _ => true
  | _ => false
  end.

Definition merges (o : op) : bool :=
  is_reload o || match o with Merge => true | _ => false end.

Definition pending (loads : list op) : bool := defers (last loads Merge).

Definition judge_step (fs : fsys) (i : init_args) (r : rstate) (x : obs_step)
  : option bool * rstate :=
  let '(h, out, view, envl) := x in
  match h with
  | Plain o =>
      if defers o then
        let loads' := r_loads r ++ [o] in
        if negb (scope_ok fs i loads' envl) then (Some true, r)
        else if out_match ONone out && tree_equiv (Node (r_st r)) view && tree_equiv envl (r_env r)
        then (None, mkR (r_st r) (r_journal r) loads' (r_env r) (r_handles r) (r_dead r))
        else (Some false, r)
      else if pending (r_loads r) && negb (settles o) then (Some true, r)
      else if is_path_op o then judge_path_op r o out view envl
      else if merges o then
        let loads' := r_loads r ++ [o] in
        if env_error out then (Some true, r)                (* documented refusals: C16 *)
        else if negb (scope_ok fs i loads' envl) then (Some true, r)
        else
          let st' := replay (union_of (levels_now fs i loads' envl)) (r_journal r) in
          let env_same := match o with LoadShellEnv _ => true | _ => tree_equiv envl (r_env r) end in
          if out_match ONone out && tree_equiv (Node st') view && env_same
          then (None, mkR st' (r_journal r) loads' envl (r_handles r) (r_dead r))
          else (Some false, r)
      else match o with
           | Clone None =>
               if out_match ONone out && tree_equiv (Node (r_st r)) view && tree_equiv envl (r_env r)
               then (None, mkR (r_st r) (r_journal r) (r_loads r) (r_env r) [] [])
               else (Some false, r)
           | _ => (Some true, r)                            (* clone into a subclass: C11 *)
           end
  | Hold h fl kp =>
      match walk fl (r_st r) kp with
      | Ok _ =>
          if out_match ONone out && tree_equiv (Node (r_st r)) view
          then (None, mkR (r_st r) (r_journal r) (r_loads r) (r_env r)
                          ((h, kp) :: filter (fun hp => negb (Nat.eqb (fst hp) h)) (r_handles r))
                          (filter (fun d => negb (Nat.eqb d h)) (r_dead r)))
          else (Some false, r)
      | Err e =>
          if out_match (OErr e) out && tree_equiv (Node (r_st r)) view then (None, r)
          else (Some false, r)
      end
  | Via h o =>
      if pending (r_loads r) then (Some true, r)            (* see [pending] *)
      else if existsb (Nat.eqb h) (r_dead r) then (Some true, r)
      else match hget h (r_handles r) with
           | None => if out_match ONone out && tree_equiv (Node (r_st r)) view then (None, r)
                     else (Some false, r)
           | Some hp =>
               match rebase_op hp o with
               | None => if out_match ONone out then (None, r) else (Some false, r)
               | Some o' => judge_path_op r o' out view envl
               end
           end
  end.

Fixpoint judge (fs : fsys) (i : init_args) (r : rstate) (tr : list obs_step) : bool :=
  match tr with
  | [] => true
  | x :: rest =>
      match judge_step fs i r x with
      | (Some b, _) => b
      | (None, r') => judge fs i r' rest
      end
  end.

(** [view0]: the deep view right after construction. *)
Definition spec_ok (fs : fsys) (i : init_args) (view0 : tree) (tr : list obs_step) : bool :=
  if negb (scope_ok fs i [] (Node [])) then true
  else
    let st0 := replay (union_of (levels_now fs i [] (Node []))) [] in
    tree_equiv (Node st0) view0 &&
    judge fs i (mkR st0 [] [] (Node []) [] []) tr.
