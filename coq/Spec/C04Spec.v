(** C04: tasks run depth-first in request order; identical invocations run
    once.  Reference definitions written independently of the executor model:
    an iterative (work-list) depth-first traversal, "identical" as equality of
    *effective* arguments (after binding to the task's parameters), a
    first-execution filter, and the executable judgement [spec_ok]. *)
From InvokeVerif Require Export Common.PyCall.

(** ** depth-first order, as a work-list machine *)
Inductive work := Visit (c : call) | Emit (f : flat).

Fixpoint dfs_iter (fuel : nat) (todo : list work) (done : list flat) : list flat :=
  match fuel with
  | O => rev done
  | S n =>
      match todo with
      | [] => rev done
      | Emit f :: rest => dfs_iter n rest (f :: done)
      | Visit (Call t a k pre post) :: rest =>
          dfs_iter n (map Visit pre ++ Emit (t, a, k) :: map Visit post ++ rest) done
      end
  end.

Fixpoint size (c : call) : nat :=
  match c with
  | Call _ _ _ pre post =>
      S ((fix go (l : list call) : nat := match l with [] => 0 | x :: l' => size x + go l' end) pre +
         (fix go (l : list call) : nat := match l with [] => 0 | x :: l' => size x + go l' end) post)
  end.

Definition total_size (l : list call) : nat := fold_right (fun c n => size c + n) 0 l.

(** every node is visited once and emitted once *)
Definition dfs (calls : list call) : list flat :=
  dfs_iter (2 * total_size calls + 1) (map Visit calls) [].

(** ** what was requested *)
Definition requested (reqs : list request) (dflt : option call) : list call :=
  match reqs with
  | [] => match dflt with Some (Call t _ _ pre post) => [Call t [] [] pre post] | None => [] end
  | _ => map (fun r => match fst r with Call t _ _ pre post => Call t [] (snd r) pre post end) reqs
  end.

(** ** identical invocations: same task, same effective arguments *)
Definition eff (sig : nat -> params) (f : flat) : option entry :=
  match bind (sig (f_task f)) (f_args f) (f_kw f) with
  | Some b => Some (f_task f, b)
  | None => None
  end.

(** identical invocations: Python equality of the effective arguments (as
    Python programmers, and Call.__eq__, compare them) *)
Definition entry_eqb (a b : entry) : bool := Nat.eqb (fst a) (fst b) && kw_eqb (snd a) (snd b).
(** "exactly the arguments specified": type-strict *)
Definition entry_eqb_s (a b : entry) : bool := Nat.eqb (fst a) (fst b) && kw_eqb_s (snd a) (snd b).

(** skip an invocation identical to one already executed; keep the rest in order *)
Fixpoint run_once (executed : list entry) (l : list entry) : list entry :=
  match l with
  | [] => []
  | e :: l' => if existsb (entry_eqb e) executed then run_once executed l'
               else e :: run_once (e :: executed) l'
  end.

Fixpoint all_some {A} (l : list (option A)) : option (list A) :=
  match l with
  | [] => Some []
  | Some a :: l' => match all_some l' with Some r => Some (a :: r) | None => None end
  | None :: _ => None
  end.

(** ** the returned mapping: exactly the executed tasks, each with the return
    value of one of its executions (bodies return their position in the log) *)
Definition results_ok (log : list entry) (results : list (nat * nat)) : bool :=
  forallb (fun e => existsb (fun r => Nat.eqb (fst r) (fst e)) results) log &&
  forallb (fun r => match nth_error log (snd r) with
                    | Some e => Nat.eqb (fst e) (fst r)
                    | None => false
                    end) results &&
  forallb (fun r => Nat.eqb (List.length (filter (fun r' => Nat.eqb (fst r') (fst r)) results)) 1) results.

Definition spec_ok (sig : nat -> params) (reqs : list request) (dflt : option call)
           (dedupe_on : bool) (obs : result (list entry * list (nat * nat))) : bool :=
  match all_some (map (eff sig) (dfs (requested reqs dflt))) with
  | None => true            (* some call does not bind to its task's signature: outside the statement *)
  | Some order =>
      match obs with
      | Err _ => false
      | Ok (log, results) =>
          list_eqb entry_eqb_s (if dedupe_on then run_once [] order else order) log &&
          results_ok log results
      end
  end.

(** ** autoprint: the return value of an execution is printed iff its task is an
    autoprint task and the invocation is identical to a directly requested one
    (the implicitly chosen default task counts as requested) *)
Fixpoint positions_where {A} (f : A -> bool) (i : nat) (l : list A) : list nat :=
  match l with
  | [] => []
  | x :: l' => if f x then i :: positions_where f (S i) l' else positions_where f (S i) l'
  end.

Definition root_of (c : call) : flat := match c with Call t a k _ _ => (t, a, k) end.

Definition print_ok (same : entry -> entry -> bool) (sig : nat -> params) (autop : nat -> bool)
           (reqs : list request) (dflt : option call) (dedupe_on : bool) (keep : list entry -> list entry)
           (shown : list nat) : bool :=
  let calls := requested reqs dflt in
  match all_some (map (eff sig) (dfs calls)), all_some (map (eff sig) (map root_of calls)) with
  | Some order, Some direct =>
      list_eqb Nat.eqb
               (positions_where (fun e => autop (fst e) && existsb (same e) direct) 0
                                (if dedupe_on then keep order else order))
               shown
  | _, _ => true
  end.
