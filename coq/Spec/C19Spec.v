(** C19: each task sees its own namespace settings; session edits persist safely.

    Reference, stated per setting and without any merging: inside the body of
    the k-th executed task, the value of the setting at path [p] is
    - what the latest successful edit of an earlier (or this) body left there:
      the written value, or nothing if [p] or a section above it was deleted;
    - otherwise what the highest level defining it says: overrides, then the
      environment *as it is now* (for a setting some lower level defines,
      converted by the type of that setting), then the collection level = the
      configurations of the collections on the path from the root to where
      *this* task lives (outer wins), then the defaults.
    And nothing may escape [Executor.execute]. *)
From InvokeVerif Require Export Common.Namespace Model.ConfigTypes Spec.C16Spec Spec.C17Spec.

(** where a task lives: the configurations from the root down to the
    collection that binds it *)
Fixpoint home (c : coll) (tid : nat) {struct c} : option (list dict) :=
  match c with
  | Coll _ tasks _ subs _ _ cfg =>
      if existsb (fun kt => Nat.eqb (t_id (snd kt)) tid) tasks then Some [cfg]
      else
        (fix go (l : list (string * coll)) : option (list dict) :=
           match l with
           | [] => None
           | (_, sc) :: l' => match home sc tid with
                              | Some r => Some (cfg :: r)
                              | None => go l'
                              end
           end) subs
  end.

(** ** the journal of successful edits (nested-dict semantics) *)
Inductive jev :=
| JSet (p : path) (v : value)          (* d[..p] = v *)
| JDel (p : path)                      (* del d[..p] *)
| JClear (p : path)                    (* d[..p].clear(): everything below p goes, p stays *)
| JSetTree (p : path) (t : tree).      (* d[..p] = {...}: whatever was below p is replaced *)

Definition is_error (o : outcome) : bool := match o with OErr _ => true | _ => false end.

Fixpoint is_prefix (q p : path) : bool :=
  match q, p with
  | [], _ => true
  | a :: q', b :: p' => String.eqb a b && is_prefix q' p'
  | _ :: _, [] => false
  end.

Definition strict_prefix (q p : path) : bool := is_prefix q p && negb (path_eqb q p).

(** what the journal says about [p]: [None] untouched, [Some None] gone,
    [Some (Some v)] written.  [mw = false] is the specification. *)
Fixpoint jstate (mw : bool) (p : path) (j : list jev) (st : option (option value)) : option (option value) :=
  match j with
  | [] => st
  | JSet q v :: j' => jstate mw p j' (if path_eqb q p then Some (Some v) else st)
  | JDel q :: j' => jstate mw p j' (if is_prefix q p then Some None else st)
  | JClear q :: j' => jstate mw p j' (if strict_prefix q p then Some None else st)
  | JSetTree q t :: j' =>
      jstate mw p j'
             (if is_prefix q p then
                match leaf_at (skipn (List.length q) p) t with
                | Some v => Some (Some v)
                | None =>
                    (* nested-dict semantics: whatever else was below q is gone.
                       [mw] (only used to recognise the known finding F-C06a): the
                       written dict is merged instead -- what it does not mention
                       falls back to the other levels, earlier edits below q forgotten *)
                    if mw then None else Some None
                end
              else st)
  end.

Definition env_prefix : string := "INVOKE_".

Definition expected (mw : bool) (dflts overrides : tree) (cfgs : list dict) (e : list (string * string))
           (j : list jev) (p : path) : option value :=
  match jstate mw p j None with
  | Some r => r
  | None =>
      let lower := first_some (map (fun g => leaf_at p (Node g)) cfgs ++ [leaf_at p dflts]) in
      let from_env :=
        match lower, lookup_env (env_prefix ++ var_name p) e with
        | Some old, Some s => match convert old s with Ok v => Some v | Err _ => None end
        | _, _ => None
        end in
      first_some [leaf_at p overrides; from_env; lower]
  end.

(** ** what is outside the statement *)
(** settings paths mentioned anywhere *)
Definition jpaths (j : list jev) : list path :=
  flat_map (fun ev => match ev with
                      | JSet p _ | JDel p | JClear p => [p]
                      | JSetTree p t => map (fun q => p ++ fst q) (leaf_paths t)
                      end) j.

Fixpoint nub_paths (l : list path) : list path :=
  match l with
  | [] => []
  | p :: l' => if existsb (path_eqb p) l' then nub_paths l' else p :: nub_paths l'
  end.

Definition candidates (dflts overrides : tree) (cfgs : list dict) (j : list jev) (view : dict)
  : list path :=
  nub_paths
    (map fst (leaf_paths (Node view)) ++ map fst (leaf_paths dflts) ++ map fst (leaf_paths overrides) ++
     flat_map (fun g => map fst (leaf_paths (Node g))) cfgs ++ jpaths j).

(** every path of a tree, sections (also empty ones) included, root excluded *)
Fixpoint node_paths (t : tree) : list path :=
  match t with
  | Leaf _ => []
  | Node kids =>
      (fix go (l : list (string * tree)) : list path :=
         match l with
         | [] => []
         | (k, c) :: l' => [k] :: map (cons k) (node_paths c) ++ go l'
         end) kids
  end.

(** is there something at [q] right now -- a setting, or a section (even an
    empty one)?  Gone if the journal's last word on it is a deletion; there if
    it was written; otherwise there iff some level has it. *)
Definition alive (mw : bool) (dflts overrides : tree) (cfgs : list dict) (j : list jev) (q : path) : bool :=
  match jstate mw q j None with
  | Some None => false
  | Some (Some _) => true
  | None =>
      existsb (fun l => match lookup q l with Some _ => true | None => false end)
              (dflts :: overrides :: map (fun g => Node g) cfgs)
  end.

Definition all_candidates (dflts overrides : tree) (cfgs : list dict) (j : list jev) : list path :=
  node_paths dflts ++ node_paths overrides ++ flat_map (fun g => node_paths (Node g)) cfgs ++ jpaths j.

(** does a key exist at [p] right now? *)
Definition exists_now (mw : bool) (dflts overrides : tree) (cfgs : list dict) (e : list (string * string))
           (j : list jev) (p : path) : bool :=
  existsb (fun q => is_prefix p q && alive mw dflts overrides cfgs j q)
          (p :: all_candidates dflts overrides cfgs j).

(** the keys that exist right now directly below [p] (as paths) *)
Definition children_now (mw : bool) (dflts overrides : tree) (cfgs : list dict)
           (e : list (string * string)) (j : list jev) (p : path) : list path :=
  nub_paths
    (map (fun q => firstn (S (List.length p)) q)
         (filter (fun q => strict_prefix p q && alive mw dflts overrides cfgs j q)
                 (all_candidates dflts overrides cfgs j))).

Definition tree_ev (p : path) (t : tree) : jev :=
  match t with Leaf v => JSet p v | Node _ => JSetTree p t end.

(** the journal after a body: the successful edits, in order.  Whether
    [setdefault] / [pop(k, default)] change anything depends on whether the
    key exists at that moment. *)
Fixpoint journal_run (ex : list jev -> path -> bool) (kids : list jev -> path -> list path)
         (ops : list op) (outs : list outcome)
         (j : list jev) : list jev :=
  match ops, outs with
  | o :: ops', out :: outs' =>
      let evs :=
        if is_error out then []
        else match o with
             | SetV _ kp k t => [tree_ev (kp ++ [k]) t]
             | Del _ kp k => [JDel (kp ++ [k])]
             | Pop _ kp k None => [JDel (kp ++ [k])]
             | Pop _ kp k (Some _) => if ex j (kp ++ [k]) then [JDel (kp ++ [k])] else []
             | PopItem _ kp => match out with OPair k _ => [JDel (kp ++ [k])] | _ => [] end
             | Clear _ kp => map JDel (kids j kp)      (* clear(): every key that is there now *)
             | SetDefault _ kp k d =>
                 if ex j (kp ++ [k]) then []
                 else [match d with Some t => tree_ev (kp ++ [k]) t | None => JSet (kp ++ [k]) VNone end]
             | Update _ kp kvs => map (fun kv => tree_ev (kp ++ [fst kv]) (snd kv)) kvs
             | _ => []
             end in
      journal_run ex kids ops' outs' (j ++ evs)
  | _, _ => j
  end.

(** a written path must be a plain setting (or new) in every level, and lie
    under sections only *)
Fixpoint strict_prefixes (p : path) : list path :=
  match p with
  | [] => []
  | k :: p' => [] :: map (cons k) (strict_prefixes p')
  end.

Definition write_ok (levels : list tree) (ev : jev) : bool :=
  match ev with
  | JDel _ | JClear _ => true
  | JSetTree p t =>
      (* a section written where no level has a plain value, its content
         type-consistent with every level *)
      forallb (fun l =>
                 match lookup p l with
                 | Some (Leaf _) => false
                 | Some sub => compatible t sub && compatible sub t
                 | None => true
                 end &&
                 forallb (fun r => match lookup r l with Some (Leaf _) => false | _ => true end)
                         (strict_prefixes p)) levels
  | JSet p _ =>
      forallb (fun l =>
                 match lookup p l with Some (Node _) => false | _ => true end &&
                 forallb (fun r => match lookup r l with Some (Leaf _) => false | _ => true end)
                         (strict_prefixes p)) levels
  end.

(** two different settings answer to the same environment variable *)
Definition env_ambiguous (ps : list path) : bool :=
  (* [ps] has no repetitions: two different settings with one variable name *)
  let names := map var_name ps in
  negb (nodupb names).

(** ... and the environment actually sets that variable: which of the two
    settings it is meant for is undecidable, the load is documented to refuse
    (C16).  Without the variable set there is nothing to decide. *)
Definition env_ambiguous_set (e : list (string * string)) (ps : list path) : bool :=
  existsb (fun p =>
             match lookup_env (env_prefix ++ var_name p) e with
             | Some _ => Nat.ltb 1 (List.length (filter (fun q => String.eqb (var_name q) (var_name p)) ps))
             | None => false
             end) ps.

Definition env_uncastable (dflts : tree) (cfgs : list dict) (e : list (string * string))
           (ps : list path) : bool :=
  existsb (fun p =>
             match first_some (map (fun g => leaf_at p (Node g)) cfgs ++ [leaf_at p dflts]),
                   lookup_env (env_prefix ++ var_name p) e with
             | Some old, Some s => match convert old s with Err _ => true | Ok _ => false end
             | _, _ => false
             end) ps.

(** (adjusted variant only) was [p] brought back by a merged dict write? *)
Definition merge_reset (p : path) (j : list jev) : bool :=
  existsb (fun ev => match ev with
                     | JSetTree q t => is_prefix q p &&
                                       match leaf_at (skipn (List.length q) p) t with Some _ => false | None => true end
                     | _ => false
                     end) j.

(** ** judging one view *)
Definition view_ok (mw : bool) (dflts overrides : tree) (cfgs : list dict) (e : list (string * string))
           (j : list jev) (view : dict) : bool :=
  let ps := candidates dflts overrides cfgs j view in
  if env_ambiguous_set e ps || env_uncastable dflts cfgs e ps then true
  else
    wf (Node view) &&
    forallb (fun p =>
               opt_value_eqb (leaf_at p (Node view)) (expected mw dflts overrides cfgs e j p) ||
               (* adjusted variant: a setting brought back by a merged dict write may or may
                  may not carry the environment override, depending on when it was deleted *)
               (mw && merge_reset p j &&
                opt_value_eqb (leaf_at p (Node view)) (expected mw dflts overrides cfgs [] j p))) ps.

Definition brecord := (nat * dict * list outcome * dict)%type.

Definition env_hd (envs : list (list (string * string))) : list (string * string) :=
  match envs with e :: _ => e | [] => [] end.
Definition env_tl (envs : list (list (string * string))) : list (list (string * string)) :=
  match envs with _ :: (_ :: _) as r => r | _ => envs end.

(** [paths]: for every record, the configurations of the collections from the
    root to where its task lives *)
Fixpoint records_ok (mw : bool) (dflts overrides : tree) (levels : list tree)
         (bodies : nat -> list op) (recs : list brecord) (paths : list (option (list dict)))
         (envs : list (list (string * string))) (j : list jev) (esc : option err) : bool :=
  match recs, paths with
  | [], _ =>
      (* after the last body: nothing may escape -- except the documented refusal to load an
         environment that sets a variable two settings answer to (C16) *)
      match esc with
      | None => true
      | Some er =>
          err_eqb er EAmbigEnv &&
          env_ambiguous_set (env_hd envs)
                            (nub_paths (flat_map (fun l => map fst (leaf_paths l)) levels ++ jpaths j))
      end
  | (t, v0, outs, v1) :: rest, pth :: paths' =>
      match pth with
      | None => false
      | Some cfgs =>
          let e := env_hd envs in
          let j' := journal_run (exists_now mw dflts overrides cfgs e)
                                (children_now mw dflts overrides cfgs e) (bodies t) outs j in
          if forallb (write_ok levels) j' then
            Nat.eqb (List.length outs) (List.length (bodies t)) &&
            view_ok mw dflts overrides cfgs e j v0 &&
            view_ok mw dflts overrides cfgs e j' v1 &&
            records_ok mw dflts overrides levels bodies rest paths' (env_tl envs) j' esc
          else true
      end
  | _ :: _, [] => false
  end.

(** all configurations of the tree *)
Fixpoint all_configs (c : coll) : list dict :=
  match c with
  | Coll _ _ _ subs _ _ cfg =>
      cfg :: (fix go (l : list (string * coll)) : list dict :=
                match l with [] => [] | (_, sc) :: l' => all_configs sc ++ go l' end) subs
  end.

(** pairwise type consistency of every level involved *)
Fixpoint trees_compatible (l : list tree) : bool :=
  match l with
  | [] => true
  | t :: rest => forallb (fun u => compatible t u && compatible u t) rest && trees_compatible rest
  end.

(** the judgement, parameterised for the adjusted variants used in attribution *)
Definition spec_gen (mw : bool) (paths_of : list brecord -> list (option (list dict)))
           (c : coll) (dflts overrides : tree) (bodies : nat -> list op)
           (envs : list (list (string * string)))
           (obs : result (list brecord * option err)) : bool :=
  let levels := dflts :: overrides :: map (fun g => Node g) (all_configs c) in
  (* levels in which two settings already share a variable name are C16's subject (the load is
     documented to refuse them): outside the statement.  Pairs that a session CREATES by writing a
     setting are inside: the edit must persist and the session must go on. *)
  if ns_wf c && trees_compatible levels && is_node dflts && is_node overrides &&
     negb (env_ambiguous (nub_paths (flat_map (fun l => map fst (leaf_paths l)) levels))) then
    match obs with
    | Ok (recs, esc) => records_ok mw dflts overrides levels bodies recs (paths_of recs) envs [] esc
    | Err _ => false
    end
  else true.

Definition spec_ok (c : coll) (dflts overrides : tree) (bodies : nat -> list op)
           (envs : list (list (string * string)))
           (obs : result (list brecord * option err)) : bool :=
  spec_gen false (map (fun r : brecord => home c (fst (fst (fst r))))) c dflts overrides bodies envs obs.

(** ** one collection object mounted under several parents
    A sub-collection added to two parents gives each of its tasks two namespace
    paths; which one a call is on is decided by the name it was called as.
    [call_path]: a call made by name lives where that name leads ([ref_path],
    C17's reference walk: the configurations of the collections the name passes,
    root first); calls without a name, and names outside the canonical form,
    live where the task is (first) bound -- in a tree where every task is bound
    once both agree. *)
(** Names are spelling-insensitive: inside a segment '_' and '-' are the same
    name (C17's [norm_seg]); a call may carry a spelling other than the one the
    tree stores (the command line hands the executor the dashed form also for
    members of a collection that keeps underscores).  [ref_path_sp] is
    [ref_path] with segments compared up to that spelling. *)
Definition seg_same (a b : string) : bool := String.eqb (norm_seg true a) (norm_seg true b).

Definition assoc_sp {A} (s : string) (l : list (string * A)) : option A :=
  match find (fun kv => seg_same s (fst kv)) l with Some kv => Some (snd kv) | None => None end.

Definition task_here_sp (c : coll) (s : string) : option taskinfo :=
  match assoc_sp s (c_tasks c) with
  | Some t => Some t
  | None => match assoc_sp s (c_aliases c) with
            | Some k => assoc k (c_tasks c)
            | None => None
            end
  end.

Fixpoint ref_path_sp (c : coll) (segs : list string) {struct c}
  : option (taskinfo * list dict) :=
  match c with
  | Coll _ tasks aliases subs dflt _ cfg =>
      ref_step
        (fun k rest =>
           (fix go (l : list (string * coll)) {struct l}
              : option (option (taskinfo * list dict)) :=
              match l with
              | [] => None
              | (k', sc) :: l' => if seg_same k k' then Some (ref_path_sp sc rest) else go l'
              end) subs)
        (task_here_sp c) dflt cfg segs
  end.

Definition path_if (r : option (taskinfo * list dict)) (tid : nat) : option (list dict) :=
  match r with
  | Some (t, cfgs) => if Nat.eqb (t_id t) tid then Some cfgs else None
  | None => None
  end.

Definition call_path (c : coll) (tid : nat) (called_as : option string) : option (list dict) :=
  match called_as with
  | Some n =>
      match path_if (ref_path c (segs_of n)) tid with
      | Some cfgs => Some cfgs                       (* the name as stored *)
      | None => match path_if (ref_path_sp c (segs_of n)) tid with
                | Some cfgs => Some cfgs             (* another spelling of a stored name *)
                | None => home c tid
                end
      end
  | None => home c tid
  end.

(** [names]: for every record, the name its call was made as (missing = none) *)
Fixpoint paths_by_name (c : coll) (recs : list brecord) (names : list (option string))
  : list (option (list dict)) :=
  match recs with
  | [] => []
  | r :: recs' =>
      call_path c (fst (fst (fst r))) (match names with n :: _ => n | [] => None end)
      :: paths_by_name c recs' (List.tl names)
  end.

Definition spec_ok_named (c : coll) (dflts overrides : tree) (bodies : nat -> list op)
           (envs : list (list (string * string))) (names : list (option string))
           (obs : result (list brecord * option err)) : bool :=
  spec_gen false (fun recs => paths_by_name c recs names) c dflts overrides bodies envs obs.

