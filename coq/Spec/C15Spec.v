(** C15, stated as a table, not as a sequence of dict updates.

    Part A -- one [run(command, **kwargs)]:
    - every option is what the caller gave (a keyword argument that is not None;
      for [timeout] any keyword argument, None included), else what is
      configured, else the built-in default;
    - unknown keyword arguments (TypeError), asynchronous together with disown
      (ValueError) and an undocumented [hide] value (ValueError) are refused before
      anything is echoed or started;
    - echo is on iff dry-run is on, or else hide is not True and echo was asked for;
      the echoed text is the echo format filled with the command;
    - hidden streams: both when asynchronous, else those named by [hide]; never a
      stream for which an explicit target was given;
    - input: the given stream, else disconnected when asynchronous, else stdin;
    - dry-run starts nothing; otherwise the process is started with the command,
      the resolved shell and the parent environment updated with (or, under
      replace_env, replaced by) the resolved env mapping.

    Part B -- programs of nested [cd] / [prefix] / [try] blocks around run / sudo
    calls: the command of a call is
        cd <dir> && <prefix 1> && ... && <prefix n> && <command>
    over the enclosing blocks, outermost first, where <dir> follows the usual rule
    of cd (an absolute or ~ path starts afresh, a relative one is appended, spaces
    escaped) and is omitted when empty; every call is otherwise judged exactly like a
    single run (part A: options incl. timeout, streams, echo, environment), with its
    own keyword arguments; sudo wraps the composed string with the prompt,
    [--preserve-env] naming the variables of the EFFECTIVE env option and the user
    flags; a call whose options are refused starts nothing and raises; after the
    program, however it ended -- by an Exception, by KeyboardInterrupt, SystemExit or
    GeneratorExit, by a command that exited non-zero -- no block is left on the
    stacks, and calls made after a caught exception see exactly the blocks still open. *)
From InvokeVerif Require Export Model.RunTypes.

(** * Part A *)
Definition given (k : kwargs) (o : opt) : option oval :=
  match kw k o with
  | Some ONone | None => None
  | Some v => Some v
  end.

Definition want (c : config) (k : kwargs) (o : opt) : oval :=
  match given k o with
  | Some v => v
  | None => match cf c o with Some v => v | None => default o end
  end.

Definition want_timeout (c : config) (k : kwargs) : oval :=
  match kw_timeout k with Some v => v | None => cf_timeout c end.

(** streams named by a hide value; [None] = not a documented value *)
Definition named_streams (v : oval) : option (list string) :=
  match v with
  | ONone | OBool false => Some []
  | OBool true => Some ["stdout"; "stderr"]
  | OStr s =>
      if String.eqb s "both" then Some ["stdout"; "stderr"]
      else if String.eqb s "out" || String.eqb s "stdout" then Some ["stdout"]
      else if String.eqb s "err" || String.eqb s "stderr" then Some ["stderr"]
      else None
  | _ => None
  end.

Definition is_none_val (v : oval) : bool := match v with ONone => true | _ => false end.

Definition hidden (c : config) (k : kwargs) : option (list string) :=
  let v := if truthy (want c k Asynchronous) then OBool true else want c k Hide in
  match named_streams v with
  | None => None
  | Some l =>
      Some (filter (fun s =>
                      negb (String.eqb s "stdout" && negb (is_none_val (want c k OutStream)))
                      && negb (String.eqb s "stderr" && negb (is_none_val (want c k ErrStream)))) l)
  end.

Definition rejected (c : config) (k : kwargs) : option err :=
  match kw_extra k with
  | _ :: _ => Some EType
  | [] =>
      if truthy (want c k Asynchronous) && truthy (want c k Disown) then Some EValue
      else match hidden c k with None => Some EValue | Some _ => None end
  end.

(** "Full hiding suppresses echo": a hide value that names BOTH streams -- True or
    'both', which the docstring of [run] gives as one and the same setting -- switches
    echo off (dry-run apart).  ([strict = false] is the narrower rule "hide IS True"
    the code implemented before fix f03a111; kept for the historical lemma only.) *)
Definition fully_hidden (v : oval) : bool :=
  match v with
  | OBool true => true
  | OStr s => String.eqb s "both"
  | _ => false
  end.

Definition echo_on_r (strict : bool) (c : config) (k : kwargs) : bool :=
  if is_True (want c k Dry) then true
  else if (if strict then fully_hidden (want c k Hide) else is_True (want c k Hide)) then false
  else truthy (want c k Echo).

Definition fill (fmt : oval) (command : string) : string :=
  match fmt with
  | OStr f => (subst_command 0 f command ++ String (ascii_of_nat 10) "")%string
  | _ => ""
  end.

Definition or_default (v d : oval) : oval := match v with ONone => d | _ => v end.

(** last binding wins in the mapping given by the caller *)
Definition lookup_last (key : string) (e : env) : option string := lookup_env key (rev e).

(** the child environment [e] is the parent's updated with / replaced by [envv] *)
Definition env_ok (parent : env) (envv replace : oval) (e : env) : bool :=
  let new := match envv with ODict d => d | _ => [] end in
  if truthy replace
  then forallb (fun key => opt_str_eqb (lookup_env key e) (lookup_env key new))
               (map fst new ++ map fst e)
  else
    forallb (fun key =>
               opt_str_eqb (lookup_env key e)
                           (match lookup_last key new with
                            | Some v => Some v
                            | None => lookup_env key parent
                            end))
            (map fst parent ++ map fst new ++ map fst e).

Definition start_ok (c : config) (parent : env) (command : string) (k : kwargs)
           (started : option (string * oval * env)) : bool :=
  if truthy (want c k Dry) then match started with None => true | Some _ => false end
  else match started with
       | Some (cmd, sh, e) =>
           String.eqb cmd command && oval_eqb sh (want c k Shell)
           && env_ok parent (want c k Env) (want c k ReplaceEnv) e
       | None => false
       end.

Definition err_opt_eqb (a b : option err) : bool :=
  match a, b with
  | None, None => true
  | Some x, Some y => err_eqb x y
  | _, _ => false
  end.

Definition spec_ok_opts_r (strict : bool) (c : config) (parent : env) (command : string) (k : kwargs)
           (obs : outcome) : bool :=
  match rejected c k with
  | Some e =>
      err_opt_eqb (o_exc obs) (Some e)
      && match o_started obs with None => true | Some _ => false end
      && match o_echo obs with None => true | Some _ => false end
  | None =>
      match o_exc obs, o_res obs with
      | None, Some r =>
          forallb (fun o => match o with
                            | Echo | Hide => true
                            | _ => oval_eqb (r_opts r o) (want c k o)
                            end) all_opts
          && oval_eqb (r_timeout r) (want_timeout c k)
          && Bool.eqb (truthy (r_opts r Echo)) (echo_on_r strict c k)
          && opt_str_eqb (o_echo obs)
                         (if echo_on_r strict c k then Some (fill (want c k EchoFormat) command) else None)
          && oval_eqb (r_opts r Hide)
                      (OList (match hidden c k with Some l => l | None => [] end))
          && oval_eqb (r_out r) (or_default (want c k OutStream) sys_stdout)
          && oval_eqb (r_err r) (or_default (want c k ErrStream) sys_stderr)
          && oval_eqb (r_in r)
                      (or_default (want c k InStream)
                                  (if truthy (want c k Asynchronous) then OBool false else sys_stdin))
          && start_ok c parent command k (o_started obs)
      | _, _ => false
      end
  end.

(** * Part B *)
Definition dirs_of (fs : list block) : list string :=
  flat_map (fun b => match b with BCd p => [p] | _ => [] end) fs.
Definition pres_of (fs : list block) : list string :=
  flat_map (fun b => match b with BPrefix p => [p] | _ => [] end) fs.

(** the rule of cd: an absolute (or ~) path starts afresh, a relative one is appended *)
Definition cd_step (acc : list string) (p : string) : list string :=
  if is_abs p then [p] else acc ++ [p].

Definition effective_dir (dirs : list string) : string :=
  posix_join (map escape_spaces (fold_left cd_step dirs [])).

Definition composed (fs : list block) (command : string) : string :=
  let d := effective_dir (dirs_of fs) in
  join " && " ((if String.eqb d "" then [] else [("cd " ++ d)%string]) ++ pres_of fs ++ [command]).

Definition no_kw : kwargs := mkKw (fun _ => None) None [].

(** what a call has to raise: the refusal of its options; UnexpectedExit when the
    command is really run to its end, exits non-zero and warn is off *)
Definition expected_raise (c : config) (k : kwargs) (fails : bool) : option xkind :=
  match rejected c k with
  | Some EType => Some XType
  | Some EValue => Some XValue
  | Some _ => Some XBoom
  | None =>
      if fails && negb (truthy (want c k Dry)) && negb (truthy (want c k Disown))
         && negb (truthy (want c k Asynchronous)) && negb (truthy (want c k Warn))
      then Some XUnexpected else None
  end.

(** what sudo hands on to the run as watchers: the given list (None / absent: the
    configured one) followed by its own responder *)
Definition spec_sudo_kwargs (c : config) (k : kwargs) : kwargs :=
  let base := match kw k Watchers with
              | Some (OList l) => l
              | Some ONone | None =>
                  match (match cf c Watchers with Some v => v | None => default Watchers end) with
                  | OList l => l
                  | _ => []
                  end
              | Some _ => []
              end in
  mkKw (fun o => match o with Watchers => Some (OList (base ++ ["<sudo>"])) | _ => kw k o end)
       (kw_timeout k) (kw_extra k).

Definition sudo_wrapped (cc : ctxcfg) (user_kw : option oval) (k : kwargs) (prefixed : string)
  : string :=
  let user := match user_kw with Some u => u | None => cc_user cc end in
  let names := match want (cc_run cc) k Env with ODict d => map fst d | _ => [] end in
  ("sudo -S -p '" ++ cc_prompt cc ++ "' "
   ++ (match names with [] => "" | _ => "--preserve-env='" ++ join "," names ++ "' " end)
   ++ (match user with ONone => "" | OStr u => "-H -u " ++ u ++ " " | _ => "-H -u ? " end)
   ++ prefixed)%string.

(** judge the calls observed for a statement inside the blocks [fs];
    returns (acceptable, calls not yet consumed, the exception that has to propagate) *)
Fixpoint judge_stmt_r (strict : bool) (cc : ctxcfg) (fs : list block) (s : stmt) (obs : list call)
         {struct s} : bool * list call * option xkind :=
  match s with
  | SRun cmd k fails =>
      match obs with
      | c :: rest => (spec_ok_opts_r strict (cc_run cc) (cc_parent cc) (composed fs cmd) k c, rest,
                      expected_raise (cc_run cc) k fails)
      | [] => (false, [], None)
      end
  | SSudo cmd u k fails =>
      match obs with
      | c :: rest =>
          (spec_ok_opts_r strict (cc_run cc) (cc_parent cc) (sudo_wrapped cc u k (composed fs cmd))
                        (spec_sudo_kwargs (cc_run cc) k) c,
           rest, expected_raise (cc_run cc) (spec_sudo_kwargs (cc_run cc) k) fails)
      | [] => (false, [], None)
      end
  | SRaise x => (true, obs, Some x)
  | SBlock b body =>
      let '(ok, rest, r) :=
        (fix go (l : list stmt) (obs : list call) {struct l} : bool * list call * option xkind :=
           match l with
           | [] => (true, obs, None)
           | x :: l' =>
               let '(ok, rest, r) := judge_stmt_r strict cc (fs ++ [b]) x obs in
               match r with
               | Some _ => (ok, rest, r)
               | None => let '(ok', rest', r') := go l' rest in (ok && ok', rest', r')
               end
           end) body obs in
      (ok, rest, match b with BTry => None | _ => r end)
  end.

Fixpoint judge_list_r (strict : bool) (cc : ctxcfg) (fs : list block) (l : list stmt) (obs : list call)
  : bool * list call * option xkind :=
  match l with
  | [] => (true, obs, None)
  | x :: l' =>
      let '(ok, rest, r) := judge_stmt_r strict cc fs x obs in
      match r with
      | Some _ => (ok, rest, r)
      | None => let '(ok', rest', r') := judge_list_r strict cc fs l' rest in (ok && ok', rest', r')
      end
  end.

Definition cstate_eqb (a b : cstate) : bool :=
  list_eqb String.eqb (prefixes a) (prefixes b) && list_eqb String.eqb (cwds a) (cwds b).

(** [calls]: what was observed of each run / sudo call, in order;
    [final]: the two stacks after the program; [raised]: what came out of it. *)
Definition spec_ok_ctx_r (strict : bool) (cc : ctxcfg) (prog : list stmt)
           (calls : list call) (final : cstate) (raised : option xkind) : bool :=
  let '(ok, rest, r) := judge_list_r strict cc [] prog calls in
  ok && match rest with [] => true | _ => false end
  && oxkind_eqb r raised && cstate_eqb final (mkC [] []).

(** * The specification proper *)
Definition echo_on := echo_on_r true.
Definition spec_ok_opts := spec_ok_opts_r true.
Definition spec_ok_ctx := spec_ok_ctx_r true.
