(** C18: core options mean the same anywhere; task tokens and the remainder
    stay intact.

    What is judged is a *metamorphic triple* of observations of the two-pass
    program parse (Program.parse_core_args + Program.parse_tasks):
      base   = the task invocation alone                  (concat groups)
      front  = the core option first, then the invocation (opt ++ concat groups)
      placed = the option inserted before group [j], followed by "--" and a
               remainder when [rem] is given.
      norem  = the placed line without that trailing "--" and remainder.
    [groups] are the complete units of the invocation (a task name, a flag
    with its value, a positional value), so that every [j] is a placement
    "inside a task's argument list" that does not tear a flag from its value.
    Nothing here runs the parser model. *)
From InvokeVerif Require Export Spec.ParserObs.

(** Observation of the program-level parse. *)
Record gobs := mkGObs {
  g_core : list (string * aval);                        (* Program.args: main name -> value *)
  g_unparsed : list string;                             (* Program.core.unparsed *)
  g_remainder : string;                                 (* Program.core.remainder *)
  g_tasks : list (option string * list (string * aval)) (* Program.tasks: name, kwargs *)
}.

Definition gobs_eqb (a b : gobs) : bool :=
  kwargs_eqb (g_core a) (g_core b)
  && list_eqb String.eqb (g_unparsed a) (g_unparsed b)
  && String.eqb (g_remainder a) (g_remainder b)
  && list_eqb octx_eqb (g_tasks a) (g_tasks b).

Section Spec.
Variable cs : list ctxspec.        (* task contexts *)
Variable core : ctxspec.           (* the core (initial) context *)

Definition placed_argv (groups : list (list string)) (opt : list string) (j : nat)
           (rem : option (list string)) : list string :=
  List.concat (firstn j groups) ++ opt ++ List.concat (skipn j groups)
  ++ match rem with Some r => "--" :: r | None => [] end.

Definition front_argv (groups : list (list string)) (opt : list string) : list string :=
  opt ++ List.concat groups.

Definition base_argv (groups : list (list string)) : list string := List.concat groups.

(** S1. The remainder is everything after the first bare "--", verbatim. *)
Definition s1_remainder (argv : list string) (o : gobs) : bool :=
  String.eqb (g_remainder o) (join " " (after_ddash argv)).

(** S2. Tokens reach task parsing intact.  Reference recogniser of a prefix of
    well-formed core-option spellings: exact boolean flags, exact value flags
    followed by one token, "--flag=value" / "-f=value", a short value flag with
    glued value, clusters of short boolean flags.  If what follows the
    recognised prefix is a plain word (a task name, typically), everything from
    that word on must be exactly [unparsed]. *)
Definition core_arg (tok : string) : option argspec := arg_of_flag core tok.

Definition is_core_bool (tok : string) : bool :=
  match core_arg tok with Some a => negb (takes_value a) | None => false end.

Definition is_core_value (tok : string) : bool :=
  match core_arg tok with Some a => takes_value a | None => false end.

Definition short_bools (s : string) : bool :=
  forallb (fun ch => is_core_bool (String "-" (String ch EmptyString))) (list_ascii_of_string s).

(** number of tokens of the longest recognised core prefix (fuel = length).
    [seen]: value options already given -- a repeated one ends the recognised
    prefix (what a second occurrence means is not documented: don't care). *)
Fixpoint core_prefix (fuel : nat) (seen : list string) (body : list string) : nat :=
  match fuel, body with
  | S fuel', t :: l =>
      if plain t then 0
      else if contains_char "=" t then
        let '(h, _, _) := partition_char "=" t in
        match core_arg h with
        | Some a => if takes_value a && negb (mem (arg_name a) seen)
                    then S (core_prefix fuel' (arg_name a :: seen) l) else 0
        | None => 0
        end
      else if is_core_bool t then S (core_prefix fuel' seen l)
      else
        match core_arg t with
        | Some a =>
            (* exact value flag: the next token is its value *)
            if mem (arg_name a) seen then 0 else
            match l with
            | v :: l' =>
                (* an optional-value flag followed by a dash-token: don't care *)
                if plain v || negb (a_optional a)
                then match fuel' with
                     | S f2 => S (S (core_prefix f2 (arg_name a :: seen) l'))
                     | O => 0
                     end
                else 0
            | [] => 0
            end
        | None =>
            if negb (starts_with "--" t) && Nat.ltb 2 (String.length t) then
              match core_arg (take 2 t) with
              | Some a =>
                  if takes_value a then
                    if mem (arg_name a) seen then 0
                    else S (core_prefix fuel' (arg_name a :: seen) l)
                  else if short_bools (drop 1 t) then S (core_prefix fuel' seen l) else 0
              | None => 0
              end
            else 0
        end
  | _, _ => 0
  end.

Definition s2_unparsed_intact (argv : list string) (o : gobs) : bool :=
  let body := before_ddash argv in
  let k := core_prefix (List.length body) [] body in
  match skipn k body with
  | [] => match g_unparsed o with [] => true | _ => false end
  | t :: _ =>
      if plain t then list_eqb String.eqb (g_unparsed o) (skipn k body) else true
  end.

(** S3. Placement equivalence.  [flags] are the flag spellings the option uses
    (one, or the members of a cluster).  The option is *shadowed* at [j] when
    the task whose argument list contains position [j] declares one of them. *)
(** [starts]: which groups are task names (a single-token group may also be a
    positional VALUE that happens to equal a task name) *)
Variable starts : list nat.

Fixpoint active_from (i : nat) (groups : list (list string)) (j : nat) (cur : option ctxspec)
  : option ctxspec :=
  match j, groups with
  | S j', g :: l =>
      let cur' := match g with
                  | [t] => if existsb (Nat.eqb i) starts
                           then match task_named cs t with Some c => Some c | None => cur end
                           else cur
                  | _ => cur
                  end in
      active_from (S i) l j' cur'
  | _, _ => cur
  end.

Definition active_task (groups : list (list string)) (j : nat) (cur : option ctxspec)
  : option ctxspec := active_from 0 groups j cur.

Definition shadowed (groups : list (list string)) (j : nat) (flags : list string) : bool :=
  match active_task groups j None with
  | Some c => existsb (fun f => match arg_of_flag c f with Some _ => true | None =>
                                match arg_of_inverse c f with Some _ => true | None => false end end) flags
  | None => false
  end.

Definition same_core (a b : result gobs) : bool :=
  match a, b with
  | Ok x, Ok y => kwargs_eqb (g_core x) (g_core y)
  | Err e1, Err e2 => err_eqb e1 e2
  | _, _ => false
  end.

Definition same_tasks (a b : result gobs) : bool :=
  match a, b with
  | Ok x, Ok y => list_eqb octx_eqb (g_tasks x) (g_tasks y)
  | Err e1, Err e2 => err_eqb e1 e2
  | _, _ => false
  end.

Fixpoint kw_upd (k : string) (v : aval) (d : list (string * aval)) : list (string * aval) :=
  match d with
  | [] => []
  | (k', v') :: d' => if String.eqb k k' then (k, v) :: d' else (k', v') :: kw_upd k v d'
  end.

(** a single token that is exactly the flag of an optional-value core option
    (--list / -l, --help / -h) given WITHOUT a value *)
Definition bare_optional (opt : list string) : option argspec :=
  match opt with
  | [f] => match core_arg f with
           | Some a => if a_optional a && takes_value a then Some a else None
           | None => None
           end
  | _ => None
  end.

(** what follows position [j]: nothing, or a token that is a flag of the active task *)
Definition followed_by_own_flag (groups : list (list string)) (j : nat) : bool :=
  match skipn j groups with
  | [] => true
  | (t :: _) :: _ =>
      match active_task groups j None with
      | Some c => match arg_of_flag c t with Some _ => true | None =>
                  match arg_of_inverse c t with Some _ => true | None => false end end
      | None => false
      end
  | [] :: _ => false
  end.

(** Explicit don't-care region of the shadowing clause: the option is written
    with its value glued to the short flag ("-fcv") and the active task declares
    that very short flag as a flag that takes NO value.  In that task's grammar
    the token is not a spelling of the core option at all but, as documented for
    combined short flags, the cluster -f -c -v of the task -- what its further
    letters do is outside this property.  (Hidden behind F-C18a until repair
    dd95c66.) *)
Definition glued_cluster_reading (groups : list (list string)) (j : nat)
           (opt : list string) (f : string) : bool :=
  match opt with
  | [t] =>
      negb (String.eqb t f) && negb (contains_char "=" t) &&
      match active_task groups j None with
      | Some c => match arg_of_flag c f with
                  | Some a => negb (takes_value a)
                  | None => false
                  end
      | None => false
      end
  | _ => false
  end.

(** Second explicit don't-care region of the shadowing clause: the option is a
    single bare flag token ("-p") and the active task declares that very flag as
    one that TAKES A VALUE.  In that task's grammar the token alone is an
    incomplete unit -- "flag value" with the NEXT token of the command line as
    its value, as documented for value flags -- so inserting it there re-pairs
    the task's flag with whatever follows (possibly the next task's name, whose
    own flags are then read in another context).  The task does receive the
    flag; what the re-pairing does to the rest of the line is not judged. *)
Definition bare_value_reading (groups : list (list string)) (j : nat)
           (opt : list string) (f : string) : bool :=
  match opt with
  | [t] =>
      String.eqb t f &&
      match active_task groups j None with
      | Some c => match arg_of_flag c f with
                  | Some a => takes_value a
                  | None => false
                  end
      | None => false
      end
  | _ => false
  end.

Definition s3_placement (groups : list (list string)) (opt : list string) (j : nat)
           (flags : list string) (base front placed : result gobs) : bool :=
  match opt with
  | [] => true
  | _ =>
      if shadowed groups j flags then
        (* "unless that task declares a flag of the same name (which then receives it)":
           the core values are those of the line without the option *)
        match flags, base, placed with
        | [f], Ok _, Ok _ => glued_cluster_reading groups j opt f || bare_value_reading groups j opt f
                             || same_core placed base
        | _, _, _ => true
        end
      else
        match bare_optional opt with
        | Some a =>
            (* an optional-value option without value has no meaningful "front" spelling
               (in front, the next word would be its value); what is documented: inside a
               task's argument list --help means help for that task, a bare optional option
               means True.  Judged when the next token cannot be mistaken for its value. *)
            match base, placed, active_task groups j None with
            | Ok b, Ok pl, Some c =>
                if String.eqb (arg_name a) "help" then
                  match cx_name c with
                  | Some n => kwargs_eqb (g_core pl) (kw_upd (main_name a) (AStr n) (g_core b))
                              && list_eqb octx_eqb (g_tasks pl) (g_tasks b)
                  | None => true
                  end
                else if followed_by_own_flag groups j then
                  kwargs_eqb (g_core pl) (kw_upd (main_name a) (ABool true) (g_core b))
                  && list_eqb octx_eqb (g_tasks pl) (g_tasks b)
                else true
            | Ok _, Err _, Some c =>
                negb (String.eqb (arg_name a) "help" || followed_by_own_flag groups j)
            | _, _, _ => true
            end
        | None =>
            (* the option itself must be acceptable where it is documented (front) *)
            match front, base with
            | Ok _, Ok _ => same_core placed front && same_tasks placed base
            | _, _ => true
            end
        end
  end.

(** S4. "... and influences nothing else."  [norem] is the observation of the
    very same command line without the trailing ["--" :: rem] (for [rem = None]
    it is the placed line itself).  Appending a remainder changes nothing but
    [remainder]: same core values, same unparsed tokens, same task calls; a line
    that is rejected stays rejected with the same class of error, a line that
    parses still parses -- whatever the last token before "--" is (a bare
    optional-value flag, a flag still waiting for its value, nothing at all)
    and whatever the remainder tokens look like (task names, flags, "--"). *)
Definition s4_remainder_inert (rem : option (list string)) (norem placed : result gobs) : bool :=
  match rem with
  | None => true
  | Some _ =>
      match norem, placed with
      | Ok a, Ok b => kwargs_eqb (g_core a) (g_core b)
                      && list_eqb String.eqb (g_unparsed a) (g_unparsed b)
                      && list_eqb octx_eqb (g_tasks a) (g_tasks b)
      | Err e1, Err e2 => err_eqb e1 e2
      | _, _ => false
      end
  end.

Definition spec_ok (groups : list (list string)) (opt : list string) (j : nat)
           (flags : list string) (rem : option (list string))
           (base front norem placed : result gobs) : bool :=
  let argv := placed_argv groups opt j rem in
  match placed with
  | Ok o => s1_remainder argv o && s2_unparsed_intact argv o
  | Err _ => true
  end
  && s3_placement groups opt j flags base front placed
  && s4_remainder_inert rem norem placed.

End Spec.
