(** C20, stated as "first ancestor containing it", on absolute normalised
    directories given as component lists. *)
From InvokeVerif Require Export Common.FsTypes.

Definition child (d n : string) : string :=
  if String.eqb d "/" then ("/" ++ n)%string else (d ++ "/" ++ n)%string.

(** The candidate a directory offers: the module [name.py] if present, else the
    package [name/__init__.py]; with the directory itself as project location. *)
Definition candidate (fs : fsys) (name d : string) : option (string * string) :=
  match listdir fs d with
  | None => None
  | Some es =>
      if mem (name ++ ".py")%string es then Some (child d (name ++ ".py")%string, d)
      else if mem name es && path_exists fs (child (child d name) "__init__.py")
      then Some (child (child d name) "__init__.py", d)
      else None
  end.

(** start, its parent, ..., the root *)
Fixpoint ancestors_from (comps : list string) (k : nat) : list (list string) :=
  match k with
  | O => [[]]
  | S k' => firstn k comps :: ancestors_from comps k'
  end.
Definition ancestors (comps : list string) : list (list string) :=
  ancestors_from comps (List.length comps).

Fixpoint first_candidate (fs : fsys) (name : string) (ds : list (list string))
  : option (string * string) :=
  match ds with
  | [] => None
  | d :: ds' => match candidate fs name (dir_str d) with
                | Some c => Some c
                | None => first_candidate fs name ds'
                end
  end.

Definition expected (fs : fsys) (name : string) (comps : list string) : option (string * string) :=
  first_candidate fs name (ancestors comps).

(** What was observed: the loaded module's file and the reported project
    directory, both made absolute by the harness; or the exception. *)
Inductive observed :=
| OLoaded (abs_file abs_parent : string)
| ONotFound
| OImportError
| OOther.

Definition spec_ok (fs : fsys) (cwd start name : string) (obs : observed) : bool :=
  match expected fs name (abs_comps cwd start), obs with
  | Some (f, p), OLoaded f' p' => String.eqb f f' && String.eqb p p'
  | None, ONotFound => true
  | _, _ => false
  end.

(** ** Guards of the partial theorems *)
Definition comp_okb (c : string) : bool :=
  negb (String.eqb c "") && negb (contains_char "/"%char c)
  && negb (String.eqb c ".") && negb (String.eqb c "..").
Definition comps_okb (comps : list string) : bool := forallb comp_okb comps.

Definition all_listable (fs : fsys) (comps : list string) : bool :=
  forallb (fun d => match listdir fs (dir_str d) with Some _ => true | None => false end)
          (ancestors comps).

(** outside F-C20: the root directory offers no candidate *)
Definition root_clear (fs : fsys) (name : string) : bool :=
  match candidate fs name "/" with None => true | Some _ => false end.

Definition is_nil {A} (l : list A) : bool := match l with [] => true | _ => false end.

(** what remains of the guard after a51b5ff: the collection name is a plain
    path component and the start directory exists, i.e. it and every directory
    above it can be listed (a start directory that does not exist is outside
    the property's quantifier: there is no "start point") *)
Definition guard_exists (fs : fsys) (cwd start name : string) : bool :=
  comp_okb name && all_listable fs (abs_comps cwd start).
