(** C20, stated as "first ancestor containing it", on absolute normalised
    directories given as component lists. *)
From InvokeVerif Require Export Common.FsTypes.

(** Directory of a component list: [] is the root "/". *)
Definition dir_str (comps : list string) : string := ("/" ++ join "/" comps)%string.

Definition child (d n : string) : string :=
  if String.eqb d "/" then ("/" ++ n)%string else (d ++ "/" ++ n)%string.

(** The candidate a directory offers: the module [name.py] if present, else the
    package [name/__init__.py]; with the directory itself as project location. *)
Definition candidate (fs : fsys) (name d : string) : option (string * string) :=
  match listdir fs d with
  | None => None
  | Some es =>
      if mem (name ++ ".py")%string es then Some (child d (name ++ ".py")%string, d)
      else if mem name es && path_exists fs (child (child d name) "__init__.py")
      then Some (child (child d name) "__init__.py", d)
      else None
  end.

(** start, its parent, ..., the root *)
Fixpoint ancestors_from (comps : list string) (k : nat) : list (list string) :=
  match k with
  | O => [[]]
  | S k' => firstn k comps :: ancestors_from comps k'
  end.
Definition ancestors (comps : list string) : list (list string) :=
  ancestors_from comps (List.length comps).

Fixpoint first_candidate (fs : fsys) (name : string) (ds : list (list string))
  : option (string * string) :=
  match ds with
  | [] => None
  | d :: ds' => match candidate fs name (dir_str d) with
                | Some c => Some c
                | None => first_candidate fs name ds'
                end
  end.

Definition expected (fs : fsys) (name : string) (comps : list string) : option (string * string) :=
  first_candidate fs name (ancestors comps).

(** Components of a path string: empty ones (leading / trailing separator) and
    "." dropped; ".." then removes the component before it. *)
Definition raw_comps (p : string) : list string :=
  filter (fun c => negb (String.eqb c "") && negb (String.eqb c ".")) (split_char "/"%char p).

Definition resolve (l : list string) : list string :=
  fold_left (fun acc c => if String.eqb c ".." then removelast acc else acc ++ [c]) l [].

Definition comps_of (p : string) : list string := resolve (raw_comps p).

Definition abs_comps (cwd start : string) : list string :=
  if starts_with "/" start then comps_of start else resolve (raw_comps cwd ++ raw_comps start).

(** What was observed: the loaded module's file and the reported project
    directory, both made absolute by the harness; or the exception. *)
Inductive observed :=
| OLoaded (abs_file abs_parent : string)
| ONotFound
| OImportError
| OOther.

Definition spec_ok (fs : fsys) (cwd start name : string) (obs : observed) : bool :=
  match expected fs name (abs_comps cwd start), obs with
  | Some (f, p), OLoaded f' p' => String.eqb f f' && String.eqb p p'
  | None, ONotFound => true
  | _, _ => false
  end.

(** ** Guards of the partial theorems *)
Definition comp_okb (c : string) : bool :=
  negb (String.eqb c "") && negb (contains_char "/"%char c)
  && negb (String.eqb c ".") && negb (String.eqb c "..").
Definition comps_okb (comps : list string) : bool := forallb comp_okb comps.

Definition all_listable (fs : fsys) (comps : list string) : bool :=
  forallb (fun d => match listdir fs (dir_str d) with Some _ => true | None => false end)
          (ancestors comps).

(** outside F-C20: the root directory offers no candidate *)
Definition root_clear (fs : fsys) (name : string) : bool :=
  match candidate fs name "/" with None => true | Some _ => false end.

Definition is_nil {A} (l : list A) : bool := match l with [] => true | _ => false end.

(** the proved region: absolute normalised start below the root, collection
    name a plain component, the abstract file system honours
    [os.listdir("")] = FileNotFoundError and lists every ancestor *)
Definition guard_abs (fs : fsys) (comps : list string) (name : string) : bool :=
  negb (is_nil comps) && comps_okb comps && comp_okb name &&
  match listdir fs "" with None => true | Some _ => false end &&
  all_listable fs comps.
