(** C12, stated without any scan index: what has to be written to the child's
    stdin in a read is determined by the text before the read and the text after
    it -- never by where earlier reads happened to end.

    Reference for one stream (one IO thread), reads [c1, c2, ...]:
    - in the read that turns the text [B] into [B ++ c], a watcher with pattern [p]
      answers [occ p (B ++ c) - occ p B] times ([occ] = number of non-overlapping
      occurrences in the whole text, i.e. one-shot [re.findall]).  Quantified over
      every chunking (prefixes of chunkings are chunkings) this is the same as
      "the total after any sequence of reads is [occ p text]";
    - the responses of one read are written in watcher-list order;
    - a failing watcher raises in a read iff it answered in an EARLIER read of this
      stream and an occurrence of its sentinel is completed by this read; the thread
      then stops: the responses already written in that read are a prefix of the
      read's full response list, nothing is written for this stream afterwards;
    - the call fails (Failure / AuthFailure for sudo) iff some stream raised.
    Streams are judged separately, each on its own reads (separate positions). *)
From InvokeVerif Require Export Model.RegexFam.

Definition news (q : pattern) (B c : text) : nat := occ q (B ++ c) - occ q B.

Definition full_writes (ws : list watcher) (B c : text) : list string :=
  flat_map (fun w => repeat (resp_of w) (news (pat_of w) B c)) ws.

(** [resp]: per watcher, has it answered in an earlier read of this stream. *)
Fixpoint raises (ws : list watcher) (resp : list bool) (B c : text) : bool :=
  match ws, resp with
  | w :: ws', r :: resp' =>
      (match w with
       | WFail _ _ s => r && Nat.ltb 0 (news s B c)
       | WResp _ _ => false
       end) || raises ws' resp' B c
  | _, _ => false
  end.

Fixpoint responded (ws : list watcher) (resp : list bool) (B c : text) : list bool :=
  match ws, resp with
  | w :: ws', r :: resp' => (r || Nat.ltb 0 (news (pat_of w) B c)) :: responded ws' resp' B c
  | _, _ => []
  end.

Definition strs_eqb (a b : list string) : bool := list_eqb String.eqb a b.

Fixpoint is_prefix (a b : list string) : bool :=
  match a, b with
  | [], _ => true
  | x :: a', y :: b' => String.eqb x y && is_prefix a' b'
  | _ :: _, [] => false
  end.

Definition is_nil {A} (l : list A) : bool := match l with [] => true | _ => false end.

(** Judge the observed writes of one stream, read by read, write call by write call
    (the finer judgement; used for the corollaries about the model, whose writes are
    one call per response).  Returns (acceptable, the stream has to have raised). *)
Fixpoint judge (ws : list watcher) (B : text) (resp : list bool)
         (chunks : list text) (obs : list (list string)) : bool * bool :=
  match chunks, obs with
  | [], [] => (true, false)
  | c :: cs, o :: os =>
      if raises ws resp B c
      then (is_prefix o (full_writes ws B c) && forallb is_nil os
            && Nat.eqb (List.length os) (List.length cs), true)
      else if strs_eqb o (full_writes ws B c)
           then judge ws (B ++ c) (responded ws resp B c) cs os
           else (false, false)
  | _, _ => (false, false)
  end.

(** The judgement that counts looks at the TEXT that reached the child's stdin during
    each read (the concatenation of the strings written), not at how many write calls
    carried it: coalescing a read's responses into one write is not a difference. *)
Definition flat (l : list string) : string := fold_right String.append EmptyString l.

Fixpoint str_prefix (a b : string) : bool :=
  match a, b with
  | EmptyString, _ => true
  | String x a', String y b' => Ascii.eqb x y && str_prefix a' b'
  | String _ _, EmptyString => false
  end.

Definition no_text (l : list string) : bool := String.eqb (flat l) "".

Fixpoint judge_text (ws : list watcher) (B : text) (resp : list bool)
         (chunks : list text) (obs : list (list string)) : bool * bool :=
  match chunks, obs with
  | [], [] => (true, false)
  | c :: cs, o :: os =>
      if raises ws resp B c
      then (str_prefix (flat o) (flat (full_writes ws B c)) && forallb no_text os
            && Nat.eqb (List.length os) (List.length cs), true)
      else if String.eqb (flat o) (flat (full_writes ws B c))
           then judge_text ws (B ++ c) (responded ws resp B c) cs os
           else (false, false)
  | _, _ => (false, false)
  end.

Definition spec_stream (ws : list watcher) (chunks : list text)
           (obs : list (list string)) (obs_raised : bool) : bool :=
  let '(ok, must_raise) := judge_text ws [] (map (fun _ => false) ws) chunks obs in
  ok && Bool.eqb must_raise obs_raised.

(** The observations of one thread among those of the whole schedule. *)
Fixpoint proj {A} (sid : bool) (sched : list event) (l : list A) : list A :=
  match sched, l with
  | (s, _) :: sched', x :: l' =>
      if Bool.eqb s sid then x :: proj sid sched' l' else proj sid sched' l'
  | _, _ => []
  end.

Definition opt_exn_eqb (a b : option exn) : bool :=
  match a, b with
  | None, None => true
  | Some x, Some y => exn_eqb x y
  | _, _ => false
  end.

(** [writes]: per read of the schedule, the strings written to the child's stdin
    during it; [raised]: which threads died of ResponseNotAccepted; [exc]: what the
    call raised. *)
Definition spec_ok (ws : list watcher) (sched : list event) (how : via)
           (writes : list (list string)) (raised : bool * bool) (exc : option exn) : bool :=
  Nat.eqb (List.length writes) (List.length sched)
  && spec_stream ws (chunks_of false sched) (proj false sched writes) (fst raised)
  && spec_stream ws (chunks_of true sched) (proj true sched writes) (snd raised)
  && opt_exn_eqb exc (if fst raised || snd raised then Some (exn_of how) else None).

(** The watchers that have to be in effect for a call: those given with the call,
    else the configured ones ([run.watchers]); under sudo additionally -- and last --
    sudo's own failing responder: prompt -> the per-call password if one was given,
    else the configured one; sentinel "Sorry, try again.".  Calls are independent:
    a watcher list or object used for an earlier call behaves as new. *)
Definition spec_watchers (cfg_ws : list watcher) (kw_ws : option (list watcher))
           (sudo : option sudo_info) : list watcher :=
  let base := match kw_ws with Some l => l | None => cfg_ws end in
  match sudo with
  | None => base
  | Some su =>
      let pw := match su_kw_password su with Some p => p | None => su_cfg_password su end in
      base ++ [WFail (lit (su_prompt su)) (password_line pw)
                     (lit ("Sorry, try again." ++ String (ascii_of_nat 10) "")%string)]
  end.

(** * The region in which the present code is proved to meet the specification

    [fa] / [ft]: the index repair / the [tried] repair is in place ([false] for the
    code as it stands).  A read is harmless for pattern [q] when no occurrence is
    completed by it, or when the whole-text scanner is not in the middle of an
    occurrence at the end of the read (no occurrence straddles the read boundary
    after a match in the same read -- F-C12a cannot lose anything).  For a failing
    watcher a read is harmless when it is the stream's first, or completes no
    sentinel, or the watcher has answered before (F-C12b cannot make it raise
    without a response). *)
Definition quiet (q : pattern) (B c R : text) : bool :=
  Nat.eqb (news q B c) 0 || Nat.eqb (st q 0 ((B ++ c) ++ R) (List.length (B ++ c))) 0.

Definition guard_w (fa ft : bool) (w : watcher) (r first : bool) (B c R : text) : bool :=
  (fa || quiet (pat_of w) B c R)
  && match w with
     | WFail _ _ s => (fa || quiet s B c R) && (ft || first || r || Nat.eqb (news s B c) 0)
     | WResp _ _ => true
     end.

Fixpoint guard_ws (fa ft : bool) (ws : list watcher) (resp : list bool) (first : bool)
         (B c R : text) : bool :=
  match ws, resp with
  | w :: ws', r :: resp' => guard_w fa ft w r first B c R && guard_ws fa ft ws' resp' first B c R
  | _, _ => true
  end.

Fixpoint guard_stream (fa ft : bool) (ws : list watcher) (B : text) (resp : list bool)
         (first : bool) (chunks : list text) : bool :=
  match chunks with
  | [] => true
  | c :: cs =>
      guard_ws fa ft ws resp first B c (List.concat cs)
      && (if raises ws resp B c then true
          else guard_stream fa ft ws (B ++ c) (responded ws resp B c) false cs)
  end.

Definition guard (fa ft : bool) (ws : list watcher) (sched : list event) : bool :=
  guard_stream fa ft ws [] (map (fun _ => false) ws) true (chunks_of false sched)
  && guard_stream fa ft ws [] (map (fun _ => false) ws) true (chunks_of true sched).
