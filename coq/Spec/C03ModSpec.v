(** C03, the runtime-modifications level: what a history of edits *defines*.

    A script of the property may go on, after its load calls, with edits made
    through the configuration itself ([c.a.b = v], [del c.a.b], [pop], [popitem],
    [clear], [setdefault], [update], and [merge()] again).  They make up the
    highest level.  What that level holds after the history is stated with plain
    bookkeeping, never with a merge:

    - [ms_mods]: the nested dictionary obtained by carrying out the writes in
      order ([d[k1]...[kn] = v], creating missing parents; a later write at or
      above a path replaces what was written there);
    - [ms_dels]: the deletions in force.  A write at [p] cancels the deletion
      recorded at [p] itself and every deletion recorded below [p] that the
      modifications level defines again after the write (the written dict holds
      that key);
    - [ms_unsure]: deletions recorded below a path that was then assigned a
      dict which does NOT define them again.  The property does not say whether
      such a setting stays deleted or comes back from the lower levels: both are
      accepted, until a later write defines the path or a later deletion covers
      it.

    After every call the view must show, at EVERY path: nothing where a deletion
    in force covers the path; else what the highest level defining it says, the
    modifications being the highest ([mview_ok]).  In particular every setting
    the modifications level defines and no deletion covers is visible with that
    value, and sections stay the union of the levels' sections.

    Whether an edit succeeds, and which keys [clear] / [popitem] remove, is read
    off the view observed right before the call (already judged), as an
    ordinary nested dictionary would decide it ([walk] of Spec/C06Spec.v). *)
From InvokeVerif Require Export Common.Tree Common.StrUtil Model.ConfigTypes Spec.C03Spec.
(* [set_path], [is_prefix], [walk], [miss_of]: the nested-dictionary vocabulary of C06's
   specification (not re-exported: both specifications have a [spec_ok]) *)
From InvokeVerif Require Import Spec.C06Spec.

Record mstate := mkMS { ms_mods : dict; ms_dels : list path; ms_unsure : list path }.

Definition ms0 : mstate := mkMS [] [] [].

(** A recorded deletion covers the path itself and everything below it. *)
Definition masked_by (D : list path) (q : path) : bool := existsb (fun d => is_prefix d q) D.

Definition has_at (t : tree) (p : path) : bool :=
  match lookup p t with Some _ => true | None => false end.

Definition ms_write (st : mstate) (p : path) (v : tree) : mstate :=
  let M' := set_path (ms_mods st) p v in
  mkMS M'
       (filter (fun d => negb (is_prefix p d)) (ms_dels st))
       (filter (fun u => negb (has_at (Node M') u))
               (ms_unsure st ++ filter (fun d => is_prefix p d) (ms_dels st))).

Definition ms_delete (st : mstate) (p : path) : mstate :=
  mkMS (ms_mods st) (ms_dels st ++ [p]) (ms_unsure st).

(** What the property says about a view given the level contents (lowest
    first, the modifications last), the deletions in force [D] and the
    deletions [U] whose fate the property leaves open. *)
Definition mview_ok (levels : list tree) (D U : list path) (view : tree) : bool :=
  wf view &&
  forallb (fun p =>
             shape_eqb (shape_at p view) (if masked_by D p then None else oracle p levels) ||
             (masked_by U p && shape_eqb (shape_at p view) None))
          (all_paths view ++ flat_map all_paths levels).

(** * One edit *)
Inductive mexp :=
| XOut                 (* not an edit of the history / outside the quantifier: judging stops *)
| XErr (e : err)       (* the call must raise [e] *)
| XRet                 (* the call must return (what it removes is read off the next view) *)
| XOk (st : mstate)    (* the call must return; the bookkeeping afterwards *)
| XBad.                (* the next view cannot be the result of the call *)

Definition dict_of (t : tree) : dict := match t with Node d => d | Leaf _ => [] end.

Definition nav_view (fl : flavour) (prev : tree) (kp : path) (k : dict -> mexp) : mexp :=
  match walk fl (dict_of prev) kp with
  | Ok d => k d
  | Err e => XErr e
  end.

Definition dflt_value (d : option tree) : tree :=
  match d with Some dv => dv | None => Leaf VNone end.

(** [prev]: the view before the call; [next]: the view after it when it
    returned (consulted by [popitem] only: a dict may pop any item). *)
Definition mod_step (st : mstate) (prev : tree) (next : option tree) (o : op) : mexp :=
  match o with
  | SetV fl kp k v => nav_view fl prev kp (fun _ => XOk (ms_write st (kp ++ [k]) v))
  | Del fl kp k =>
      nav_view fl prev kp (fun d =>
        if has k d then XOk (ms_delete st (kp ++ [k])) else XErr (miss_of fl))
  | Pop fl kp k dflt =>
      nav_view fl prev kp (fun d =>
        if has k d then XOk (ms_delete st (kp ++ [k]))
        else match dflt with Some _ => XOk st | None => XErr EKey end)
  | PopItem fl kp =>
      nav_view fl prev kp (fun d =>
        match d with
        | [] => XErr EKey
        | _ :: _ =>
            match next with
            | None => XRet
            | Some nv =>
                match filter (fun k => negb (has_at nv (kp ++ [k]))) (keys d) with
                | [k] => XOk (ms_delete st (kp ++ [k]))
                | _ => XBad
                end
            end
        end)
  | Clear fl kp =>
      nav_view fl prev kp (fun d =>
        XOk (fold_left (fun s k => ms_delete s (kp ++ [k])) (keys d) st))
  | SetDefault fl kp k dflt =>
      nav_view fl prev kp (fun d =>
        if has k d then XOk st else XOk (ms_write st (kp ++ [k]) (dflt_value dflt)))
  | Update fl kp kvs =>
      nav_view fl prev kp (fun _ =>
        XOk (fold_left (fun s kv => ms_write s (kp ++ [fst kv]) (snd kv)) kvs st))
  | Merge => XOk st
  | _ => XOut
  end.

Definition is_mod_op (o : op) : bool :=
  match o with
  | SetV _ _ _ _ | Del _ _ _ | Pop _ _ _ _ | PopItem _ _ | Clear _ _ | SetDefault _ _ _ _
  | Update _ _ _ => true
  | _ => false
  end.

(** * Judging the edits of a script *)
Definition snap := (tree * tree * list (option string))%type.

Definition all_levels (s : supplied) (st : mstate) (envl : tree) : list tree :=
  levels9 s envl ++ [Node (ms_mods st)].

(** Inside the quantifier: the ten levels are type-consistent dictionaries. *)
Definition scope_now (s : supplied) (st : mstate) (envl : tree) : bool :=
  let ls := all_levels s st envl in
  levels_tc ls && forallb wf ls && forallb is_node ls.

Definition env_part_ok (pfx : string) (s : supplied) (envl : tree) : bool :=
  match s_env s with
  | Some env => env_outcome_ok pfx env (levels8 s) (Ok envl)
  | None => tree_eqb envl (Node [])
  end.

Definition snap_ok (pfx : string) (s : supplied) (st : mstate) (m : snap) : bool :=
  let '(view, envl, sfxs) := m in
  env_part_ok pfx s envl && sfx_ok (s_sfx s) sfxs &&
  mview_ok (all_levels s st envl) (ms_dels st) (ms_unsure st) view.

(** [prev]: the snapshot before the first of [mods]; [mids]: one snapshot per
    call that returned; [final]: the exception of the call that raised, if any. *)
Fixpoint judge_mods (pfx : string) (s : supplied) (st : mstate) (prev : snap) (mods : list op)
         (mids : list snap) (final : option err) : bool :=
  match mods with
  | [] => true
  | o :: rest =>
      let '(pview, penv, _) := prev in
      match mids with
      | m :: mids' =>
          let '(view, envl, _) := m in
          match mod_step st pview (Some view) o with
          | XOut => true
          | XErr _ | XBad | XRet => false
          | XOk st' =>
              if negb (env_part_ok pfx s envl) then false
              else if negb (scope_now s st' envl) then true
              else snap_ok pfx s st' m && judge_mods pfx s st' m rest mids' final
          end
      | [] =>
          match final with
          | None => true
          | Some e =>
              match mod_step st pview None o with
              | XOut => true
              | XErr e' => err_eqb e e'
              | XRet | XBad => false
              | XOk st' => negb (scope_now s st' penv)   (* a clash of types may raise *)
              end
          end
      end
  end.

(** The edits start after a settled load script whose levels are inside the
    quantifier and whose last snapshot is there to start from.  [out]: the
    answer outside that scope; [K]: what to do inside. *)
Definition enter_with (out : bool) (K : supplied -> snap -> bool)
           (fs : fsys) (i : init_args) (loads : list op) (prev : snap) : bool :=
  if negb (wf_script loads) then out else
  let s := supplied_of fs i loads in
  if negb (levels_tc (levels8 s) && forallb wf (levels8 s)) then out else
  if s_unreadable s then out else
  let '(_, penv, _) := prev in
  if negb (scope_now s ms0 penv) then out else K s prev.

Definition enter_mods (fs : fsys) (i : init_args) (pfx : string) (loads : list op) (prev : snap)
           (mods : list op) (mids : list snap) (final : option err) : bool :=
  enter_with true (fun s pv => judge_mods pfx s ms0 pv mods mids final) fs i loads prev.

(** Walk to the first edit: [K loads prev mods mids]. *)
Fixpoint find_mods (out : bool) (K : list op -> snap -> list op -> list snap -> bool)
         (done rest : list op) (prev : option snap) (mids : list snap) : bool :=
  match rest with
  | [] => out
  | o :: rest' =>
      if is_mod_op o then
        match prev with
        | Some pv => K done pv rest mids
        | None => out
        end
      else
        match mids with
        | m :: mids' => find_mods out K (done ++ [o]) rest' (Some m) mids'
        | [] => out
        end
  end.

Definition spec_mods_ok (fs : fsys) (i : init_args) (pfx : string) (ops : list op)
           (mids : list snap) (final : option err) : bool :=
  find_mods true (fun loads pv mods ms => enter_mods fs i pfx loads pv mods ms final) [] ops None mids.

(** Statistics: the script has edits, they are inside the scope and judged to
    the end (every call returned and stayed inside the quantifier). *)
Fixpoint mods_judged (s : supplied) (st : mstate) (prev : snap) (mods : list op) (mids : list snap) : bool :=
  match mods, mids with
  | [], _ => true
  | o :: rest, m :: mids' =>
      let '(pview, _, _) := prev in
      let '(view, envl, _) := m in
      match mod_step st pview (Some view) o with
      | XOk st' => scope_now s st' envl && mods_judged s st' m rest mids'
      | _ => false
      end
  | _ :: _, [] => false
  end.

Definition mods_in_scope (fs : fsys) (i : init_args) (ops : list op) (mids : list snap) : bool :=
  find_mods false (fun loads pv mods ms =>
                     enter_with false (fun s pv' => mods_judged s ms0 pv' mods ms) fs i loads pv)
            [] ops None mids.
