(** C14, judged on an observed run of the event script.

    "If a timeout is in effect and the command is still running when it elapses,
    the command is killed and a timed-out failure carrying the output captured so
    far is raised promptly, whatever the warn setting; if the command finishes
    first, the normal outcome results, no timed-out failure is raised and nothing
    is killed afterwards.  The timeout in effect is the per-call value if given,
    otherwise the configured or command-line one." *)
From InvokeVerif Require Export Model.RunnerSM.
(* only the TYPES of RunnerSM are used here *)

Inductive race := NoExpiry | ExpiredWhileRunning | FinishedFirst.

(** which of the two happens first in the script: the process ending by itself
    or the timer expiring *)
Fixpoint first_of (script : list ev) : race :=
  match script with
  | [] => NoExpiry
  | ETimer :: _ => ExpiredWhileRunning
  | (EExit _ | EExitKbd _) :: _ => FinishedFirst
  | _ :: r => first_of r
  end.

Definition has_exc (script : list ev) : bool :=
  existsb (fun e => match e with EExc _ _ => true | _ => false end) script.
Definition has_kbd (script : list ev) : bool :=
  existsb (fun e => match e with EKbd | EExitKbd _ => true | _ => false end) script.

Definition exit_code (script : list ev) : option Z :=
  match find (fun e => match e with EExit _ | EExitKbd _ => true | _ => false end) script with
  | Some (EExit c) | Some (EExitKbd c) => Some c
  | _ => None
  end.

Fixpoint count_chunks (w : who) (script : list ev) : nat :=
  match script with
  | [] => 0
  | EChunk w' :: r =>
      (match w, w' with WOut, WOut | WErr, WErr => 1 | _, _ => 0 end) + count_chunks w r
  | EEof w' :: r =>
      match w, w' with WOut, WOut | WErr, WErr => 0 | _, _ => count_chunks w r end
  | _ :: r => count_chunks w r
  end.

Definition outcome_eqb (a b : outcome) : bool :=
  match a, b with
  | OResult, OResult | OUnexpectedExit, OUnexpectedExit | OFailure, OFailure
  | OTimedOut, OTimedOut | OThreadException, OThreadException
  | OChildProcessError, OChildProcessError | OStartError, OStartError | OOther, OOther => true
  | _, _ => false
  end.

(** the process was started, no worker is made to fail, no interrupt: the cases
    the statement is about *)
Definition in_scope (c : cfg) (script : list ev) : bool :=
  negb (c_start_fail c) && negb (has_exc script) && negb (has_kbd script).

Definition spec_ok (c : cfg) (script : list ev) (o : sm_obs) : bool :=
  if negb (in_scope c script) then true else
  if negb (c_timeout c) then
    (* no timeout in effect: never killed, never reported as timed out *)
    Nat.eqb (o_kills o) 0 &&
    match o_outcome o with Some OTimedOut => false | _ => true end
  else
    match first_of script with
    | ExpiredWhileRunning =>
        (* killed, reported as timed out whatever warn, promptly, with the output so far *)
        Nat.leb 1 (o_kills o) &&
        match o_outcome o with
        | Some OTimedOut => Nat.eqb (o_nout o) (count_chunks WOut script) &&
                            (c_pty c || Nat.eqb (o_nerr o) (count_chunks WErr script))
        | _ => false
        end
    | FinishedFirst =>
        (* normal outcome, nothing killed -- now or later: the timer is disarmed *)
        Nat.eqb (o_kills o) 0 && (negb (o_timer_armed o) || match o_outcome o with None => true | _ => false end) &&
        match o_outcome o, exit_code script with
        | Some oc, Some code =>
            outcome_eqb oc (if Z.eqb code 0 || c_warn c then OResult else OUnexpectedExit)
        | None, _ => c_hold_out c || c_hold_err c      (* only a held pipe may delay it (C08) *)
        | _, _ => false
        end
    | NoExpiry => Nat.eqb (o_kills o) 0
    end.

(** timeout source: the per-call value if given (an explicit None included: it
    switches a configured timeout off), else the configured one *)
Definition opt_nat_same (a b : option nat) : bool :=
  match a, b with
  | Some x, Some y => Nat.eqb x y
  | None, None => true
  | _, _ => false
  end.

Definition timeout_ok (kwarg : option (option nat)) (config got : option nat) : bool :=
  match kwarg with
  | Some v => opt_nat_same v got
  | None => opt_nat_same config got
  end.
