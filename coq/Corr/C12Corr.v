(** Correspondence record for C12: watchers, how they were driven, the schedule of
    reads, and what the implementation did (writes to the child's stdin per read,
    which IO threads died of ResponseNotAccepted, what the call raised), plus what
    the real [re.findall] counted for every pattern on every stream's whole text. *)
From InvokeVerif Require Export Model.WatchModel Spec.C12Spec.

(** The variant of the model that describes /repo: the code after the fixes
    28f435d / 380f659 (F-C12a, F-C12b repaired). *)
Definition impl_variant : variant := current.

Record case := mk {
  c_ws : list watcher;                       (* the caller's watchers *)
  c_sudo : option (string * string);         (* (prompt, password) when driven through Context.sudo *)
  c_how : via;
  c_sched : list event;
  c_writes : list (list string);
  c_raised : bool * bool;
  c_exc : option exn;
  c_occ : list (pattern * string * nat)      (* (pattern, text, len(re.findall(pattern, text, re.S))) *)
}.

Definition all_ws (c : case) : list watcher :=
  c_ws c ++ match c_sudo c with Some (pr, pw) => [sudo_watcher pr pw] | None => [] end.

Definition writes_eqb (a b : list (list string)) : bool := list_eqb strs_eqb a b.

Definition corr_with (v : variant) (c : case) : bool :=
  let '(w, r) := run v (all_ws c) (c_sched c) in
  writes_eqb w (c_writes c)
  && Bool.eqb (fst r) (fst (c_raised c)) && Bool.eqb (snd r) (snd (c_raised c))
  && opt_exn_eqb (outcome_exn (c_how c) r) (c_exc c).

(** the regex-family semantics agrees with the real [re] module on this case *)
Definition re_ok (c : case) : bool :=
  forallb (fun x => Nat.eqb (occ (fst (fst x)) (chars (snd (fst x)))) (snd x)) (c_occ c).

Definition corr (c : case) : bool := corr_with impl_variant c && re_ok c.

(** would the pre-fix model describe the implementation (informative only: true on a
    case outside the guard means the old defect is back) *)
Definition corr_before_fix (c : case) : bool := corr_with before_fix c.

Definition spec (c : case) : bool :=
  spec_ok (all_ws c) (c_sched c) (c_how c) (c_writes c) (c_raised c) (c_exc c).

