(** Correspondence record for C12: configured and per-call watchers, sudo set-up, how
    the watchers were driven, and one or two successive calls reusing the same
    watcher objects / list -- for each call the schedule of reads and what the
    implementation did (writes to the child's stdin per read, which IO threads died
    of ResponseNotAccepted, what the call raised) -- plus what the real [re.findall]
    counted for every pattern on every stream's whole text. *)
From InvokeVerif Require Export Model.WatchModel Model.WatchBytesModel Spec.C12Spec Spec.C12BytesSpec.

(** The variant of the model that describes /repo: the code after the fixes
    28f435d / 380f659 (F-C12a, F-C12b repaired). *)
Definition impl_variant : variant := current.

Record call_obs := mkCall {
  k_sched : list event;
  k_writes : list (list string);
  k_raised : bool * bool;
  k_exc : option exn
}.

Record case := mk {
  c_cfg_ws : list watcher;                   (* config.run.watchers *)
  c_kw_ws : option (list watcher);           (* watchers= of the call(s), when passed *)
  c_sudo : option sudo_info;                 (* when driven through Context.sudo *)
  c_how : via;
  c_eof : bool;                              (* in_stream at end-of-file (else in_stream=False) *)
  c_calls : list call_obs;                   (* successive calls, same objects *)
  c_occ : list (pattern * string * nat);     (* (pattern, text, len(re.findall(pattern, text, re.S))) *)
  c_bytes : bool                             (* the schedules are BYTE reads (UTF-8, one character per
                                                byte, cut anywhere); else text reads *)
}.

(** The schedule of text reads the model works on: the reads themselves, or -- byte
    reads -- what each IO thread's own incremental decoder makes of them. *)
Definition model_sched (bytes : bool) (sched : list event) : list event :=
  if bytes then text_events (decoded sched) else sched.

(** What the specification judges: the reads themselves, or the whole characters
    each byte read completes on its stream. *)
Definition spec_sched (bytes : bool) (sched : list event) : list event :=
  if bytes then text_sched [] [] sched else sched.

(** per read, the text written (not the write calls) *)
Definition writes_eqb (a b : list (list string)) : bool :=
  list_eqb (fun x y => String.eqb (flat x) (flat y)) a b.

Definition call_corr (v : variant) (eof bytes : bool) (ws : list watcher) (how : via) (k : call_obs) : bool :=
  (if bytes then in_region (k_sched k) else true) &&
  if eof then
    let '(w, r, broke) := run_eof v ws (model_sched bytes (k_sched k)) in
    writes_eqb w (k_writes k)
    && Bool.eqb (fst r) (fst (k_raised k)) && Bool.eqb (snd r) (snd (k_raised k))
    && opt_exn_eqb (outcome_exn_eof how r broke) (k_exc k)
  else
    let '(w, r) := run v ws (model_sched bytes (k_sched k)) in
    writes_eqb w (k_writes k)
    && Bool.eqb (fst r) (fst (k_raised k)) && Bool.eqb (snd r) (snd (k_raised k))
    && opt_exn_eqb (outcome_exn how r) (k_exc k).

Definition corr_with (v : variant) (c : case) : bool :=
  forallb (call_corr v (c_eof c) (c_bytes c) (call_watchers (c_cfg_ws c) (c_kw_ws c) (c_sudo c)) (c_how c))
          (c_calls c).

(** the regex-family semantics agrees with the real [re] module on this case *)
Definition re_ok (c : case) : bool :=
  forallb (fun x => Nat.eqb (occ (fst (fst x)) (chars (snd (fst x)))) (snd x)) (c_occ c).

Definition corr (c : case) : bool := corr_with impl_variant c && re_ok c.

(** would the pre-fix model describe the implementation (informative only) *)
Definition corr_before_fix (c : case) : bool := corr_with before_fix c.

Definition spec (c : case) : bool :=
  forallb (fun k => spec_ok (spec_watchers (c_cfg_ws c) (c_kw_ws c) (c_sudo c))
                            (spec_sched (c_bytes c) (k_sched k)) (c_how c)
                            (k_writes k) (k_raised k) (k_exc k)) (c_calls c).
