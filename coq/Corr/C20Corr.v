(** Correspondence record for C20. *)
From InvokeVerif Require Export Model.LoaderModel Spec.C20Spec.

(** raw outcome of FilesystemLoader(start=...).load(name) *)
Inductive raw_obs :=
| RLoaded (file parent : string)
| RNotFound
| RImportError
| ROther.

(** what an earlier use of the SAME loader object answered: [.start] read, or
    [load(name)], in working directory [cwd] *)
Inductive step_obs :=
| SStart (cwd s : string)
| SLoad (cwd : string) (o : raw_obs).

Record case := mk {
  c_fs : fsys; c_cwd : string; c_start : string; c_name : string;
  c_raw : raw_obs;          (* module.__file__, parent as returned *)
  c_abs : observed;         (* the same made absolute (os.path.abspath) *)
  c_default_start : bool;   (* the loader was built without a start: [c_start] = [c_cwd] *)
  c_prev : list step_obs }. (* earlier uses of the same loader object, in order *)

Definition raw_eqb (m : load_res) (o : raw_obs) : bool :=
  match m, o with
  | Loaded f p, RLoaded f' p' => String.eqb f f' && String.eqb p p'
  | NotFound, RNotFound => true
  | ImportErr, RImportError => true
  | _, _ => false
  end.

(** the harness made raw and absolute observations consistently *)
Definition obs_consistent (c : case) : bool :=
  match c_raw c, c_abs c with
  | RLoaded _ _, OLoaded _ _ | RNotFound, ONotFound | RImportError, OImportError | ROther, OOther => true
  | _, _ => false
  end.

Definition given_start (c : case) : option string :=
  if c_default_start c then None else Some (c_start c).

Definition step_eqb (c : case) (o : step_obs) : bool :=
  match o with
  | SStart cwd s =>
      match step_run (c_fs c) (given_start c) (c_name c) (LStart cwd) with
      | RStart s' => String.eqb s' s
      | RLoad _ => false
      end
  | SLoad cwd r =>
      match step_run (c_fs c) (given_start c) (c_name c) (LLoad cwd) with
      | RLoad m => raw_eqb m r
      | RStart _ => false
      end
  end.

Definition corr (c : case) : bool :=
  raw_eqb (load (c_fs c) (c_cwd c) (c_name c) (eff_start (given_start c) (c_cwd c))) (c_raw c) &&
  (if c_default_start c then String.eqb (c_start c) (c_cwd c) else true) &&
  forallb (step_eqb c) (c_prev c) && obs_consistent c.

(** the property quantifies over start *directories*: a start path that does
    not exist is outside it (the implementation answers CollectionNotFound
    without looking further up, which the correspondence still checks) *)
Definition start_exists (c : case) : bool :=
  match listdir (c_fs c) (dir_str (abs_comps (c_cwd c) (c_start c))) with
  | Some _ => true
  | None => false
  end.

Definition spec (c : case) : bool :=
  negb (start_exists c) || spec_ok (c_fs c) (c_cwd c) (c_start c) (c_name c) (c_abs c).

