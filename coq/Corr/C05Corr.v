(** Correspondence record for C05: three kinds of cases. *)
From InvokeVerif Require Export Model.ExitModel Spec.C05Spec.

Inductive case :=
(** a real child process run through Local: how it was made to end, pty?,
    where warn comes from (configuration x keyword), the raw wait status seen
    by Local (pty only), what run()/join() did *)
| CReal (e : ending) (pty : bool) (ws : warn_src) (raw : option Z) (o : outcome)
(** the real Runner._finish driven through a scripted subclass; the [s_warn]
    field of [s] is not used: warn is decided from [ws] (by the model for
    [corr], by the property's reading for [spec]) *)
| CScripted (s : situation) (ws : warn_src) (o : outcome)
(** Program.run in-process on a task doing c.run("exit code", warn=kw), with /
    without -w, run.warn configured on the collection or not *)
| CProgRun (flag : bool) (cfg : option bool) (kw : kwopt) (code : Z) (o : prog_out)
(** Program.run in-process *)
| CProgram (e : prog_event) (o : prog_out)
(** Local.returncode under a pty, handed the wait status [raw] the OS contract
    gives ending [e] (with / without the core-dump flag) *)
| CDecode (e : ending) (core : bool) (raw : Z) (d : decoded)
with decoded := DCode (rc : option Z) | DBad.

Definition rview_eqb (a b : rview) : bool :=
  optz_eqb (rv_exited a) (rv_exited b) && Bool.eqb (rv_ok a) (rv_ok b) &&
  Bool.eqb (rv_failed a) (rv_failed b) && Bool.eqb (rv_bool a) (rv_bool b) &&
  optz_eqb (rv_return_code a) (rv_return_code b).

Definition outcome_eqb (a b : outcome) : bool :=
  match a, b with
  | Return r, Return r' => rview_eqb r r'
  | Raise k None, Raise k' None => kind_eqb k k'
  | Raise k (Some r), Raise k' (Some r') => kind_eqb k k' && rview_eqb r r'
  | _, _ => false
  end.

Definition prog_out_eqb (a b : prog_out) : bool :=
  match a, b with
  | PReturns, PReturns | PPropagates, PPropagates => true
  | PSysExit x, PSysExit y => (x =? y)%Z
  | _, _ => false
  end.

(** OS contract on the raw status of a pty child *)
Definition raw_matches (e : ending) (raw : Z) : bool :=
  match e with
  | Exited c => (raw =? exit_status c)%Z
  | Killed s => (raw =? sig_status s false)%Z || (raw =? sig_status s true)%Z
  end.

(** what run() / sudo() / Promise.join() does in a situation (the scripted
    returncode is the situation's status) *)
Definition run_outcome (s : situation) : outcome :=
  let o := finish (s_thread_excs s) (s_watcher_errs s) (s_timeout_set s) (s_timed_out s)
                  (Some (s_status s)) (s_warn s) in
  if s_sudo s then sudo_wrap (s_bad_password s) o else o.

Definition corr (c : case) : bool :=
  match c with
  | CReal e pty ws raw o =>
      let warn := opts_warn ws in
      match pty, raw with
      | true, Some st =>
          raw_matches e st && outcome_eqb (finish 0 0 false false (pty_returncode st) warn) o
      | false, None =>
          (* subprocess.Popen.returncode (assumed): the code, or -signal *)
          outcome_eqb (finish 0 0 false false (Some (true_status e)) warn) o
      | _, _ => false
      end
  | CScripted s ws o => outcome_eqb (run_outcome (set_warn s (opts_warn ws))) o
  | CProgRun flag cfg kw code o => prog_out_eqb (program_task_run flag cfg kw code) o
  | CProgram e o => prog_out_eqb (program_run e) o
  | CDecode e core raw d =>
      (raw =? match e with Exited c => exit_status c | Killed s => sig_status s core end)%Z &&
      match d with DCode rc => optz_eqb (pty_returncode raw) rc | DBad => false end
  end.

Definition spec (c : case) : bool :=
  match c with
  | CReal e pty ws raw o =>
      spec_finish (mkSit 0 0 false false (true_status e) (warn_requested ws) false false) o
  | CScripted s ws o => spec_finish (set_warn s (warn_requested ws)) o
  | CProgRun flag cfg kw code o => spec_task_run flag cfg kw code o
  | CProgram e o => spec_program e o
  | CDecode e core raw d =>
      (* the status reported is the true one, whether or not a core was dumped *)
      match d with DCode rc => optz_eqb rc (Some (true_status e)) | DBad => false end
  end.
