(** Correspondence record for C17: a build script, candidate names, the built
    tree as dumped from the real objects, and for every name what
    [coll[name]] / [coll.configuration(name)] gave. *)
From InvokeVerif Require Export Model.CollModel Model.CollHist Spec.C17Spec.

Record case := mk {
  c_script : item;
  c_names : list string;
  c_state : result coll;                      (* dump of the real Collection tree *)
  c_obs : list (result (nat * tree));         (* per name: (task id, configuration) *)
  c_body : list (result (nat * tree));        (* per name: what the task body saw as its
                                                 context's config when the name was executed
                                                 (Executor, empty Config): (task id, deep view) *)
  (* build-history cases: the tree was NOT built by [c_script] but by replaying [h] (one module object
     with an explicit namespace mounted several times, configure() calls in between); [c_script] then is
     the harness's flattened expectation (every mount a collection of its own: namespace configuration at
     the moment of the mount + config= + the configure() calls on that very mount), [c_nsscript] the same
     for the module's own namespace object and [c_modns] the dump of that object after the history *)
  c_hist : option hist;
  c_nsscript : option item;
  c_modns : option coll
}.

Definition obs_equiv (a b : result (nat * tree)) : bool :=
  match a, b with
  | Ok (i, x), Ok (j, y) => Nat.eqb i j && dict_equiv x y && dict_equiv y x
  | Err e1, Err e2 => err_eqb e1 e2
  | _, _ => false
  end.

Definition model_obs (c : coll) (name : string) : result (nat * tree) :=
  match task_with_config c name with
  | Ok (t, d) => Ok (t_id t, Node d)
  | Err e => Err e
  end.

(** the tree the model builds: by replaying the history if there is one *)
Definition model_tree (c : case) : result coll :=
  match c_hist c with
  | Some h => match run_hist h with Ok st => Ok (hs_root st) | Err e => Err e end
  | None => build (c_script c)
  end.

Definition corr (c : case) : bool :=
  match model_tree c, c_state c with
  | Err e1, Err e2 => err_eqb e1 e2
  | Ok m, Ok s =>
      coll_eqb m s &&
      list_eqb obs_equiv (map (model_obs m) (c_names c)) (c_obs c) &&
      (* with an otherwise empty Config the body's view is the collection level *)
      list_eqb obs_equiv (map (model_obs m) (c_names c)) (c_body c) &&
      match c_hist c with
      | None => true
      | Some h =>
          (* the module's own namespace object after the history *)
          match run_hist h, c_modns c with
          | Ok st, Some n => coll_eqb (hs_ns st) n
          | _, _ => false
          end &&
          (* (tested, not proved: the flattened script builds the same tree) *)
          match build (c_script c) with Ok f => coll_eqb f s | Err _ => false end
      end
  | _, _ => false
  end.

Fixpoint all2 {A B} (f : A -> B -> bool) (l1 : list A) (l2 : list B) : bool :=
  match l1, l2 with
  | [], [] => true
  | a :: l1', b :: l2' => f a b && all2 f l1' l2'
  | _, _ => false
  end.

(** Judged against the tree the implementation actually built. *)
Definition spec (c : case) : bool :=
  match c_state c with
  | Ok s => (if ns_wf s then cfg_match (c_script c) s else true) &&
            all2 (spec_ok s) (c_names c) (c_obs c) && all2 (spec_ok s) (c_names c) (c_body c) &&
            spelling_invariant (c_names c) (c_obs c) && spelling_invariant (c_names c) (c_body c) &&
            (* the module's own namespace object holds what was configured on IT: nothing of its mounts *)
            match c_nsscript c, c_modns c with
            | Some it, Some n => if ns_wf n then cfg_match it n else true
            | _, _ => true
            end
  | Err _ => true
  end.
