(** Correspondence record for C17: a build script, candidate names, the built
    tree as dumped from the real objects, and for every name what
    [coll[name]] / [coll.configuration(name)] gave. *)
From InvokeVerif Require Export Model.CollModel Spec.C17Spec.

Record case := mk {
  c_script : item;
  c_names : list string;
  c_state : result coll;                      (* dump of the real Collection tree *)
  c_obs : list (result (nat * tree));         (* per name: (task id, configuration) *)
  c_body : list (result (nat * tree))         (* per name: what the task body saw as its
                                                 context's config when the name was executed
                                                 (Executor, empty Config): (task id, deep view) *)
}.

Definition obs_equiv (a b : result (nat * tree)) : bool :=
  match a, b with
  | Ok (i, x), Ok (j, y) => Nat.eqb i j && dict_equiv x y && dict_equiv y x
  | Err e1, Err e2 => err_eqb e1 e2
  | _, _ => false
  end.

Definition model_obs (c : coll) (name : string) : result (nat * tree) :=
  match task_with_config c name with
  | Ok (t, d) => Ok (t_id t, Node d)
  | Err e => Err e
  end.

Definition corr (c : case) : bool :=
  match build (c_script c), c_state c with
  | Err e1, Err e2 => err_eqb e1 e2
  | Ok m, Ok s =>
      coll_eqb m s &&
      list_eqb obs_equiv (map (model_obs m) (c_names c)) (c_obs c) &&
      (* with an otherwise empty Config the body's view is the collection level *)
      list_eqb obs_equiv (map (model_obs m) (c_names c)) (c_body c)
  | _, _ => false
  end.

Fixpoint all2 {A B} (f : A -> B -> bool) (l1 : list A) (l2 : list B) : bool :=
  match l1, l2 with
  | [], [] => true
  | a :: l1', b :: l2' => f a b && all2 f l1' l2'
  | _, _ => false
  end.

(** Judged against the tree the implementation actually built. *)
Definition spec (c : case) : bool :=
  match c_state c with
  | Ok s => (if ns_wf s then cfg_match (c_script c) s else true) &&
            all2 (spec_ok s) (c_names c) (c_obs c) && all2 (spec_ok s) (c_names c) (c_body c) &&
            spelling_invariant (c_names c) (c_obs c) && spelling_invariant (c_names c) (c_body c)
  | Err _ => true
  end.
