(** Correspondence records for C02.
    [case]  : one scripted run of the real Runner (read scripts for both streams,
              hide/override/pty/async options) and what was observed.
    [dcase] : one [bytes.decode(enc,'replace')] call (decoder validation). *)
From InvokeVerif Require Export Model.ReadLoopModel Spec.C02Spec.

Record case := mk {
  c_in : run_in;
  c_done : bool;      (* run()/join() came back with a Result (or a Failure carrying one) in time *)
  c_silent : bool;    (* nothing went to the stream objects the run was NOT told to use
                         (sys.stdout/sys.stderr when out_stream/err_stream are given, and vice versa) *)
  c_obs : run_obs
}.

Definition to_req (h : hide_val) : hide_req :=
  match h with
  | HNone => QNone | HFalse => QFalse | HOut => QOut | HStdout => QStdout
  | HErr => QErr | HStderr => QStderr | HBoth => QBoth | HTrue => QTrue
  end.

Definition obs_eqb (a b : run_obs) : bool :=
  text_eqb (ro_stdout a) (ro_stdout b) && text_eqb (ro_stderr a) (ro_stderr b) &&
  text_eqb (ro_out_stream a) (ro_out_stream b) && text_eqb (ro_err_stream a) (ro_err_stream b) &&
  texts_eqb (ro_out_submits a) (ro_out_submits b) && texts_eqb (ro_err_submits a) (ro_err_submits b).

(* The code as it is (since the F-C02 fix): one incremental decoder per stream.
   Texts only: CPython's incremental decoder holds back a truncated ED A0..BF pair
   (surrogatepass support) until the next read, so its per-read pieces differ from
   [drun]'s in that one corner while the totals agree. *)
Definition obs_text_eqb (a b : run_obs) : bool :=
  text_eqb (ro_stdout a) (ro_stdout b) && text_eqb (ro_stderr a) (ro_stderr b) &&
  text_eqb (ro_out_stream a) (ro_out_stream b) && text_eqb (ro_err_stream a) (ro_err_stream b).
(* ... so the watcher submissions are compared exactly unless a byte ED occurs *)
Definition script_has_ed (s : list rev) : bool :=
  existsb (fun ev => match ev with RChunk bs => existsb (N.eqb 237) bs | RExit => false end) s.
Definition has_ed (i : run_in) : bool := script_has_ed (ri_out i) || script_has_ed (ri_err i).

Definition corr (c : case) : bool :=
  c_done c && c_silent c && obs_text_eqb (run_model_inc (c_in c)) (c_obs c) &&
  (has_ed (c_in c) ||
   (texts_eqb (ro_out_submits (run_model_inc (c_in c))) (ro_out_submits (c_obs c)) &&
    texts_eqb (ro_err_submits (run_model_inc (c_in c))) (ro_err_submits (c_obs c)))).

(* Correspondence with the per-read loop the code had before the fix (historical;
   a tree that reverts the fix satisfies this one instead). *)
Definition corr_legacy (c : case) : bool := c_done c && obs_eqb (run_model (c_in c)) (c_obs c).

Definition spec_in (i : run_in) (o : run_obs) : bool :=
  spec_ok (ri_enc i) (stream_bytes (ri_out i)) (stream_bytes (ri_err i)) (to_req (ri_hide i))
          (ri_async i) (ri_out_given i) (ri_err_given i)
          (pty_in_effect (ri_pty i) (ri_stdin_fileno i) (ri_fallback i)) (ri_out_mirror i) (ri_err_mirror i)
          (ro_stdout o) (ro_stderr o) (ro_out_stream o) (ro_err_stream o).

Definition spec (c : case) : bool := c_done c && c_silent c && spec_in (c_in c) (c_obs c).

(** Decoder validation: model and reference against CPython. *)
Record dcase := mkd { d_enc : enc; d_bytes : bytes; d_text : text }.
Definition dcorr (c : dcase) : bool := text_eqb (decode_all (d_enc c) (d_bytes c)) (d_text c).
Definition dspec (c : dcase) : bool := text_eqb (ref_decode (d_enc c) (d_bytes c)) (d_text c).

(** Wrapper validation: [render] against a real io.TextIOWrapper(errors="backslashreplace"). *)
Record wcase := mkw { w_enc : menc; w_text : text; w_shown : text }.
Definition wcorr (c : wcase) : bool := text_eqb (render (w_enc c) (w_text c)) (w_shown c).
