(** Correspondence record for C18: the metamorphic triple base / front / placed,
    plus [norem], the placed line without its trailing "--" and remainder. *)
From InvokeVerif Require Export Corr.ParserCorr Spec.C18Spec.

Record case := mk {
  c_cs : list ctxspec;
  c_groups : list (list string);
  c_starts : list nat;        (* indices of the groups that are task names *)
  c_opt : list string;
  c_j : nat;
  c_flags : list string;
  c_rem : option (list string);
  c_base : result gobs;
  c_front : result gobs;
  c_norem : result gobs;      (* the placed line without the trailing "--" :: rem *)
  c_placed : result gobs
}.

Definition gobs_of (r : program_result) : gobs :=
  mkGObs (map (fun a => (main_name (r_spec a), arg_value a)) (pg_core r))
         (pg_unparsed r) (pg_remainder r) (map obs_of_ctx (pg_tasks r)).

Definition model_program (cs : list ctxspec) (argv : list string) : result gobs :=
  match program_parse core_ctx cs argv with
  | Ok r => Ok (gobs_of r)
  | Err e => Err e
  end.

Definition corr (c : case) : bool :=
  res_eqb gobs_eqb (model_program (c_cs c) (base_argv (c_groups c))) (c_base c)
  && res_eqb gobs_eqb (model_program (c_cs c) (front_argv (c_groups c) (c_opt c))) (c_front c)
  && res_eqb gobs_eqb
       (model_program (c_cs c) (placed_argv (c_groups c) (c_opt c) (c_j c) None)) (c_norem c)
  && res_eqb gobs_eqb
       (model_program (c_cs c) (placed_argv (c_groups c) (c_opt c) (c_j c) (c_rem c)))
       (c_placed c).

Definition spec (c : case) : bool :=
  spec_ok (c_cs c) core_ctx (c_starts c) (c_groups c) (c_opt c) (c_j c) (c_flags c) (c_rem c)
          (c_base c) (c_front c) (c_norem c) (c_placed c).

(** the model judged by the spec (bounded sweeps) *)
(** every single-token group that names a task counts as a task name here *)
Definition all_starts (cs : list ctxspec) (groups : list (list string)) : list nat :=
  flat_map (fun ig => match snd ig with
                      | [t] => if is_task_name cs t then [fst ig] else []
                      | _ => []
                      end) (combine (seq 0 (List.length groups)) groups).

Definition model_spec (cs : list ctxspec) (groups : list (list string)) (opt : list string)
           (j : nat) (flags : list string) (rem : option (list string)) : bool :=
  spec_ok cs core_ctx (all_starts cs groups) groups opt j flags rem
          (model_program cs (base_argv groups))
          (model_program cs (front_argv groups opt))
          (model_program cs (placed_argv groups opt j None))
          (model_program cs (placed_argv groups opt j rem)).
