(** Correspondence record for C09: one case = a task signature with its
    decorator options (help= included), the Python kinds of its parameters,
    and what Task.get_arguments + ParserContext produced, which help text
    every Argument carries, and whether calling the task with the produced
    keyword arguments handed every parameter its value. *)
From InvokeVerif Require Export Model.SigCtxModel Spec.C09Spec.

Record case := mk {
  c_sig : tsig;
  c_obs : result cli;
  c_help : list (string * string);            (* the help= dict, in insertion order *)
  c_help_obs : list (string * option string); (* (python name, Argument.help) in get_arguments order *)
  c_kinds : list pkind;                       (* parameter kinds, in signature order; [] = all plain *)
  c_calls : bool }.

Definition res_eqb (a b : result cli) : bool :=
  match a, b with
  | Ok x, Ok y => cli_eqb x y
  | Err e1, Err e2 => err_eqb e1 e2
  | _, _ => false
  end.

Definition with_binds (b : bool) (o : cli) : cli :=
  mkCli (o_args o) (o_flags o) (o_flag_aliases o) (o_inverse o) (o_positional o) (o_kwargs o) b
        (o_kind_names o) (o_takes o).

Definition ho_eqb (a b : string * option string) : bool :=
  String.eqb (fst a) (fst b) && opt_eqb String.eqb (snd a) (snd b).

(** the model's whole answer for the case *)
Definition model_cli (c : case) : result cli :=
  match get_help (c_sig c) (c_help c) with
  | Err e => Err e                      (* ValueError before any context is built *)
  | Ok _ =>
      match sig_cli (c_sig c) with
      | Ok o =>
          Ok (match c_kinds c with
              | [] => o
              | ks => with_binds (bind_kinds (s_params (c_sig c)) ks (o_kwargs o)) o
              end)
      | Err e => Err e
      end
  end.

Definition corr (c : case) : bool :=
  res_eqb (model_cli c) (c_obs c) &&
  match model_cli c, get_help (c_sig c) (c_help c) with
  | Ok o, Ok hs =>
      list_eqb ho_eqb hs (c_help_obs c) &&
      Bool.eqb (c_calls c) (o_binds o && call_ok (c_kinds c) (o_kwargs o))
  | _, _ => true
  end.

Definition spec (c : case) : bool :=
  spec_task (c_sig c) (c_help c) (c_obs c) (c_help_obs c) (c_calls c).
