(** Correspondence record for C09: one case = a task signature with its
    decorator options, and what Task.get_arguments + ParserContext produced. *)
From InvokeVerif Require Export Model.SigCtxModel Spec.C09Spec.

Record case := mk { c_sig : tsig; c_obs : result cli }.

Definition res_eqb (a b : result cli) : bool :=
  match a, b with
  | Ok x, Ok y => cli_eqb x y
  | Err e1, Err e2 => err_eqb e1 e2
  | _, _ => false
  end.

Definition corr (c : case) : bool := res_eqb (sig_cli (c_sig c)) (c_obs c).

Definition spec (c : case) : bool := spec_ok (c_sig c) (c_obs c).
