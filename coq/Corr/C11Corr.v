(** Correspondence record for C11: a history before cloning, [clone(into)],
    then operations on either object.  Observed: levels and deep views of both
    objects at the clone, both deep views and outcome after every later step,
    and the "sources intact / no shared dict object" flag of the snapshot
    comparison (aliasing is not expressible in the pure model: the model
    side of that flag is the constant [true]). *)
From InvokeVerif Require Export Model.ConfigModel Spec.C11Spec.
From InvokeVerif Require Import Corr.C06Corr.

Inductive obs11 :=
| ONoObject (e : err)                 (* the constructor raised *)
| OAborted (n : nat)                  (* the history before the clone ended abnormally at step n *)
| OCloneErr (e : err)
| OCloned (lo lc : list tree) (vo vc : tree) (intact : bool)
          (post : list (outcome * tree * tree * bool)).

Record case := mk {
  c_fs : fsys; c_init : init_args; c_pre : list sop; c_into : option tree;
  c_post : list (bool * sop); c_obs : obs11
}.

Definition levels10 (c : cfg) : list tree :=
  [c_defaults c; c_collection c; c_system c; c_user c; c_project c; c_env c; c_runtime c;
   c_overrides c; Node (c_mods c); Node (c_dels c)].

Fixpoint run_post (fs : fsys) (so sc : sess) (post : list (bool * sop))
  : list (outcome * dict * dict) :=
  match post with
  | [] => []
  | (on_clone, o) :: rest =>
      if on_clone then
        let '(sc', out) := sstep fs sc o in
        (out, c_cache (s_cfg so), c_cache (s_cfg sc')) ::
        (if abnormal out then [] else run_post fs so sc' rest)
      else
        let '(so', out) := sstep fs so o in
        (out, c_cache (s_cfg so'), c_cache (s_cfg sc)) ::
        (if abnormal out then [] else run_post fs so' sc rest)
  end.

Definition trees_equiv (a b : list tree) : bool :=
  Nat.eqb (List.length a) (List.length b) &&
  forallb (fun xy => tree_equiv (fst xy) (snd xy)) (combine a b).

Definition post_eqb (m : outcome * dict * dict) (o : outcome * tree * tree * bool) : bool :=
  let '(mo, m1, m2) := m in
  let '(oo, o1, o2, _) := o in
  outcome_eqb mo oo && tree_eqb (Node m1) o1 && tree_eqb (Node m2) o2.

Fixpoint aborted_at (tr : list (outcome * dict * tree)) (n : nat) : option nat :=
  match tr with
  | [] => None
  | (out, _, _) :: rest => if abnormal out then Some n else aborted_at rest (S n)
  end.

Definition corr (c : case) : bool :=
  match start (c_fs c) (c_init c) with
  | Err e => match c_obs c with ONoObject e' => err_eqb e e' | _ => false end
  | Ok c0 =>
      let '(so, tr) := srun (c_fs c) (sstart c0) (c_pre c) in
      match aborted_at tr 0 with
      | Some n => match c_obs c with OAborted n' => Nat.eqb n n' | _ => false end
      | None =>
          match clone (c_fs c) (s_cfg so) (c_into c) with
          | (_, OErr e) => match c_obs c with OCloneErr e' => err_eqb e e' | _ => false end
          | (cl, _) =>
              match c_obs c with
              | OCloned lo lc vo vc _ post =>
                  trees_equiv (levels10 (s_cfg so)) lo && trees_equiv (levels10 cl) lc &&
                  tree_eqb (Node (c_cache (s_cfg so))) vo && tree_eqb (Node (c_cache cl)) vc &&
                  all2 post_eqb (run_post (c_fs c) so (sstart cl) (c_post c)) post
              | _ => false
              end
          end
      end
  end.

Definition spec (c : case) : bool :=
  match c_obs c with
  | OCloned lo lc vo vc intact post =>
      C11Spec.spec_ok (c_into c) lo lc vo vc intact
              (map (fun sp => (fst (fst sp), snd (fst (fst (snd sp))), snd (fst (snd sp)), snd (snd sp)))
                   (combine (c_post c) post))
  | OCloneErr _ => false        (* cloning must not fail *)
  | _ => true                   (* no clone happened: nothing to judge *)
  end.
