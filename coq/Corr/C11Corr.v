(** Correspondence record for C11: a history before cloning, [clone(into)],
    then operations on either object.  Observed: levels and deep views of both
    objects at the clone, both deep views and outcome after every later step,
    and the "sources intact / no shared dict object" flag of the snapshot
    comparison (aliasing is not expressible in the pure model: the model
    side of that flag is the constant [true]). *)
From InvokeVerif Require Export Model.ConfigModel Spec.C11Spec Model.HeapMerge Spec.C11HeapSpec.
From InvokeVerif Require Import Corr.C06Corr.

Inductive obs11 :=
| ONoObject (e : err)                 (* the constructor raised *)
| OAborted (n : nat)                  (* the history before the clone ended abnormally at step n *)
| OCloneErr (e : err)
| OCloned (lo lc : list tree) (vo vc : tree) (intact : bool)
          (post : list (outcome * tree * tree * bool)).

(** Second kind of case: an object graph with deliberate sharing, one call of
    the real merge_dicts / copy_dict / Config.clone, and the object graph
    afterwards (old objects keep their address, objects created by the call are
    numbered from |h0| in the order the harness discovers them). *)
Inductive hop := HMerge (b u : addr) | HCopy (src : addr) | HClone (roots : list addr).
Inductive hobs := HErr (e : err) | HOk (h : heap) (res : list addr).

Inductive case :=
| mk (c_fs : fsys) (c_init : init_args) (c_pre : list sop) (c_into : option tree)
     (c_post : list (bool * sop)) (c_obs : obs11)
| mkh (h0 : heap) (o : hop) (obs : hobs).

Definition levels10 (c : cfg) : list tree :=
  [c_defaults c; c_collection c; c_system c; c_user c; c_project c; c_env c; c_runtime c;
   c_overrides c; Node (c_mods c); Node (c_dels c)].

Fixpoint run_post (fs : fsys) (so sc : sess) (post : list (bool * sop))
  : list (outcome * dict * dict) :=
  match post with
  | [] => []
  | (on_clone, o) :: rest =>
      if on_clone then
        let '(sc', out) := sstep fs sc o in
        (out, c_cache (s_cfg so), c_cache (s_cfg sc')) ::
        (if abnormal out then [] else run_post fs so sc' rest)
      else
        let '(so', out) := sstep fs so o in
        (out, c_cache (s_cfg so'), c_cache (s_cfg sc)) ::
        (if abnormal out then [] else run_post fs so' sc rest)
  end.

Definition trees_equiv (a b : list tree) : bool :=
  Nat.eqb (List.length a) (List.length b) &&
  forallb (fun xy => tree_equiv (fst xy) (snd xy)) (combine a b).

Definition post_eqb (m : outcome * dict * dict) (o : outcome * tree * tree * bool) : bool :=
  let '(mo, m1, m2) := m in
  let '(oo, o1, o2, intact) := o in
  (* the pure model shares nothing and mutates no source: its flag is [true] *)
  outcome_eqb mo oo && tree_equiv (Node m1) o1 && tree_equiv (Node m2) o2 && intact.

Fixpoint aborted_at (tr : list (outcome * dict * tree)) (n : nat) : option nat :=
  match tr with
  | [] => None
  | (out, _, _) :: rest => if abnormal out then Some n else aborted_at rest (S n)
  end.

Definition corr_cfg (c_fs : fsys) (c_init : init_args) (c_pre : list sop) (c_into : option tree)
           (c_post : list (bool * sop)) (c_obs : obs11) : bool :=
  match start c_fs c_init with
  | Err e => match c_obs with ONoObject e' => err_eqb e e' | _ => false end
  | Ok c0 =>
      let '(so, tr) := srun c_fs (sstart c0) c_pre in
      match aborted_at tr 0 with
      | Some n => match c_obs with OAborted n' => Nat.eqb n n' | _ => false end
      | None =>
          match clone c_fs (s_cfg so) c_into with
          | (_, OErr e) => match c_obs with OCloneErr e' => err_eqb e e' | _ => false end
          | (cl, _) =>
              match c_obs with
              | OCloned lo lc vo vc intact post =>
                  intact &&
                  trees_equiv (levels10 (s_cfg so)) lo && trees_equiv (levels10 cl) lc &&
                  (* views as mappings: key order is incidental insertion order (see C06Corr) *)
                  tree_equiv (Node (c_cache (s_cfg so))) vo && tree_equiv (Node (c_cache cl)) vc &&
                  all2 post_eqb (run_post c_fs so (sstart cl) c_post) post
              | _ => false
              end
          end
      end
  end.

(** ** Object graphs: the model's heap against the observed one, up to the
    numbering of the objects created by the call *)
Definition heap_fuel : nat := 64.

Definition model_h (h0 : heap) (o : hop) : hobs :=
  match o with
  | HMerge b u => match merge_h heap_fuel b u h0 with Ok h => HOk h [] | Err e => HErr e end
  | HCopy src => match copy_h heap_fuel src h0 with Ok (a, h) => HOk h [a] | Err e => HErr e end
  | HClone roots => match clone_levels_h heap_fuel roots h0 with
                    | Ok (l, h) => HOk h l
                    | Err e => HErr e
                    end
  end.

(** All (path, object) pairs below the roots, in traversal order. *)
Definition walk (h : heap) (roots : list addr) : list (path * addr) :=
  flat_map (fun r => hpaths depth_bound h r []) roots.

(** Same node up to the identity of what the references point to (that is
    checked along the paths). *)
Definition hnode_like (a b : option hnode) : bool :=
  match a, b with
  | Some x, Some y =>
      list_eqb (fun p q => String.eqb (fst p) (fst q) &&
                           match snd p, snd q with
                           | HLeaf v, HLeaf w => value_eqb v w
                           | HRef _, HRef _ => true
                           | _, _ => false
                           end) x y
  | None, None => true
  | _, _ => false
  end.

Definition graphs_iso (hm : heap) (rm : list addr) (ho : heap) (ro : list addr) : bool :=
  let wm := walk hm rm in
  let wo := walk ho ro in
  Nat.eqb (List.length wm) (List.length wo) &&
  let z := combine wm wo in
  forallb (fun mo => path_eqb (fst (fst mo)) (fst (snd mo)) &&
                     hnode_like (HeapMerge.hget hm (snd (fst mo))) (HeapMerge.hget ho (snd (snd mo)))) z &&
  (* the correspondence between addresses is one-to-one: same sharing *)
  forallb (fun x => forallb (fun y => Bool.eqb (Nat.eqb (snd (fst x)) (snd (fst y)))
                                               (Nat.eqb (snd (snd x)) (snd (snd y)))) z) z.

Definition corr_heap (h0 : heap) (o : hop) (obs : hobs) : bool :=
  match model_h h0 o, obs with
  | HErr e, HErr e' => err_eqb e e'
  | HOk hm rm, HOk ho ro =>
      let old := old_addrs h0 in
      Nat.eqb (List.length rm) (List.length ro) && graphs_iso hm (old ++ rm) ho (old ++ ro)
  | _, _ => false
  end.

Definition corr (c : case) : bool :=
  match c with
  | mk f i pre into post obs => corr_cfg f i pre into post obs
  | mkh h0 o obs => corr_heap h0 o obs
  end.

Definition spec_cfg (c_into : option tree) (c_post : list (bool * sop)) (c_obs : obs11) : bool :=
  match c_obs with
  | OCloned lo lc vo vc intact post =>
      C11Spec.spec_ok c_into lo lc vo vc intact
              (map (fun sp => (fst (fst sp), snd (fst (fst (snd sp))), snd (fst (snd sp)), snd (snd sp)))
                   (combine c_post post))
  | OCloneErr _ => false        (* cloning must not fail *)
  | _ => true                   (* no clone happened: nothing to judge *)
  end.

Definition spec_heap (h0 : heap) (o : hop) (obs : hobs) : bool :=
  match obs with
  | HErr _ => true     (* refusals (type conflict, a dict resized under iteration) are not C11's subject *)
  | HOk h1 res =>
      match o, res with
      | HMerge b _, [] => merge_ok h0 h1 b
      | HCopy src, [r] => copy_ok h0 h1 src r
      | HClone roots, _ => clone_ok h0 h1 roots res
      | _, _ => false
      end
  end.

Definition spec (c : case) : bool :=
  match c with
  | mk _ _ _ into post obs => spec_cfg into post obs
  | mkh h0 o obs => spec_heap h0 o obs
  end.
