(** Correspondence record for C07. *)
From InvokeVerif Require Export Corr.ParserCorr Spec.C07Spec.

Inductive case :=
| ParseCase (cs : list ctxspec) (init : initsel) (ign : bool) (argv : list string)
            (obs : result pobs)
| TableCase (which : initsel) (observed : option ctxspec).

Definition corr (c : case) : bool :=
  match c with
  | ParseCase cs init ign argv obs => res_eqb pobs_eqb (model_parse cs init ign argv) obs
  | TableCase w o => table_ok w o
  end.

Definition spec (c : case) : bool :=
  match c with
  | ParseCase cs init ign argv obs => spec_ok cs (initial_of init) ign argv obs
  | TableCase _ _ => true
  end.

(** The model itself judged by the spec (used by the bounded sweeps). *)
Definition model_spec (cs : list ctxspec) (init : initsel) (ign : bool) (argv : list string) : bool :=
  spec_ok cs (initial_of init) ign argv (model_parse cs init ign argv).
