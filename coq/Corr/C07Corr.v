(** Correspondence record for C07. *)
From InvokeVerif Require Export Corr.ParserCorr Spec.C07Spec.

Inductive case :=
| ParseCase (cs : list ctxspec) (init : initsel) (ign : bool) (argv : list string)
            (obs : result pobs)
| TableCase (which : initsel) (observed : option ctxspec).

Definition corr (c : case) : bool :=
  match c with
  | ParseCase cs init ign argv obs => res_eqb pobs_eqb (model_parse cs init ign argv) obs
  | TableCase w o => table_ok w o
  end.

Definition spec (c : case) : bool :=
  match c with
  | ParseCase cs init ign argv obs => spec_ok cs (initial_of init) ign argv obs
  | TableCase _ _ => true
  end.

(** The model itself judged by the spec (used by the bounded sweeps). *)
Definition model_spec (cs : list ctxspec) (init : initsel) (ign : bool) (argv : list string) : bool :=
  spec_ok cs (initial_of init) ign argv (model_parse cs init ign argv).

(** clause-level attribution (harness: [finding_of] receives the verdict of
    every predicate in [preds]): the observation is a result, every clause of
    [spec_ok] except B2 is satisfied, and B2 ("value-requiring flag left
    without a value") is the one that fails. *)
Definition only_b2 (c : case) : bool :=
  match c with
  | ParseCase cs init ign argv (Ok o) =>
      let i := initial_of init in
      let body := before_ddash argv in
      b1_no_missing_positionals cs i o
      && b2_dangling_flag cs i body o
      && negb (b3_unknown_due cs i body && (negb ign || match o_unparsed o with [] => true | _ => false end))
      && negb (b4_ambiguity_due cs i body)
      && negb (b5_bad_value_due cs i body)
  | _ => false
  end.
