(** Correspondence record for C01: signatures (as contexts), the intended
    invocation with its spelling script, the command line rendered by the
    harness's own (Python) [spell], and what the real parser returned. *)
From InvokeVerif Require Export Corr.ParserCorr Spec.C01Spec.
From InvokeVerif Require Export Common.SigTypes.
From InvokeVerif Require Import Model.SigModel.

Record case := mk {
  c_cs : list ctxspec;            (* the implementation's own contexts (Collection.to_contexts) *)
  c_sigs : list (nat * tsig);     (* the task signatures they were built from: (context index, signature) *)
  c_inv : invocation;
  c_argv : list string;
  c_obs : result pobs
}.

(** The contexts the parser model is run on are those the *signature model*
    (C09: Model/SigModel.v, [get_arguments]) derives from the task signatures --
    kinds, defaults, positional/optional/counter flags, names and short flags --
    not merely whatever the implementation produced.  ([inspect.Signature.empty]
    as the default of an iterable parameter is canonicalised to None on both
    sides.) *)
Definition canon_default (v : aval) : aval :=
  if aval_eqb v empty_sentinel then ANone else v.

Definition argspec_agree (m o : argspec) : bool :=
  argspec_eqb (mkArg (a_names m) (a_kind m) (canon_default (a_default m)) (a_positional m)
                     (a_optional m) (a_incrementable m) (a_attr_name m)) o.

Definition sig_agree (c : case) : bool :=
  forallb (fun it => match nth_error (c_cs c) (fst it) with
                     | Some cx => list_eqb argspec_agree (get_arguments (snd it)) (cx_args cx)
                     | None => false
                     end) (c_sigs c).

(** model = implementation on this command line, and the two independent
    renderers (Coq [spell], Python spell) agree *)
Definition corr (c : case) : bool :=
  res_eqb pobs_eqb (model_parse (c_cs c) ICore false (c_argv c)) (c_obs c)
  && list_eqb String.eqb (spell (c_cs c) (c_inv c)) (c_argv c)
  && sig_agree c.

Definition spec (c : case) : bool := spec_ok (c_cs c) (c_inv c) (c_obs c).

(** extra predicate reported by the harness: inside the side condition? *)
Definition adm (c : case) : bool := admissible (c_cs c) (c_inv c).

Definition model_roundtrip (cs : list ctxspec) (inv : invocation) : bool :=
  spec_ok cs inv (model_parse cs ICore false (spell cs inv)).
