(** Correspondence record for C01: signatures (as contexts), the intended
    invocation with its spelling script, the command line rendered by the
    harness's own (Python) [spell], and what the real parser returned. *)
From InvokeVerif Require Export Corr.ParserCorr Spec.C01Spec.

Record case := mk {
  c_cs : list ctxspec;
  c_inv : invocation;
  c_argv : list string;
  c_obs : result pobs
}.

(** model = implementation on this command line, and the two independent
    renderers (Coq [spell], Python spell) agree *)
Definition corr (c : case) : bool :=
  res_eqb pobs_eqb (model_parse (c_cs c) ICore false (c_argv c)) (c_obs c)
  && list_eqb String.eqb (spell (c_cs c) (c_inv c)) (c_argv c).

Definition spec (c : case) : bool := spec_ok (c_cs c) (c_inv c) (c_obs c).

(** extra predicate reported by the harness: inside the side condition? *)
Definition adm (c : case) : bool := admissible (c_cs c) (c_inv c).

Definition model_roundtrip (cs : list ctxspec) (inv : invocation) : bool :=
  spec_ok cs inv (model_parse cs ICore false (spell cs inv)).
