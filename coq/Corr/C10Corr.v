(** Correspondence record for C10.  One case = a build script and one *view*
    of the built tree: 0 = candidate names (lookup / parser registry /
    Program.run), 1 = --list flat, 2 = --list nested, 3 = --list json. *)
From InvokeVerif Require Export Model.CollModel Spec.C10Spec.

Record case := mk {
  c_script : item;
  c_view : nat;
  c_names : list string;
  c_state : result coll;              (* dump of the real Collection tree *)
  c_nobs : list nobs;                 (* view 0: one per name *)
  c_rows : result (list row);         (* views 1-3: parsed listing *)
  c_root : option string;             (* views 1-3: --list <root> *)
  c_depth : nat                       (* views 1-3: --list-depth N, 0 = none *)
}.

Definition res_eqb {A} (eqb : A -> A -> bool) (a b : result A) : bool :=
  match a, b with
  | Ok x, Ok y => eqb x y
  | Err e1, Err e2 => err_eqb e1 e2
  | _, _ => false
  end.

Definition opt_nat_eqb (a b : option nat) : bool :=
  match a, b with Some x, Some y => Nat.eqb x y | None, None => true | _, _ => false end.

Definition nobs_eqb (a b : nobs) : bool :=
  res_eqb Bool.eqb (o_contains a) (o_contains b) &&
  res_eqb Nat.eqb (o_getitem a) (o_getitem b) &&
  res_eqb opt_str_eqb (o_parser a) (o_parser b) &&
  res_eqb opt_nat_eqb (o_ran a) (o_ran b) &&
  res_eqb opt_nat_eqb (o_help a) (o_help b).

Definition model_nobs (c : coll) (n : string) : nobs :=
  mkN (contains c n)
      (match getitem c n with Ok t => Ok (t_id t) | Err e => Err e end)
      (match parser_of c with Ok r => Ok (preg_primary r n) | Err e => Err e end)
      (cli_run c n)
      (if String.eqb n "" then Ok None else cli_help c n).

Definition row_eqb (a b : row) : bool :=
  Nat.eqb (r_depth a) (r_depth b) && String.eqb (r_name a) (r_name b) &&
  (* the order in which aliases are displayed is not part of the property *)
  list_eqb String.eqb (sort_by (fun x => x) (r_aliases a)) (sort_by (fun x => x) (r_aliases b)) &&
  opt_nat_eqb (r_task a) (r_task b).

(** the "Default task: <name>" line printed under flat and nested listings, as a
    pseudo-row of depth 1000 *)
Definition default_trailer (c : coll) : list row :=
  match c_default c with
  | Some d => if String.eqb d "" then [] else [(1000, d, [], None)]
  | None => []
  end.

(** [Program.run] builds the task parser ([parse_tasks]) before it looks at
    --list, so a tree whose contexts collide fails there; [list_tasks] refuses
    (Exit) when the collection has no task names at all. *)
Definition model_rows (c : coll) (view : nat) : result (list row) :=
  match parser_of c with
  | Err e => Err e
  | Ok _ =>
      match task_names c with
      | [] => Err EOther
      | _ => Ok (match view with
                 | 1 => flat_rows c [] ++ default_trailer c
                 | 2 => nested_rows c [] ++ default_trailer c
                 | _ => json_rows c 0
                 end)
      end
  end.

(** [--list <root>] / [--list-depth N]: the root is looked up after the parser
    is built ("Sub-collection not found" is an Exit), then the emptiness test
    of [list_tasks] on the collection in focus, then the format. *)
Definition model_rows_at (c : coll) (view : nat) (root : option string) (dl : nat) : result (list row) :=
  match root, dl with
  | None, O => model_rows c view
  | _, _ =>
      match parser_of c with
      | Err e => Err e
      | Ok _ =>
          match (match root with None => Some c | Some r => sub_at c (split_char "." r) end) with
          | None => Err EOther
          | Some f =>
              if names_empty f then Err EOther else
              let rooted := match root with Some _ => true | None => false end in
              let trailer : list row :=
                match c_default f with
                | Some d => if String.eqb d "" then []
                            else [(1000, (if rooted then ("." ++ d)%string else d), [], None)]
                | None => []
                end in
              match view with
              | 1 => Ok (pair_rows false rooted dl f [] ++ trailer)
              | 2 => Ok (pair_rows true rooted dl f [] ++ trailer)
              | _ => match dl with O => Ok (json_rows f 0) | _ => Err EOther end
              end
          end
      end
  end.

Definition plain_view (c : case) : bool :=
  match c_root c, c_depth c with None, O => true | _, _ => false end.

Definition corr (c : case) : bool :=
  match build (c_script c), c_state c with
  | Err e1, Err e2 => err_eqb e1 e2
  | Ok m, Ok s =>
      coll_eqb m s &&
      match c_view c with
      | O => list_eqb nobs_eqb (map (model_nobs m) (c_names c)) (c_nobs c)
      | v => res_eqb (list_eqb row_eqb) (model_rows_at m v (c_root c) (c_depth c)) (c_rows c)
      end
  | _, _ => false
  end.

Definition spec (c : case) : bool :=
  match c_state c with
  | Ok s =>
      if plain_view c then spec_ok (c_script c) s (c_view c) (c_names c) (c_nobs c) (c_rows c)
      else match c_view c with
           | O => true
           | v => spec_at (c_script c) s v (c_root c) (c_depth c) (c_rows c)
           end
  | Err _ => true
  end.

(** * Adjusted judgements (attribution only): the specification with one known
    finding's expectation substituted *)
(** F-C10a / F-C10b, names view: every token of the case resolves by lookup,
    is not accepted, runs nothing, has no help *)
Definition adj_names (c : case) : bool :=
  match c_state c, c_view c with
  | Ok s, O =>
      all2 (fun (n : string) (o : nobs) =>
              (* an ordinary token, judged as always -- or the finding's pattern *)
              token_ok (c_auto_dash s) n o ||
              (negb (String.eqb n "") && resolves o && negb (accepted o) &&
               match o_ran o with Ok None => true | _ => false end &&
               match o_help o with Ok None => true | _ => false end))
           (c_names c) (c_nobs c)
  | _, _ => false
  end.

(** bindings as the listing code sees them: [fb] only the aliases the task
    itself declares (F-C10b); [fc] own names of tasks and collections instead
    of the names they are bound by (F-C10c, json) *)
Fixpoint bindings_adj (fb fc : bool) (c : coll) (path : list string) {struct c} : list (entry * bool) :=
  match c with
  | Coll _ tasks aliases subs dflt ad _ =>
      map (fun kt =>
             ((path, (if fc then transform ad (t_name (snd kt)) else fst kt), t_id (snd kt),
               if fc then map (transform ad) (t_aliases (snd kt))
               else map fst (filter (fun a => String.eqb (snd a) (fst kt) &&
                                              (negb fb || mem (fst a) (map (transform ad) (t_aliases (snd kt)))))
                                    aliases)),
              opt_str_eqb dflt (Some (fst kt))))
          tasks ++
      (fix go (l : list (string * coll)) : list (entry * bool) :=
         match l with
         | [] => []
         | (k, sc) :: l' =>
             bindings_adj fb fc sc (path ++ [if fc then ostr (c_name sc) else k]) ++ go l'
         end) subs
  end.

(** [fd]: spellings are not judged (F-C10d) *)
Definition adj_list_gen (fb fc fd fe : bool) (c : case) : bool :=
  match c_state c, c_view c with
  | Ok s, S _ =>
      if plain_view c then
        let bs := bindings_adj fb fc s [] in
        listing_gen (negb fc) (flat_of bs) (map fst bs) (negb (fd || fc)) (c_auto_dash s) (c_view c) (c_rows c)
      else
        match (match c_root c with None => Some s | Some r => focus_of s (split_char "." r) end) with
        | None => false
        | Some f =>
            listing_at (negb fc) fe (bindings_adj fb fc f []) (sub_colls f []) (negb (fd || fc)) (c_auto_dash s)
                       (c_view c) (match c_root c with Some _ => true | None => false end) (c_depth c) (c_rows c)
        end
  | _, _ => false
  end.

Definition adj_list (fb fc fd : bool) (c : case) : bool := adj_list_gen fb fc fd false c.

Definition adj_list_b (c : case) : bool := adj_list true false false c.
Definition adj_list_c (c : case) : bool := adj_list false true false c.
Definition adj_list_d (c : case) : bool := adj_list false false true c.
Definition adj_list_all (c : case) : bool := adj_list true (Nat.eqb (c_view c) 3) true c.

(** F-C10e: a scoped flat listing shows a truncated collection row without the leading dot *)
Definition adj_list_e (c : case) : bool := adj_list_gen false false false true c.
Definition adj_list_all_e (c : case) : bool := adj_list_gen true false true true c.
