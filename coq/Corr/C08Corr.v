(** C08 correspondence: the shared runner case (Corr/RunnerCorr.v) plus the poll
    granularity -- which consecutive events of the script fall between the same
    two iterations of the wait loop ([b_sizes]: sizes of the bursts, in order;
    empty = one event per burst = the plain [run_sm] script). *)
From InvokeVerif Require Export Corr.RunnerCorr Model.RunnerBursts.

Record case := mkb {
  b_base : RunnerCorr.case;
  b_sizes : list nat
}.

Definition corr (k : case) : bool :=
  let b := b_base k in
  sm_obs_eqb (observe (run_bursts (cfg_of b) (group (k_script b) (b_sizes k)))) (k_obs b) &&
  opt_nat_eqb (model_interval b) (k_interval b) && k_text_ok b.

(** the property does not talk about poll granularity ("whatever the relative
    timing of output, exit and input events"): the observation is judged against
    the flat script *)
Definition spec (k : case) : bool := spec08 (b_base k).
