(** Correspondence record for C19: the namespace script, Config constructor
    arguments, the bodies' edits, the requests (each with the pre/post tree of
    the task its name resolves to), the root default, the dedupe switch, the
    environments (k-th executed call runs under the k-th); observed: the built
    tree, and per executed body (task, deep view on entry, outcome of each
    edit, deep view on exit), plus the class of whatever escaped execute(). *)
From InvokeVerif Require Export Model.SessionModel Spec.C19Spec.

Definition orec := (nat * tree * list outcome * tree)%type.

Record case := mk {
  c_script : item;
  c_init : init_args;
  c_bodies : list (nat * list op);
  c_reqs : list (string * scall);
  c_dflt : option scall;
  c_dedupe : bool;
  c_envs : list (list (string * string));
  c_state : result coll;
  c_obs : result (list orec * option err);
  c_split : nat       (* 0: one execute() call; k: execute(first k requests), then execute(the rest) *)
}.

Definition tree_equiv (x y : tree) : bool := dict_equiv x y && dict_equiv y x.

Definition outcome_eqb (a b : outcome) : bool :=
  match a, b with
  | ONone, ONone => true
  | OVal x, OVal y => tree_equiv x y
  | OPair k x, OPair k' y => String.eqb k k' && tree_equiv x y
  | OBool x, OBool y => Bool.eqb x y
  | ONat x, ONat y => Nat.eqb x y
  | OKeys x, OKeys y => list_eqb String.eqb x y
  | OErr x, OErr y => err_eqb x y
  | _, _ => false
  end.

Definition rec_eqb (m : SessionModel.brecord) (o : orec) : bool :=
  let '(t, v0, outs, v1) := m in
  let '(t', w0, outs', w1) := o in
  Nat.eqb t t' && tree_equiv (Node v0) w0 && list_eqb outcome_eqb outs outs' &&
  tree_equiv (Node v1) w1.

Fixpoint all2 {A B} (f : A -> B -> bool) (l1 : list A) (l2 : list B) : bool :=
  match l1, l2 with
  | [], [] => true
  | a :: l1', b :: l2' => f a b && all2 f l1' l2'
  | _, _ => false
  end.

Definition opt_err_eqb (a b : option err) : bool :=
  match a, b with Some x, Some y => err_eqb x y | None, None => true | _, _ => false end.

Definition corr (c : case) : bool :=
  match build (c_script c), c_state c with
  | Err e1, Err e2 => err_eqb e1 e2
  | Ok m, Ok s =>
      coll_eqb m s &&
      match session_split m (c_init c) (c_bodies c) (c_reqs c) (c_dflt c) (c_dedupe c) (c_envs c) (c_split c),
            c_obs c with
      | Ok (recs, er), Ok (orecs, oer) => all2 rec_eqb recs orecs && opt_err_eqb er oer
      | Err e, Err e' => err_eqb e e'
      | _, _ => false
      end
  | _, _ => false
  end.

Definition body_of (bodies : list (nat * list op)) (t : nat) : list op :=
  match find (fun b => Nat.eqb (fst b) t) bodies with Some b => snd b | None => [] end.

Definition dict_of (t : tree) : dict := match t with Node d => d | Leaf _ => [] end.

(** the name every executed call was made as (the executor's expansion of the
    requests: directly requested calls carry their name, pre/post tasks and the
    implicitly chosen default task none) *)
Definition call_names (c : case) : list (option string) :=
  map snd (session_calls_split (c_reqs c) (c_dflt c) (c_dedupe c) (c_split c)).

Definition spec (c : case) : bool :=
  match c_state c with
  | Ok s =>
      spec_ok_named s (i_defaults (c_init c)) (i_overrides (c_init c)) (body_of (c_bodies c)) (c_envs c)
              (call_names c)
              (match c_obs c with
               | Ok (orecs, oer) =>
                   Ok (map (fun r : orec => let '(t, v0, outs, v1) := r in
                                            (t, dict_of v0, outs, dict_of v1)) orecs, oer)
               | Err e => Err e
               end)
  | Err _ => true
  end.

(** * Adjusted judgements (attribution only) *)
Definition obs_for_spec (c : case) : result (list C19Spec.brecord * option err) :=
  match c_obs c with
  | Ok (orecs, oer) =>
      Ok (map (fun r : orec => let '(t, v0, outs, v1) := r in (t, dict_of v0, outs, dict_of v1)) orecs, oer)
  | Err e => Err e
  end.

(** F-C19: calls without a name (pre/post tasks, the implicitly chosen
    default task) are judged against the root collection's configuration *)
Definition paths_fc19 (c : case) (s : coll) (recs : list C19Spec.brecord) : list (option (list dict)) :=
  let calls := session_calls_split (c_reqs c) (c_dflt c) (c_dedupe c) (c_split c) in
  (fix go (rs : list C19Spec.brecord) (cs : list ecall) : list (option (list dict)) :=
     match rs, cs with
     | r :: rs', (_, called_as) :: cs' =>
         (match called_as with
          | None => Some [c_config s]
          | Some _ => call_path s (fst (fst (fst r))) called_as
          end) :: go rs' cs'
     | r :: rs', [] => home s (fst (fst (fst r))) :: go rs' []
     | [], _ => []
     end) recs calls.

Definition adj (mw fc19 : bool) (c : case) : bool :=
  match c_state c with
  | Ok s =>
      spec_gen mw (if fc19 then paths_fc19 c s
                   else fun recs => paths_by_name s recs (call_names c))
               s (i_defaults (c_init c)) (i_overrides (c_init c)) (body_of (c_bodies c)) (c_envs c)
               (obs_for_spec c)
  | Err _ => true
  end.

Definition adj_fc19 (c : case) : bool := adj false true c.
(** F-C06a: a dict-valued write is merged, not a replacement *)
Definition adj_fc06a (c : case) : bool := adj true false c.
Definition adj_both (c : case) : bool := adj true true c.

(** F-C19c: a body wrote a setting whose variable name another setting already
    has; the next reload refuses (AmbiguousEnvVar) although the environment
    does not set that variable.  Adjusted judgement: exactly that error
    escaped, every body that ran is as specified, and two settings of the last
    view on exit / of the tree's configurations do share a variable name. *)
Definition adj_fc19c_gen (mw fc19 : bool) (c : case) : bool :=
  match c_state c, obs_for_spec c with
  | Ok s, Ok (recs, Some EAmbigEnv) =>
      match rev recs with
      | [] => false
      | (_, _, _, v1) :: _ =>
          env_ambiguous (nub_paths (map fst (leaf_paths (Node v1)) ++
                                    flat_map (fun g => map fst (leaf_paths (Node g))) (all_configs s))) &&
          spec_gen mw (if fc19 then paths_fc19 c s
                       else fun recs => paths_by_name s recs (call_names c))
                   s (i_defaults (c_init c)) (i_overrides (c_init c)) (body_of (c_bodies c)) (c_envs c)
                   (Ok (recs, None))
      end
  | _, _ => false
  end.

Definition adj_fc19c (c : case) : bool := adj_fc19c_gen false false c.
Definition adj_fc19c_all (c : case) : bool := adj_fc19c_gen true true c.
