(** Correspondence record for C03: a file system, constructor arguments and a
    script of load calls; observed: final deep view, environment level, the
    suffixes the system/user/project levels were read from -- or the exception
    class of the first call that raised. *)
From InvokeVerif Require Export Model.ConfigModel Spec.C03Spec Spec.C03ModSpec.

Definition obs3 := result (tree * tree * list (option string)).

Definition snap3 := (tree * tree * list (option string))%type.

(** [c_mids]: what was observed after each call that returned (view, environment
    level, suffixes read), in order. *)
Record case := mk { c_fs : fsys; c_init : init_args; c_ops : list op; c_obs : obs3;
                    c_mids : list snap3 }.

Fixpoint first_err (tr : list (outcome * dict)) : option err :=
  match tr with
  | [] => None
  | (OErr e, _) :: _ => Some e
  | _ :: tr' => first_err tr'
  end.

Definition model_out (c : case) : obs3 :=
  match start (c_fs c) (c_init c) with
  | Err e => Err e
  | Ok c0 =>
      let '(cf, tr) := run (c_fs c) c0 (c_ops c) in
      match first_err tr with
      | Some e => Err e
      | None => Ok (Node (c_cache cf), c_env cf, [c_sys_sfx cf; c_user_sfx cf; c_proj_sfx cf])
      end
  end.

Definition optstr_eqb (a b : option string) : bool :=
  match a, b with
  | None, None => true
  | Some x, Some y => String.eqb x y
  | _, _ => false
  end.

(** Views and environment levels are compared as mappings (same keys, same
    values, at every depth; key order ignored): C03 speaks of the value visible
    at each setting, never of iteration order, and the order of a merged view
    depends on incidental insertion order inside the levels (e.g. the order in
    which [Environment.load] creates the keys of its result). *)
Definition obs_eqb (a b : obs3) : bool :=
  match a, b with
  | Err e1, Err e2 => err_eqb e1 e2
  | Ok (v1, e1, s1), Ok (v2, e2, s2) =>
      dict_equiv v1 v2 && dict_equiv v2 v1 && dict_equiv e1 e2 && dict_equiv e2 e1 &&
      list_eqb optstr_eqb s1 s2
  | _, _ => false
  end.

(** The model's state after each call that returned. *)
Fixpoint run_states (fs : fsys) (c : cfg) (ops : list op) : list cfg :=
  match ops with
  | [] => []
  | o :: rest =>
      let '(c', out) := step fs c o in
      match out with
      | OErr _ => []
      | _ => c' :: run_states fs c' rest
      end
  end.

Definition snap_of (c : cfg) : snap3 :=
  (Node (c_cache c), c_env c, [c_sys_sfx c; c_user_sfx c; c_proj_sfx c]).

Definition snap_eqb (a b : snap3) : bool := obs_eqb (Ok a) (Ok b).

Definition model_mids (c : case) : list snap3 :=
  match start (c_fs c) (c_init c) with
  | Err _ => []
  | Ok c0 => map snap_of (run_states (c_fs c) c0 (c_ops c))
  end.

Definition corr (c : case) : bool :=
  obs_eqb (model_out c) (c_obs c) && list_eqb snap_eqb (model_mids c) (c_mids c).

(** Every prefix of the script that is itself a script of the property (ends
    merged) is judged on what was observed right after it. *)
Fixpoint spec_mids (fs : fsys) (i : init_args) (done rest : list op) (mids : list snap3) : bool :=
  match rest, mids with
  | o :: rest', m :: mids' =>
      let done' := done ++ [o] in
      spec_ok fs i done' "INVOKE_" (Ok m) && spec_mids fs i done' rest' mids'
  | _, _ => true
  end.

(** A script that raised is judged as the script up to and including the call
    that raised. *)
Definition ops_run (c : case) : list op :=
  match c_obs c with
  | Err _ => firstn (S (List.length (c_mids c))) (c_ops c)
  | Ok _ => c_ops c
  end.

Definition spec_loads (c : case) : bool :=
  spec_ok (c_fs c) (c_init c) (ops_run c) "INVOKE_" (c_obs c) &&
  spec_mids (c_fs c) (c_init c) [] (c_ops c) (c_mids c).

(** The edits that follow the load calls (Spec/C03ModSpec.v): after each of them
    the view is judged against the ten levels -- the modifications level being
    what the history of edits defines -- and the recorded deletions. *)
Definition final_err (o : obs3) : option err :=
  match o with Err e => Some e | Ok _ => None end.

Definition spec_mods (c : case) : bool :=
  spec_mods_ok (c_fs c) (c_init c) "INVOKE_" (c_ops c) (c_mids c) (final_err (c_obs c)).

Definition spec (c : case) : bool := spec_loads c && spec_mods c.

(** Statistics: the case has edits, all of them judged. *)
Definition with_mods (c : case) : bool :=
  mods_in_scope (c_fs c) (c_init c) (c_ops c) (c_mids c).

(** Inside the quantifier of the property (type-consistent levels, a load script). *)
Definition in_scope (c : case) : bool :=
  wf_script (c_ops c) &&
  let s := supplied_of (c_fs c) (c_init c) (c_ops c) in
  levels_tc (levels8 s) && forallb wf (levels8 s).
