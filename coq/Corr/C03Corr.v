(** Correspondence record for C03: a file system, constructor arguments and a
    script of load calls; observed: final deep view, environment level, the
    suffixes the system/user/project levels were read from -- or the exception
    class of the first call that raised. *)
From InvokeVerif Require Export Model.ConfigModel Spec.C03Spec.

Definition obs3 := result (tree * tree * list (option string)).

Record case := mk { c_fs : fsys; c_init : init_args; c_ops : list op; c_obs : obs3 }.

Fixpoint first_err (tr : list (outcome * dict)) : option err :=
  match tr with
  | [] => None
  | (OErr e, _) :: _ => Some e
  | _ :: tr' => first_err tr'
  end.

Definition model_out (c : case) : obs3 :=
  match start (c_fs c) (c_init c) with
  | Err e => Err e
  | Ok c0 =>
      let '(cf, tr) := run (c_fs c) c0 (c_ops c) in
      match first_err tr with
      | Some e => Err e
      | None => Ok (Node (c_cache cf), c_env cf, [c_sys_sfx cf; c_user_sfx cf; c_proj_sfx cf])
      end
  end.

Definition optstr_eqb (a b : option string) : bool :=
  match a, b with
  | None, None => true
  | Some x, Some y => String.eqb x y
  | _, _ => false
  end.

Definition obs_eqb (a b : obs3) : bool :=
  match a, b with
  | Err e1, Err e2 => err_eqb e1 e2
  | Ok (v1, e1, s1), Ok (v2, e2, s2) =>
      tree_eqb v1 v2 && dict_equiv e1 e2 && dict_equiv e2 e1 && list_eqb optstr_eqb s1 s2
  | _, _ => false
  end.

Definition corr (c : case) : bool := obs_eqb (model_out c) (c_obs c).

Definition spec (c : case) : bool :=
  spec_ok (c_fs c) (c_init c) (c_ops c) "INVOKE_" (c_obs c).

(** Inside the quantifier of the property (type-consistent levels, a load script). *)
Definition in_scope (c : case) : bool :=
  wf_script (c_ops c) &&
  let s := supplied_of (c_fs c) (c_init c) (c_ops c) in
  levels_tc (levels8 s) && forallb wf (levels8 s).
