From InvokeVerif Require Export Corr.RunnerCorr.
From InvokeVerif Require Export Model.WaitLoopModel Spec.C14WaitSpec.
From Coq Require Import NArith.

(** C14's case: the event-script case shared with C08 plus the AGE dimension -- the
    runner's [input_sleep] (microseconds), the number of wait-loop iterations the script
    made the command run idle for ([["idle", n]] steps that were completed), and every
    duration the thread calling run() handed to [time.sleep], run-length encoded
    [(microseconds, how many in a row)]. *)
Record wcase := mkw {
  w_base : case;
  w_isleep : N;
  w_idle : N;
  w_sleeps : list (N * N)
}.

Definition expand (l : list (N * N)) : list N :=
  flat_map (fun p => repeat (fst p) (N.to_nat (snd p))) l.
Definition total (l : list (N * N)) : N := fold_left (fun a p => (a + snd p)%N) l 0%N.

(** model = observation: the event-script part as before; the pauses are those of
    [wait_loop] for as many looks as were observed (how many there are beyond the
    scripted idle iterations depends on thread scheduling: at least those) *)
Definition corr (k : wcase) : bool :=
  RunnerCorr.corr (w_base k) &&
  list_eqb N.eqb (wait_sleeps (w_isleep k) (N.to_nat (total (w_sleeps k)))) (expand (w_sleeps k)) &&
  N.leb (w_idle k) (total (w_sleeps k)).

Definition spec (k : wcase) : bool :=
  spec14 (w_base k) && C14WaitSpec.wait_ok (w_isleep k) (expand (w_sleeps k)).

(** Timeout source at the Program level (CLI run of a task whose body calls c.run):
    run() keyword > -T > the merged configuration below the overrides level
    (environment variable > project file > collection configuration).  Values in
    seconds; [p_got] = interval of the Timer that was armed (None: no timer),
    [p_num] = that interval is a number. *)
Record pcase := mkp {
  p_kw : option nat; p_cli : option nat; p_lower : option nat;
  p_got : option nat; p_num : bool
}.

Definition program_timeout (kw cli lower : option nat) : option nat :=
  match kw with
  | Some v => Some v
  | None => match cli with
            | Some n => if Nat.eqb n 0 then lower else Some n      (* [if command:] drops -T 0 *)
            | None => lower
            end
  end.

Definition pcorr (c : pcase) : bool :=
  p_num c && opt_nat_eqb (program_timeout (p_kw c) (p_cli c) (p_lower c)) (p_got c).

(** The stdin worker's loop after the command has finished (F-C14e): the real
    [Runner.handle_stdin] is run on a scripted input stream, [program_finished] is set
    during a chosen iteration; [d_after] = what the reads deliver from that iteration
    on (then EOF), [d_iters] = iterations observed from then on (readiness probes),
    [d_fwd] = units written to the command's stdin meanwhile, [d_closed] = its stdin
    was closed by the end. *)
From InvokeVerif Require Export Model.StdinDrainModel.
Record dcase := mkd { d_after : list rd; d_iters : nat; d_fwd : nat; d_closed : bool }.

Definition dcorr (c : dcase) : bool :=
  Nat.eqb (iterations_after_finish (d_after c)) (d_iters c) &&
  Nat.eqb (forwarded_after_finish (d_after c)) (d_fwd c) &&
  Bool.eqb (closes_after_finish (d_after c)) (d_closed c).
