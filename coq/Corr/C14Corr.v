From InvokeVerif Require Export Corr.RunnerCorr.
Definition spec (k : case) : bool := spec14 k.
