(** Correspondence record for C06: file system, constructor arguments, a history
    (with held proxies); observed: the deep view after construction and, after
    every step, the outcome, the deep view read through the root and the
    environment level.  The observed trace ends at the first exception that is
    not KeyError/AttributeError. *)
From InvokeVerif Require Export Model.ConfigModel Spec.C06Spec.

Record case := mk {
  c_fs : fsys; c_init : init_args; c_ops : list sop;
  c_view0 : result tree;
  c_trace : list (outcome * tree * tree)
}.

(** Dicts are compared as mappings (same keys and values at every depth, key
    order ignored): the property speaks of what is stored where, and the order of
    a merged view depends on incidental insertion order inside the levels.
    Order is kept only where an operation's RESULT depends on it: [popitem]
    pops the last key in iteration order, so the popped key must be the model's
    (a change of insertion order is observable there); [keys()] is compared as a
    set, as in the specification. *)
Definition view_eqb (a b : tree) : bool := dict_equiv a b && dict_equiv b a.

Definition keys_eqb (a b : list string) : bool :=
  Nat.eqb (List.length a) (List.length b) && forallb (fun k => mem k b) a &&
  forallb (fun k => mem k a) b.

Definition outcome_eqb (a b : outcome) : bool :=
  match a, b with
  | ONone, ONone => true
  | OVal x, OVal y => view_eqb x y
  | OPair k x, OPair k' y => String.eqb k k' && view_eqb x y
  | OBool x, OBool y => Bool.eqb x y
  | ONat x, ONat y => Nat.eqb x y
  | OKeys x, OKeys y => keys_eqb x y
  | OErr x, OErr y => err_eqb x y
  | _, _ => false
  end.

Definition step_eqb (m : outcome * dict * tree) (o : outcome * tree * tree) : bool :=
  let '(mo, mc, me) := m in
  let '(oo, ov, oe) := o in
  outcome_eqb mo oo && view_eqb (Node mc) ov && view_eqb me oe.

Fixpoint all2 {A B} (f : A -> B -> bool) (l1 : list A) (l2 : list B) : bool :=
  match l1, l2 with
  | [], [] => true
  | a :: l1', b :: l2' => f a b && all2 f l1' l2'
  | _, _ => false
  end.

Definition corr (c : case) : bool :=
  match start (c_fs c) (c_init c), c_view0 c with
  | Err e, Err e' => err_eqb e e'
  | Ok c0, Ok v0 =>
      view_eqb (Node (c_cache c0)) v0 &&
      all2 step_eqb (snd (srun (c_fs c) (sstart c0) (c_ops c))) (c_trace c)
  | _, _ => false
  end.

Fixpoint zip_trace (ops : list sop) (tr : list (outcome * tree * tree)) : list obs_step :=
  match ops, tr with
  | o :: ops', (out, v, e) :: tr' => (o, out, v, e) :: zip_trace ops' tr'
  | _, _ => []
  end.

Definition spec (c : case) : bool :=
  match c_view0 c with
  | Err _ => true          (* no object was created: nothing to judge (unreadable base file) *)
  | Ok v0 => spec_ok (c_fs c) (c_init c) v0 (zip_trace (c_ops c) (c_trace c))
  end.
