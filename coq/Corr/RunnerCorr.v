(** Correspondence record shared by C08 and C14: one scripted run of the real
    Runner through an event script, and what was observed afterwards. *)
From InvokeVerif Require Export Model.RunnerSM.
From InvokeVerif Require Spec.C08Spec Spec.C14Spec.

Record case := mk {
  k_pty : bool; k_in : bool; k_warn : bool; k_async : bool; k_start_fail : bool;
  k_hold_out : bool; k_hold_err : bool;
  k_kwarg : option (option nat); (* run(timeout=...) if given (Some None: given as None), tenths of a second *)
  k_config : option nat;         (* config.timeouts.command, in tenths of a second *)
  k_script : list ev;
  k_obs : sm_obs;
  k_interval : option nat;       (* interval of the Timer that was created, if any (tenths of a second) *)
  k_text_ok : bool               (* the text in the Result / Failure is, read for read and in order, what the
                                    scripted reads delivered (every read carries a distinct byte) *)
}.

Definition is_some {A} (o : option A) : bool := match o with Some _ => true | None => false end.

Definition cfg_of (k : case) : cfg :=
  mkCfg (k_pty k) (k_in k) (is_some (effective_timeout (k_kwarg k) (k_config k))) (k_warn k)
        (k_async k) (k_start_fail k) (k_hold_out k) (k_hold_err k).

Definition who_eqb (a b : who) : bool :=
  match a, b with WOut, WOut | WIn, WIn | WErr, WErr => true | _, _ => false end.

Definition opt_outcome_eqb (a b : option outcome) : bool :=
  match a, b with
  | Some x, Some y => C14Spec.outcome_eqb x y
  | None, None => true
  | _, _ => false
  end.

Definition opt_nat_eqb (a b : option nat) : bool :=
  match a, b with
  | Some x, Some y => Nat.eqb x y
  | None, None => true
  | _, _ => false
  end.

(** a run that never comes back is compared on that fact alone *)
Definition sm_obs_eqb (m o : sm_obs) : bool :=
  match o_outcome m with
  | None => match o_outcome o with None => true | Some _ => false end
  | Some _ =>
      opt_outcome_eqb (o_outcome m) (o_outcome o) &&
      Nat.eqb (o_kills m) (o_kills o) && Nat.eqb (o_kills_after_exit m) (o_kills_after_exit o) &&
      Nat.eqb (o_intr m) (o_intr o) && Nat.eqb (o_stop m) (o_stop o) && Bool.eqb (o_flag m) (o_flag o) &&
      list_eqb who_eqb (o_alive m) (o_alive o) &&
      Bool.eqb (o_timer_armed m) (o_timer_armed o) && Bool.eqb (o_timer_fired m) (o_timer_fired o) &&
      Bool.eqb (o_reaped m) (o_reaped o) &&
      Nat.eqb (o_nout m) (o_nout o) && Nat.eqb (o_nerr m) (o_nerr o) &&
      (* every join call, in order, with or without the 1 s timeout *)
      list_eqb (fun a b => who_eqb (fst a) (fst b) && Bool.eqb (snd a) (snd b)) (o_joins m) (o_joins o)
  end.

Definition model_interval (k : case) : option nat :=
  if k_start_fail k && negb (k_pty k) then None else effective_timeout (k_kwarg k) (k_config k).

Definition corr (k : case) : bool :=
  sm_obs_eqb (observe (run_sm (cfg_of k) (k_script k))) (k_obs k) &&
  opt_nat_eqb (model_interval k) (k_interval k) && k_text_ok k.

Definition spec08 (k : case) : bool := C08Spec.spec_ok (cfg_of k) (k_script k) (k_obs k) && k_text_ok k.

Definition spec14 (k : case) : bool :=
  C14Spec.spec_ok (cfg_of k) (k_script k) (k_obs k) && k_text_ok k &&
  (k_start_fail k || C14Spec.timeout_ok (k_kwarg k) (k_config k) (k_interval k)).
