(** Shared by the correspondence files of the parser properties: model result
    -> observation, and the check of the hand-written core-option tables. *)
From InvokeVerif Require Export Model.ParserModel Model.CoreArgs Spec.ParserObs.

Definition obs_of_ctx (c : rctx) : option string * list (string * aval) :=
  (rc_name c, as_kwargs c).

Definition obs_of_presult (r : presult) : pobs :=
  mkObs (map obs_of_ctx (pr_ctxs r)) (pr_unparsed r) (pr_remainder r).

Definition model_parse (cs : list ctxspec) (init : initsel) (ign : bool) (argv : list string)
  : result pobs :=
  match parser_parse cs (initial_of init) ign argv with
  | Ok r => Ok (obs_of_presult r)
  | Err e => Err e
  end.

(** The real [Program().initial_context] (etc.) equals the Coq table. *)
Definition table_ok (which : initsel) (observed : option ctxspec) : bool :=
  match initial_of which, observed with
  | Some a, Some b => ctxspec_eqb a b
  | None, None => true
  | _, _ => false
  end.
