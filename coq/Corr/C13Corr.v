(** Correspondence record for C13: one scripted run of the real Runner with a
    scripted input stream, and what the child's stdin / the output stream saw. *)
From InvokeVerif Require Export Model.StdinModel Model.InStreamModel Spec.C13Spec.

(** The input stream was a REAL text stream (not a terminal): its kind, the number of
    reads before the command finished, and the text its text layer yields (what an
    independent read of the same file / the same bytes through an identical text
    layer returns). *)
Record real_stream := mkReal { r_kind : stream_kind; r_finish_at : nat; r_text : text }.

(** Run-length form in which the harness prints long code-point / byte lists (the
    long inputs are periodic): [(n, u)] stands for [u] repeated [n] times. *)
Definition rle (l : list (N * list N)) : list N :=
  List.concat (map (fun p => List.concat (repeat (snd p) (N.to_nat (fst p)))) l).

Record case := mk {
  c_in : stdin_in;
  c_real : option real_stream;   (* Some: real stream, the script of [c_in] is not used; None: scripted stream *)
  c_done : bool;          (* run() came back in time *)
  c_close_last : bool;    (* the stdin worker wrote nothing to the child's stdin after closing it *)
  c_silent : bool;        (* nothing was echoed to the stream object the run was NOT told to use *)
  c_obs : stdin_obs
}.

Definition sobs_eqb (a b : stdin_obs) : bool :=
  opt_bytes_eqb (sb_received a) (sb_received b) && Nat.eqb (sb_closes a) (sb_closes b) &&
  text_eqb (sb_echo a) (sb_echo b) && Bool.eqb (sb_terminated a) (sb_terminated b) &&
  opt_bytes_eqb (sb_responses a) (sb_responses b).

Definition with_script (i : stdin_in) (s : list sread) : stdin_in :=
  mkSin (si_enc i) (si_stream i) (si_echo i) (si_pty i) s (si_responses i).

(** What the model is run on: for a real stream the reads [read_our_stdin] makes on a
    stream of that kind ([Model.InStreamModel]). *)
Definition model_in (c : case) : stdin_in :=
  match c_real c with
  | None => c_in c
  | Some r => with_script (c_in c) (real_script (r_kind r) (r_finish_at r) (r_text r))
  end.

(** What the spec is told about a real stream: the text is on the stream, then
    end-of-file, and the command finishes at some point -- no reads, no kinds. *)
Definition whole_text_script (t : text) : list sread :=
  match t with [] => [] | _ => [SData t] end ++ [SEof; SFinish].

Definition spec_input (c : case) : stdin_in :=
  match c_real c with
  | None => c_in c
  | Some r => with_script (c_in c) (whole_text_script (r_text r))
  end.

Definition corr (c : case) : bool := c_done c && c_close_last c && c_silent c && sobs_eqb (stdin_model (model_in c)) (c_obs c).

Definition spec_in (i : stdin_in) (o : stdin_obs) : bool :=
  spec_ok (si_enc i) (si_stream i) (si_echo i) (si_pty i) (si_script i) (si_responses i)
          (sb_received o) (sb_closes o) (sb_echo o) (sb_terminated o) (sb_responses o).

Definition spec (c : case) : bool := c_done c && c_close_last c && c_silent c && spec_in (spec_input c) (c_obs c).

(** Encoder validation against CPython's [str.encode]. *)
Record ecase := mke { e_enc : enc; e_text : text; e_bytes : option bytes }.
Definition ecorr (c : ecase) : bool := opt_bytes_eqb (encode (e_enc c) (e_text c)) (e_bytes c).
