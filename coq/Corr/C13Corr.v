(** Correspondence record for C13: one scripted run of the real Runner with a
    scripted input stream, and what the child's stdin / the output stream saw. *)
From InvokeVerif Require Export Model.StdinModel Spec.C13Spec.

Record case := mk {
  c_in : stdin_in;
  c_done : bool;          (* run() came back in time *)
  c_close_last : bool;    (* the stdin worker wrote nothing to the child's stdin after closing it *)
  c_silent : bool;        (* nothing was echoed to the stream object the run was NOT told to use *)
  c_obs : stdin_obs
}.

Definition sobs_eqb (a b : stdin_obs) : bool :=
  opt_bytes_eqb (sb_received a) (sb_received b) && Nat.eqb (sb_closes a) (sb_closes b) &&
  text_eqb (sb_echo a) (sb_echo b) && Bool.eqb (sb_terminated a) (sb_terminated b) &&
  opt_bytes_eqb (sb_responses a) (sb_responses b).

Definition corr (c : case) : bool := c_done c && c_close_last c && c_silent c && sobs_eqb (stdin_model (c_in c)) (c_obs c).

Definition spec_in (i : stdin_in) (o : stdin_obs) : bool :=
  spec_ok (si_enc i) (si_stream i) (si_echo i) (si_pty i) (si_script i) (si_responses i)
          (sb_received o) (sb_closes o) (sb_echo o) (sb_terminated o) (sb_responses o).

Definition spec (c : case) : bool := c_done c && c_close_last c && c_silent c && spec_in (c_in c) (c_obs c).

(** Encoder validation against CPython's [str.encode]. *)
Record ecase := mke { e_enc : enc; e_text : text; e_bytes : option bytes }.
Definition ecorr (c : ecase) : bool := opt_bytes_eqb (encode (e_enc c) (e_text c)) (e_bytes c).
