(** Correspondence record for C04: task signatures, the request forest (each
    request = the named task's call tree + the request's kwargs), the default
    task, the dedupe switch, and the observed session (log of (task, bound
    arguments) in execution order + the returned mapping task -> position). *)
From InvokeVerif Require Export Model.ExecModel Spec.C04Spec.

Record case := mk {
  c_sigs : list (nat * params);
  c_eqk : list (nat * nat);          (* task -> Task.__eq__ class (default: itself) *)
  c_reqs : list request;
  c_default : option call;
  c_dedupe : bool;
  c_obs : result (list entry * list (nat * nat));
  c_autop : list nat;                 (* tasks declared autoprint=True *)
  c_printed : list nat                (* positions of the executions whose return value appeared on stdout *)
}.

Definition sig_of (sigs : list (nat * params)) (t : nat) : params :=
  match find (fun p => Nat.eqb (fst p) t) sigs with Some p => snd p | None => [] end.

Definition eqk_of (l : list (nat * nat)) (t : nat) : nat :=
  match find (fun p => Nat.eqb (fst p) t) l with Some p => snd p | None => t end.

Definition pair_nat_eqb (a b : nat * nat) : bool := Nat.eqb (fst a) (fst b) && Nat.eqb (snd a) (snd b).

(** the returned dict is compared as a dict: order ignored *)
Definition results_equiv (a b : list (nat * nat)) : bool :=
  Nat.eqb (List.length a) (List.length b) &&
  forallb (fun x => existsb (pair_nat_eqb x) b) a && forallb (fun x => existsb (pair_nat_eqb x) a) b.

Definition obs_equiv (a b : result (list entry * list (nat * nat))) : bool :=
  match a, b with
  | Ok (l1, r1), Ok (l2, r2) => list_eqb entry_eqb_s l1 l2 && results_equiv r1 r2
  | Err e1, Err e2 => err_eqb e1 e2
  | _, _ => false
  end.

Definition autop_of (l : list nat) (t : nat) : bool := existsb (Nat.eqb t) l.

Definition is_ok {A} (r : result A) : bool := match r with Ok _ => true | Err _ => false end.

Definition corr (c : case) : bool :=
  obs_equiv (execute (sig_of (c_sigs c)) (eqk_of (c_eqk c)) (c_reqs c) (c_default c) (c_dedupe c)) (c_obs c) &&
  (negb (is_ok (c_obs c)) ||
   list_eqb Nat.eqb (printed (eqk_of (c_eqk c)) (autop_of (c_autop c)) (c_reqs c) (c_default c) (c_dedupe c))
            (c_printed c)).

Definition spec (c : case) : bool :=
  spec_ok (sig_of (c_sigs c)) (c_reqs c) (c_default c) (c_dedupe c) (c_obs c) &&
  (negb (is_ok (c_obs c)) ||
   print_ok entry_eqb (sig_of (c_sigs c)) (autop_of (c_autop c)) (c_reqs c) (c_default c) (c_dedupe c)
            (run_once []) (c_printed c)).

(** inside the guard of the partial theorem: every two calls of the session
    that are effectively identical are also literally identical *)
Definition guard (c : case) : bool :=
  let order := dfs (requested (c_reqs c) (c_default c)) in
  forallb (fun a => forallb (fun b =>
     Bool.eqb (call_eqb (eqk_of (c_eqk c)) a b)
              (match eff (sig_of (c_sigs c)) a, eff (sig_of (c_sigs c)) b with
               | Some x, Some y => entry_eqb x y
               | _, _ => false end)) order) order.

(** * Adjusted judgements: the specification with one known finding's
    expectation substituted (used for attribution only) *)
(** F-C04: calls are compared literally (tasks by identity) *)
Definition adj_literal (c : case) : bool :=
  obs_equiv (execute (sig_of (c_sigs c)) (fun t => t) (c_reqs c) (c_default c) (c_dedupe c)) (c_obs c) &&
  (negb (is_ok (c_obs c)) ||
   list_eqb Nat.eqb (printed (fun t => t) (autop_of (c_autop c)) (c_reqs c) (c_default c) (c_dedupe c))
            (c_printed c)).

Fixpoint run_once_by (eqb : entry -> entry -> bool) (executed : list entry) (l : list entry) : list entry :=
  match l with
  | [] => []
  | e :: l' => if existsb (eqb e) executed then run_once_by eqb executed l'
               else e :: run_once_by eqb (e :: executed) l'
  end.

(** F-C04c: effective arguments as specified, but tasks made by one factory
    count as one task *)
Definition adj_classes (c : case) : bool :=
  let sig := sig_of (c_sigs c) in
  let eqk := eqk_of (c_eqk c) in
  match all_some (map (eff sig) (dfs (requested (c_reqs c) (c_default c)))) with
  | None => true
  | Some order =>
      match c_obs c with
      | Err _ => false
      | Ok (log, results) =>
          list_eqb entry_eqb_s
                   (if c_dedupe c
                    then run_once_by (fun a b => Nat.eqb (eqk (fst a)) (eqk (fst b)) && kw_eqb (snd a) (snd b)) [] order
                    else order) log &&
          results_ok log results &&
          print_ok (fun a b => Nat.eqb (eqk (fst a)) (eqk (fst b)) && kw_eqb (snd a) (snd b)) sig
                   (autop_of (c_autop c)) (c_reqs c) (c_default c) (c_dedupe c)
                   (run_once_by (fun a b => Nat.eqb (eqk (fst a)) (eqk (fst b)) && kw_eqb (snd a) (snd b)) [])
                   (c_printed c)
      end
  end.
