(** Correspondence records for C15.
    [COpts]: one [Runner.run(command, **kwargs)] on a capturing Runner subclass --
    configuration, parent environment, keyword arguments, and what was observed
    (exception class, arguments of [start], echoed text, [self.opts], streams, pty,
    watchers, kind of return value).
    [CCtx]: a program of nested cd / prefix / try blocks around run / sudo calls on a
    real Context -- what [start] received call by call, the two stacks afterwards,
    whether an exception came out. *)
From InvokeVerif Require Export Model.CtxCmdModel Model.ProgramModel Spec.C15Spec Spec.C15CliSpec.

Inductive case :=
| COpts (c : config) (parent : env) (command : string) (k : kwargs) (obs : outcome)
| CCtx (cc : ctxcfg) (prog : list stmt) (calls : list call) (final : cstate) (raised : option xkind)
(* a real [Program.run(argv)]: core flags as parsed, lower configuration levels, the
   INVOKE_RUNTIME_CONFIG variable, and a task body doing [c.run(command, **k)] --
   observed: [config._overrides], the runtime path chosen, the runner's view *)
| CCli (a : coreargs) (lower : config) (env_var : option string) (parent : env)
       (command : string) (k : kwargs)
       (obs_overrides : tree) (obs_runtime : option string) (obs : outcome).

(** build the option tables from association lists *)
Definition opt_eqb (a b : opt) : bool :=
  match a, b with
  | Asynchronous, Asynchronous | Disown, Disown | Dry, Dry | Echo, Echo
  | EchoStdin, EchoStdin | Encoding, Encoding | Env, Env | ErrStream, ErrStream
  | Fallback, Fallback | Hide, Hide | InStream, InStream | OutStream, OutStream
  | EchoFormat, EchoFormat | Pty, Pty | ReplaceEnv, ReplaceEnv | Shell, Shell
  | Warn, Warn | Watchers, Watchers => true
  | _, _ => false
  end.

Definition table (l : list (opt * oval)) (o : opt) : option oval :=
  match find (fun x => opt_eqb o (fst x)) l with
  | Some x => Some (snd x)
  | None => None
  end.

Definition total_table (l : list (opt * oval)) (o : opt) : oval :=
  match table l o with Some v => v | None => ONone end.

Definition env_equiv (a b : env) : bool :=
  forallb (fun key => opt_str_eqb (lookup_env key a) (lookup_env key b)) (map fst a ++ map fst b).

Definition call_eqb (a b : started) : bool :=
  match a, b with
  | None, None => true
  | Some (c1, s1, e1), Some (c2, s2, e2) => String.eqb c1 c2 && oval_eqb s1 s2 && env_equiv e1 e2
  | _, _ => false
  end.

Definition rkind_eqb (a b : rkind) : bool :=
  match a, b with
  | RResult, RResult | RNoneK, RNoneK | RPromise, RPromise | RRaised, RRaised => true
  | _, _ => false
  end.

Definition resolved_eqb (a b : resolved) : bool :=
  forallb (fun o => oval_eqb (r_opts a o) (r_opts b o)) all_opts
  && oval_eqb (r_timeout a) (r_timeout b)
  && oval_eqb (r_out a) (r_out b) && oval_eqb (r_err a) (r_err b) && oval_eqb (r_in a) (r_in b)
  && oval_eqb (r_pty a) (r_pty b) && oval_eqb (r_watchers a) (r_watchers b).

Definition outcome_eqb (a b : outcome) : bool :=
  err_opt_eqb (o_exc a) (o_exc b) && call_eqb (o_started a) (o_started b)
  && opt_str_eqb (o_echo a) (o_echo b)
  && match o_res a, o_res b with
     | None, None => true
     | Some x, Some y => resolved_eqb x y
     | _, _ => false
     end
  && rkind_eqb (o_kind a) (o_kind b).

Definition corr (x : case) : bool :=
  match x with
  | COpts c parent command k obs => outcome_eqb (run_model c parent command k) obs
  | CCtx cc prog calls final raised =>
      let '(st, cs, r) := run_program cc prog in
      list_eqb outcome_eqb cs calls && cstate_eqb st final && oxkind_eqb r raised
  | CCli a lower env_var parent command k ot ort obs =>
      dict_equiv (overrides_of a) ot && dict_equiv ot (overrides_of a)
      && opt_str_eqb (runtime_path_of a env_var) ort
      && outcome_eqb (run_model_cli a lower parent command k) obs
  end.

Definition spec (x : case) : bool :=
  match x with
  | COpts c parent command k obs => spec_ok_opts c parent command k obs
  | CCtx cc prog calls final raised => spec_ok_ctx cc prog calls final raised
  | CCli a lower env_var parent command k ot ort obs =>
      spec_ok_cli a lower env_var parent command k ot ort obs
  end.
