(** Correspondence record for C16: one case = config tree, prefix, environment,
    and what the implementation did. *)
From InvokeVerif Require Export Model.EnvModel Spec.C16Spec.

Record case := mk { c_tree : tree; c_pfx : string; c_env : list (string * string);
                    c_obs : result tree }.

Definition res_equiv (a b : result tree) : bool :=
  match a, b with
  | Ok x, Ok y => dict_equiv x y && dict_equiv y x
  | Err e1, Err e2 => err_eqb e1 e2
  | _, _ => false
  end.

Definition model_out (c : case) : result tree :=
  match load (c_tree c) (effective_prefix (c_pfx c)) (c_env c) with Ok d => Ok (Node d) | Err e => Err e end.

Definition corr (c : case) : bool := res_equiv (model_out c) (c_obs c).

Definition spec (c : case) : bool :=
  spec_ok (c_tree c) (effective_prefix (c_pfx c)) (c_env c)
          (match c_obs c with Ok (Node d) => Ok d | Ok (Leaf _) => Err EOther | Err e => Err e end).
