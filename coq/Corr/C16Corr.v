(** Correspondence record for C16: one case = config tree, prefix, environment,
    and what the implementation did. *)
From InvokeVerif Require Export Model.EnvModel Spec.C16Spec.

Record case := mk { c_tree : tree;            (* defaults level *)
                    c_more : list tree;      (* further levels in precedence order (collection, overrides) *)
                    c_pfx : string; c_env : list (string * string);
                    c_obs : result tree }.

(** the configuration the environment is read against: the merge of the levels
    (whether or not they were loaded with deferred merging) *)
Definition merged (c : case) : result tree :=
  match fold_left (fun acc lvl => bind acc (fun d => merge_dicts d lvl))
                  (c_tree c :: c_more c) (Ok []) with
  | Ok d => Ok (Node d)
  | Err e => Err e
  end.

Definition res_equiv (a b : result tree) : bool :=
  match a, b with
  | Ok x, Ok y => dict_equiv x y && dict_equiv y x
  | Err e1, Err e2 => err_eqb e1 e2
  | _, _ => false
  end.

Definition model_out (c : case) : result tree :=
  match merged c with
  | Err e => Err e
  | Ok t => match load t (effective_prefix (c_pfx c)) (c_env c) with Ok d => Ok (Node d) | Err e => Err e end
  end.

Definition corr (c : case) : bool := res_equiv (model_out c) (c_obs c).

Definition spec (c : case) : bool :=
  match merged c with
  | Err _ => true   (* type-inconsistent levels: outside C16 (C03's guard) *)
  | Ok t =>
  spec_ok t (effective_prefix (c_pfx c)) (c_env c)
          (match c_obs c with Ok (Node d) => Ok d | Ok (Leaf _) => Err EOther | Err e => Err e end)
  end.
