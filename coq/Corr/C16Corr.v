(** Correspondence record for C16: one case = the config levels, prefix,
    environment, and what the implementation did (the env level it computed and
    the deep view afterwards). *)
From InvokeVerif Require Export Model.EnvModel Model.EnvSubModel Spec.C16Spec.

Record case := mk { c_tree : tree;            (* defaults level *)
                    c_more : list tree;      (* [collection] or [collection; overrides] *)
                    c_mods : tree;           (* runtime modifications (a nested dict of written leaves) *)
                    c_dels : tree;           (* runtime deletions (a nested dict with None leaves) *)
                    c_pfx : string; c_env : list (string * string);
                    c_obs : result tree;     (* the env level computed by load_shell_env, or the error *)
                    c_view : option tree;    (* deep view of the config afterwards (when it did not fail) *)
                    c_sub : list (path * subkind) }.
                    (* the settings of the merged configuration whose value is an instance of a SUBCLASS of
                       list/tuple/int/str (the trees above carry the base value it compares equal to) *)

Definition merge_levels (ls : list tree) : result dict :=
  fold_left (fun acc lvl => bind acc (fun d => merge_dicts d lvl)) ls (Ok []).

(** the configuration the environment is read against: the merge of the other
    levels (however they were loaded: eagerly, with deferred merging, after
    earlier loads of other collection levels / environments), deletions applied *)
Definition pre (c : case) : result tree :=
  match merge_levels (c_tree c :: c_more c ++ [c_mods c]) with
  | Ok d => Ok (Node (obliterate d (c_dels c)))
  | Err e => Err e
  end.

Definition res_equiv (a b : result tree) : bool :=
  match a, b with
  | Ok x, Ok y => dict_equiv x y && dict_equiv y x
  | Err e1, Err e2 => err_eqb e1 e2
  | _, _ => false
  end.

Definition model_env (c : case) : result tree :=
  match pre c with
  | Err e => Err e
  | Ok t => match load t (effective_prefix (c_pfx c)) (c_env c) with Ok d => Ok (Node d) | Err e => Err e end
  end.

(** the same with the classes of the values taken into account ([load_py]); equal to [model_env]
    unless a setting is an IntEnum member (Proofs/C16_sub.v, [load_py_projection]) *)
Definition model_env_py (c : case) : result tree :=
  match pre c with
  | Err e => Err e
  | Ok t => match load_py t (c_sub c) (effective_prefix (c_pfx c)) (c_env c) with Ok d => Ok (Node d) | Err e => Err e end
  end.

(** Config.merge order: defaults, collection, (files), env, (runtime), overrides, modifications; deletions last *)
Definition model_view (c : case) : option tree :=
  match model_env c with
  | Ok e =>
      match merge_levels (c_tree c :: firstn 1 (c_more c) ++ [e] ++ skipn 1 (c_more c) ++ [c_mods c]) with
      | Ok d => Some (Node (obliterate d (c_dels c)))
      | Err _ => None
      end
  | Err _ => None
  end.

Definition corr (c : case) : bool :=
  res_equiv (model_env_py c) (c_obs c) &&
  match c_view c, model_view c with
  | Some v, Some m => dict_equiv v m && dict_equiv m v
  | None, _ => true
  | Some _, None => false
  end.

Definition obs_dict (c : case) : result dict :=
  match c_obs c with Ok (Node d) => Ok d | Ok (Leaf _) => Err EOther | Err e => Err e end.

Definition spec (c : case) : bool :=
  match pre c with
  | Err _ => true   (* type-inconsistent levels: outside C16 (C03's guard) *)
  | Ok t =>
      spec_ok t (effective_prefix (c_pfx c)) (c_env c) (obs_dict c) &&
      match c_view c, obs_dict c with
      | Some v, Ok d => spec_view t (skipn 1 (c_more c) ++ [c_mods c]) d v
      | _, _ => true
      end
  end.
