#!/bin/bash
# revert_matrix.sh -- for every 'fixed' entry of KNOWN_FINDINGS.json: revert that fix commit in a scratch worktree
# and run the checks of the properties it names; each must report a VIOLATION (the defect returned).
cd /verif
python3 - <<'PY' > /tmp/revert_list.$$
import json
d=json.load(open('/verif/KNOWN_FINDINGS.json'))
seen=set()
for f in d['findings']:
    if f.get('status')=='fixed' and f.get('commit') and (f['commit'],tuple(f['properties'])) not in seen:
        seen.add((f['commit'],tuple(f['properties'])))
        print(f['id'], f['commit'], ' '.join(f['properties']))
PY
while read fid commit props; do
  wt=/tmp/rvm-$fid-$$
  git -C /repo worktree add -q "$wt" HEAD || continue
  if git -C "$wt" revert --no-edit "$commit" >/dev/null 2>&1; then
    for pid in $props; do
      out=$(VERIF_REPO="$wt" timeout 1500 ./vcheck $pid quick 2>&1); rc=$?
      echo "$fid revert-of-$commit $pid rc=$rc :: $(echo "$out" | grep '^VIOLATION' | head -1 | cut -c1-120) :: $(echo "$out" | tail -1 | cut -c1-120)"
    done
  else
    echo "$fid revert-of-$commit does-not-revert-cleanly (later fixes touch the same lines)"
    git -C "$wt" revert --abort 2>/dev/null
  fi
  git -C /repo worktree remove --force "$wt"
done < /tmp/revert_list.$$
rm -f /tmp/revert_list.$$
