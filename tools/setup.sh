#!/bin/bash
# Build the whole Coq development from files on disk (offline), full .vo build.
# make -k: one broken file must not prevent the other properties' proofs from building;
# each check rebuilds (and judges) its own targets anyway.
cd "$(dirname "$0")/.."
PYTHONPATH=. /venv/bin/python -m harness.translate "${VERIF_REPO:-/repo}" > /dev/null
cd coq
coq_makefile -f _CoqProject -o Makefile > /dev/null || exit 1
timeout 3400 make -k -j16 2>&1 | grep -v '^COQC\|^COQDEP\|^CLEAN' | tail -15
# sixteen coqc at once can exhaust memory on a from-scratch build (a few files need several GB):
# whatever is still missing is built again with little parallelism
timeout 3400 make -k -j3 2>&1 | grep -v '^COQC\|^COQDEP\|^CLEAN' | tail -15
cd ..
# no Admitted / Axiom / ... anywhere (comments stripped by the scanner)
PYTHONPATH=. /venv/bin/python -c "
from harness import core
bad = core.scan_forbidden()
print('forbidden constructs:', bad)
raise SystemExit(1 if bad else 0)"
