#!/bin/bash
# Build the whole Coq development from files on disk (offline), full .vo build.
set -e
cd "$(dirname "$0")/../coq"
coq_makefile -f _CoqProject -o Makefile > /dev/null
timeout 3400 make -j16 2>&1 | tail -5
cd ..
# no Admitted / Axiom / ... anywhere (comments stripped by the scanner)
PYTHONPATH=. /venv/bin/python -c "
from harness import core
bad = core.scan_forbidden()
print('forbidden constructs:', bad)
raise SystemExit(1 if bad else 0)"
