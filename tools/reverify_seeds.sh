#!/bin/bash
# re-check every kept seed against the *current* /repo HEAD: patch applies, demo exits 0 pristine and 1 patched
# (--baseline: also the pinned suite still passes with the patch)
cd /verif
for d in seeded/*/; do
  name=$(basename $d); wt=/tmp/rv-$name-$$
  git -C /repo worktree add -q "$wt" HEAD || continue
  ( arg="${1:-}"; cd $d; PYTHONPATH="$wt" timeout 120 /venv/bin/python demo.py >/dev/null 2>&1; a=$?
    if git -C "$wt" apply "$PWD/patch.diff" 2>/dev/null; then
      PYTHONPATH="$wt" timeout 120 /venv/bin/python demo.py >/dev/null 2>&1; c=$?
      b=0; if [ "$arg" = "--baseline" ]; then python3 /verif/tools/baseline.py "$wt" >/dev/null 2>&1; b=$?; fi
      echo "$name pristine=$a patched=$c baseline=$b $([ $a -eq 0 ] && [ $c -eq 1 ] && [ $b -eq 0 ] && echo VALID || echo INVALID)"
    else echo "$name patch-does-not-apply INVALID"; fi )
  git -C /repo worktree remove --force "$wt"
done
