#!/usr/bin/env python3
"""Regenerate MANIFEST.json from tools/manifest_src.json (claimed checks) so that it always validates
and not_applicable covers every unclaimed property."""
import json, os
here = os.path.dirname(os.path.abspath(__file__))
root = os.path.dirname(here)
src = json.load(open(os.path.join(here, "manifest_src.json")))
props = [json.loads(l) for l in open(os.path.join(root, "properties.jsonl"))]
checks = []
for pid, c in sorted(src["checks"].items()):
    checks.append({
        "property_id": pid,
        "quick_cmd": "./vcheck %s quick" % pid,
        "thorough_cmd": "./vcheck %s thorough" % pid,
        "evidence_file": "/verif/evidence/%s.json" % pid,
        "replay_cmd_template": "./vcheck %s --replay {path}" % pid,
        "engine": "coq-proof+correspondence",
        "level_claimed": {"category": c.get("category", "proof"), "text": c["text"], "design_ref": c.get("design_ref", "DESIGN.md 4 (%s)" % pid)},
        "level_note": c["note"],
        "technique": c.get("technique", "Coq 8.16 theorems over a Gallina model + model/implementation correspondence evaluated in Coq (vm_compute)"),
    })
na = []
for p in props:
    if p["id"] not in src["checks"]:
        na.append({"property_id": p["id"], "reason": src.get("not_applicable", {}).get(p["id"], "check not built yet in this round (planned, see DESIGN.md 7); not claimed until it runs clean")})
m = {
    "version": 1,
    "setup_cmd": "./tools/setup.sh",
    "hooks": {"guard": "PYINVOKE_INVOKE_VERIF", "enable": "no source hooks are needed: instrumentation lives in harness subclasses; vcheck exports PYINVOKE_INVOKE_VERIF=1 for uniformity",
              "baseline_off_cmd": "cd /repo && /venv/bin/python -m pytest -ra -q -p no:cacheprovider --timeout=900 --continue-on-collection-errors",
              "source_commits": [], "add_only": True},
    "engines": [{"name": "coq-proof+correspondence", "path": "/verif/vcheck", "serves_properties": sorted(src["checks"]),
                 "kind_free_text": "Gallina models + executable specs + theorems (coq/), tied to /repo by differential execution of model and implementation on generated cases, evaluated inside Coq by vm_compute (harness/)"}],
    "checks": checks,
    "notes": src.get("notes", ""),
    "not_applicable": na,
}
json.dump(m, open(os.path.join(root, "MANIFEST.json"), "w"), indent=1)
print("claimed:", sorted(src["checks"]), "unclaimed:", [x["property_id"] for x in na])
