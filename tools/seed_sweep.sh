#!/bin/bash
# seed_sweep.sh "<seeds>" [tier] -- every claimed check under several VERIF_SEED values on the unchanged tree
tier="${2:-quick}"
cd /verif
for seed in $1; do
  for pid in $(python3 -c "import json;print(' '.join(c['property_id'] for c in json.load(open('MANIFEST.json'))['checks']))"); do
    out=$(VERIF_SEED=$seed timeout 3600 ./vcheck $pid $tier 2>&1); rc=$?
    echo "seed=$seed $pid rc=$rc :: $(echo "$out" | grep '^VIOLATION' | head -2 | tr '\n' ' ') $(echo "$out" | tail -1 | cut -c1-160)"
  done
done
