#!/bin/bash
# run_seed.sh <seed-name> <Cnn> [tier]  -- run a check against a seeded change in a scratch worktree (never touches /repo)
name="$1"; pid="$2"; tier="${3:-quick}"
wt=/tmp/rs-$name-$$
git -C /repo worktree add -q "$wt" HEAD || exit 2
trap 'git -C /repo worktree remove --force "$wt" 2>/dev/null' EXIT
git -C "$wt" apply /verif/seeded/$name/patch.diff || exit 2
out=$(cd /verif && VERIF_REPO="$wt" timeout 1800 ./vcheck "$pid" "$tier" 2>&1); rc=$?
echo "$out" | grep '^VIOLATION'
echo "$out" | grep -v '^VIOLATION' | tail -4
echo "exit=$rc"
