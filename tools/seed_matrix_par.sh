#!/bin/bash
# seed_matrix_par.sh [jobs] [tier] [name-regex] -- like seed_matrix.sh, several seeds at a time (each run has its own
# scratch worktree and its own scratch copy of the Coq tree); output lines in seed order
jobs="${1:-3}"; tier="${2:-quick}"; re="${3:-.}"
cd /verif
one() {
  name="$1"; tier="$2"
  pid=$(python3 -c "import json;print(json.load(open('seeded/$name/meta.json'))['property'])")
  out=$(tools/run_seed.sh $name $pid $tier 2>&1)
  echo "$name ($pid): $(echo "$out" | grep -c '^VIOLATION') violation lines; $(echo "$out" | grep '^VIOLATION' | head -1 | cut -c1-150) :: $(echo "$out" | tail -1)"
}
export -f one
ls seeded | grep -E "$re" | xargs -P "$jobs" -I{} bash -c "one {} $tier" | sort
