#!/usr/bin/env python3
"""Run the pinned suite in a repo dir (default /repo) and compare with BASELINE.stable_pass.
usage: baseline.py [repo_dir]   exit 0 iff every stable_pass test passes."""
import json, os, subprocess, sys, tempfile
import xml.etree.ElementTree as ET
repo = sys.argv[1] if len(sys.argv) > 1 else "/repo"
base = json.load(open("/root/.vp/BASELINE.json"))
fd, xml = tempfile.mkstemp(suffix=".xml", dir="/root/work" if os.path.isdir("/root/work") else None)
os.close(fd)
env = dict(os.environ)
env.pop("PYINVOKE_INVOKE_VERIF", None)
subprocess.run(["/venv/bin/python", "-m", "pytest", "-q", "-p", "no:cacheprovider", "--timeout=900",
                "--continue-on-collection-errors", "--junitxml=" + xml], cwd=repo,
               stdout=subprocess.DEVNULL, stderr=subprocess.DEVNULL, env=env)
passed = set()
for tc in ET.parse(xml).getroot().iter("testcase"):
    if not any(ch.tag in ("failure", "error", "skipped") for ch in tc):
        passed.add("%s::%s" % (tc.get("classname"), tc.get("name")))
os.remove(xml)
missing = [t for t in base["stable_pass"] if t not in passed]
print("stable_pass: %d, passing now: %d, missing: %d" % (len(base["stable_pass"]), len(passed), len(missing)))
for m in missing[:30]:
    print("  MISSING", m)
sys.exit(1 if missing else 0)
