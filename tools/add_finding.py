#!/usr/bin/env python3
"""Append one finding (JSON object on stdin) to KNOWN_FINDINGS.json as ONE line
before the closing bracket, without touching the other entries' text; an
existing one-line entry with the same id is replaced."""
import fcntl, json, os, re, sys
root = os.path.dirname(os.path.dirname(os.path.abspath(__file__)))
path = os.path.join(root, "KNOWN_FINDINGS.json")
new = json.load(sys.stdin)
line = "  " + json.dumps(new, ensure_ascii=False)
os.makedirs(os.path.join(root, "build"), exist_ok=True)
with open(os.path.join(root, "build", ".findings.lock"), "w") as lk:
    fcntl.flock(lk, fcntl.LOCK_EX)
    txt = open(path).read()
    pat = re.compile(r'^  \{"id": "%s".*?\}(,?)$' % re.escape(new["id"]), re.M)
    m = pat.search(txt)
    if m:
        txt = txt[:m.start()] + line + m.group(1) + txt[m.end():]
    else:
        k = txt.rstrip().rfind("]")
        head = txt[:k].rstrip()
        txt = head + ",\n" + line + "\n ]\n}\n"
    data = json.loads(txt)          # must still parse
    tmp = path + ".tmp%d" % os.getpid()
    open(tmp, "w").write(txt)
    os.replace(tmp, path)
print("findings:", [f["id"] for f in data["findings"]])
