#!/bin/bash
# verify_seed.sh Cnn [outdir]  -- independently confirm a seeded change and store it under /verif/seeded/Cnn[-k]/
# (demo passes on pristine HEAD, patch applies, pinned suite still passes, demo fails with patch)
set -u
pid="$1"; out="${2:-/tmp/seedout-$pid}"; name="${3:-$pid}"
wt=/tmp/vs-$name-$$
git -C /repo worktree add -q "$wt" HEAD || exit 2
trap 'git -C /repo worktree remove --force "$wt" 2>/dev/null' EXIT
cd "$out" || exit 2
PYTHONPATH="$wt" timeout 120 /venv/bin/python demo.py > /tmp/vs-$$-a.log 2>&1; a=$?
git -C "$wt" apply "$out/patch.diff" || { echo "patch does not apply"; exit 2; }
python3 /verif/tools/baseline.py "$wt" > /tmp/vs-$$-b.log 2>&1; b=$?
PYTHONPATH="$wt" timeout 120 /venv/bin/python demo.py > /tmp/vs-$$-c.log 2>&1; c=$?
echo "$name: demo pristine exit=$a (want 0); baseline with patch exit=$b (want 0): $(tail -1 /tmp/vs-$$-b.log | head -c 200); demo with patch exit=$c (want 1)"
if [ $a -eq 0 ] && [ $b -eq 0 ] && [ $c -eq 1 ]; then
  d=/verif/seeded/$name; mkdir -p "$d"
  cp "$out/patch.diff" "$out/demo.py" "$d/"
  python3 - "$out/meta.json" "$d/meta.json" "$pid" "$a" "$b" "$c" <<'PY'
import json,sys
src,dst,pid,a,b,c=sys.argv[1:]
try: m=json.load(open(src))
except Exception: m={}
m["property"]=pid
m["confirmed_by_orchestrator"]={"fresh_worktree_of":"/repo HEAD","demo_pristine_exit":int(a),"baseline_with_patch_exit":int(b),"demo_with_patch_exit":int(c),
  "ran":["PYTHONPATH=<wt> /venv/bin/python demo.py (pristine)","git apply patch.diff","python3 /verif/tools/baseline.py <wt>","PYTHONPATH=<wt> /venv/bin/python demo.py (patched)"]}
json.dump(m,open(dst,"w"),indent=1)
PY
  echo "KEPT -> $d"
else
  echo "REJECTED"; tail -5 /tmp/vs-$$-a.log /tmp/vs-$$-c.log
fi
rm -f /tmp/vs-$$-*.log
