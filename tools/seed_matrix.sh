#!/bin/bash
# seed_matrix.sh [tier] -- run each kept seeded change against the check of the property it breaks
tier="${1:-quick}"
cd /verif
for d in seeded/*/; do
  name=$(basename $d)
  pid=$(python3 -c "import json;print(json.load(open('$d/meta.json'))['property'])")
  [ -f harness/props/${pid,,}.py ] || { echo "$name ($pid): no check yet"; continue; }
  out=$(tools/run_seed.sh $name $pid $tier 2>&1)
  echo "$name ($pid): $(echo "$out" | grep -c '^VIOLATION') violation lines; $(echo "$out" | grep '^VIOLATION' | head -1 | cut -c1-150) :: $(echo "$out" | tail -1)"
done
