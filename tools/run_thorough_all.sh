#!/bin/bash
# thorough tier of every claimed check on the unchanged tree; keeps a copy of each evidence file under evidence/thorough/
cd /verif; mkdir -p evidence/thorough
for pid in $(python3 -c "import json;print(' '.join(c['property_id'] for c in json.load(open('MANIFEST.json'))['checks']))"); do
  s=$(date +%s); out=$(timeout 5400 ./vcheck $pid thorough 2>&1); rc=$?; e=$(date +%s)
  cp evidence/$pid.json evidence/thorough/$pid.json 2>/dev/null
  echo "$pid thorough rc=$rc $((e-s))s :: $(echo "$out" | grep -c '^KNOWN-FINDING') KF :: $(echo "$out" | grep '^VIOLATION' | head -1) $(echo "$out" | tail -1 | cut -c1-150)"
done
