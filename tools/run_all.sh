#!/bin/bash
# run_all.sh [tier]  -- every claimed check on the unchanged /repo, one line each
tier="${1:-quick}"
cd /verif
for pid in $(python3 -c "import json;print(' '.join(c['property_id'] for c in json.load(open('MANIFEST.json'))['checks']))"); do
  s=$(date +%s)
  out=$(timeout 3600 ./vcheck $pid $tier 2>&1); rc=$?
  e=$(date +%s)
  echo "$pid rc=$rc $((e-s))s :: $(echo "$out" | grep -c '^KNOWN-FINDING') known-findings :: $(echo "$out" | grep '^VIOLATION' | head -2 | tr '\n' ' ') $(echo "$out" | tail -1)"
done
