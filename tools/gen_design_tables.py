#!/usr/bin/env python3
"""Regenerate the machine-derived tables of DESIGN.md (between <!-- BEGIN GENERATED:x --> / <!-- END GENERATED:x -->
markers) from what is on disk: evidence/*.json (theorems, assumptions, timings), KNOWN_FINDINGS.json, seeded/*/meta.json
and the last seed-matrix log (tools/seed_matrix.sh > build/seed_matrix.log)."""
import glob
import json
import os
import re
import sys

ROOT = os.path.dirname(os.path.dirname(os.path.abspath(__file__)))


def theorems():
    out = ["| property | theorem | kind | Print Assumptions |", "|---|---|---|---|"]
    for f in sorted(glob.glob(os.path.join(ROOT, "evidence", "C*.json"))):
        e = json.load(open(f))
        for t in e["coverage"].get("theorems", []):
            a = t.get("assumptions", "")
            a = "closed" if a.startswith("Closed under the global context") else a[:80]
            out.append("| %s | `%s` | %s | %s |" % (e["property_id"], t["name"], t["kind"].split("(")[0], a))
    return "\n".join(out)


def runs():
    out = ["| property | tier | cases | distinct non-trivial | theorems (discharged) | model/impl disagreements | known findings seen | wall s |",
           "|---|---|---|---|---|---|---|---|"]
    for f in sorted(glob.glob(os.path.join(ROOT, "evidence", "C*.json"))):
        e = json.load(open(f))
        c = e["coverage"]
        out.append("| %s | %s | %s | %s | %s (%s) | %s | %s | %s |" % (
            e["property_id"], e["tier"], c.get("evaluations"), c.get("distinct_nontrivial"), c.get("obligations"),
            c.get("discharged"), c.get("correspondence_disagreements"),
            ", ".join(sorted(c.get("known_findings_seen", {}))) or "-", e.get("wall_s")))
    return "\n".join(out)


def findings():
    d = json.load(open(os.path.join(ROOT, "KNOWN_FINDINGS.json")))
    out = ["| id | status | properties | what fails | commit |", "|---|---|---|---|---|"]
    for f in d["findings"]:
        out.append("| %s | %s | %s | %s | %s |" % (f["id"], f["status"], ", ".join(f.get("properties", [])),
                                                  f["what"].replace("|", "\\|").replace("\n", " "), f.get("commit", "")))
    return "\n".join(out)


def seeds():
    log = {}
    p = os.path.join(ROOT, "build", "seed_matrix.log")
    if os.path.exists(p):
        for line in open(p):
            m = re.match(r"(\S+) \((C\d+)\): (\d+) violation lines; (.*?) :: (.*)", line)
            if m:
                log[m.group(1)] = (m.group(3), m.group(4), m.group(5))
    out = ["| seed | property | what the change does | what it needs to manifest | caught by `./vcheck` quick? | how |",
           "|---|---|---|---|---|---|"]
    for d in sorted(glob.glob(os.path.join(ROOT, "seeded", "*"))):
        name = os.path.basename(d)
        try:
            m = json.load(open(os.path.join(d, "meta.json")))
        except Exception:
            continue
        r = log.get(name)
        if r is None:
            caught, how = "not run", ""
        else:
            caught = "yes" if "exit=1" in r[2] else "NO"
            k = re.search(r"replay=\S*/\d+-([a-z\-]+?)-[0-9a-f]{6,}\.json(.*)", r[1])
            how = (k.group(1) + k.group(2)) if k else r[1][:60]
        out.append("| %s | %s | %s | %s | %s | %s |" % (
            name, m.get("property"), str(m.get("summary", "")).replace("|", "\\|")[:220],
            str(m.get("needs", "")).replace("|", "\\|")[:220], caught, how))
    return "\n".join(out)


def summary():
    man = json.load(open(os.path.join(ROOT, "MANIFEST.json")))
    kf = json.load(open(os.path.join(ROOT, "KNOWN_FINDINGS.json")))["findings"]
    out = ["| prop | what is proved and how it is tied to the code (from MANIFEST.level_claimed.text) | still-open findings | repaired findings |",
           "|---|---|---|---|"]
    for c in man["checks"]:
        pid = c["property_id"]
        known = [f["id"] for f in kf if pid in f.get("properties", []) and f["status"] == "known"]
        fixed = [f["id"] for f in kf if pid in f.get("properties", []) and f["status"] == "fixed"]
        out.append("| %s | %s | %s | %s |" % (pid, c["level_claimed"]["text"].replace("|", "\\|"),
                                             ", ".join(known) or "-", ", ".join(fixed) or "-"))
    return "\n".join(out)


GEN = {"theorems": theorems, "runs": runs, "findings": findings, "seeds": seeds, "summary": summary}


def main():
    path = os.path.join(ROOT, "DESIGN.md")
    s = open(path).read()
    for k, f in GEN.items():
        pat = re.compile(r"(<!-- BEGIN GENERATED:%s -->)(.*?)(<!-- END GENERATED:%s -->)" % (k, k), re.S)
        if pat.search(s):
            s = pat.sub(lambda m: m.group(1) + "\n" + f() + "\n" + m.group(3), s)
    open(path, "w").write(s)


if __name__ == "__main__":
    if len(sys.argv) > 1:
        print(GEN[sys.argv[1]]())
    else:
        main()
