"""Shared by the argv-parser checks (C07, C18, C01): signature-set generator,
construction of real @task functions / Collection / Parser, token alphabets,
canonical observations and the Coq printers for contexts and results.

A *signature set* (JSON-able):
  {"tasks": [{"name": str, "aliases": [str], "coll": None | "sub", "default": bool,
              "params": [[pyname, DEFAULT], ...],
              "positional": None | [pyname], "optional": [pyname], "iterable": [pyname],
              "incrementable": [pyname], "auto_shortflags": bool}, ...]}
  DEFAULT = {"k": "empty"} | {"k": "none"} | {"k": "str"|"int"|"bool"|"list", "v": ...}
          | {"k": "other", "ty": type name, "src": python source of the default}
"""
import json
import os
import signal

from . import coqterm as ct

# --------------------------------------------------------------------------
# building the real objects
# --------------------------------------------------------------------------
_cache = {}


def default_src(d):
    k = d["k"]
    if k == "empty":
        return None
    if k == "none":
        return "None"
    if k == "other":
        return d["src"]
    return repr(d["v"])


def build_collection(sigs):
    """Real Collection made of real @task functions created with exec."""
    from invoke import Collection, task
    root = Collection()
    subs = {}
    for t in sigs["tasks"]:
        params = ["c"]
        for pname, d in t["params"]:
            src = default_src(d)
            params.append(pname if src is None else "%s=%s" % (pname, src))
        code = "def _body(%s):\n    return None\n" % ", ".join(params)
        ns = {}
        exec(code, ns)
        kwargs = dict(name=t["name"], aliases=tuple(t.get("aliases", ())),
                      optional=tuple(t.get("optional", ())),
                      iterable=tuple(t.get("iterable", ())),
                      incrementable=tuple(t.get("incrementable", ())),
                      auto_shortflags=t.get("auto_shortflags", True))
        if t.get("positional") is not None:
            kwargs["positional"] = tuple(t["positional"])
        tk = task(**kwargs)(ns["_body"])
        cname = t.get("coll")
        if cname:
            if cname not in subs:
                subs[cname] = Collection(cname)
            subs[cname].add_task(tk, default=bool(t.get("default")))
        else:
            root.add_task(tk)
    for cname, sub in subs.items():
        root.add_collection(sub)
    return root


def contexts_of(sigs):
    """list of real ParserContext, or raises (invalid signature set)."""
    return build_collection(sigs).to_contexts()


def sig_key(sigs):
    return json.dumps(sigs, sort_keys=True)


def ctx_specs(sigs):
    """JSON description of the real contexts (cached): the *input* of the
    parser model.  Raises if the signature set is rejected by invoke."""
    k = sig_key(sigs)
    if k not in _cache:
        _cache[k] = [spec_of_ctx(c) for c in contexts_of(sigs)]
    return _cache[k]


KINDS = {str: "KStr", int: "KInt", bool: "KBool", list: "KList"}

# Other callable kinds (type(default) of a float / complex / bytes / date default).  What such a
# callable makes of a piece of text is not invoke's business: the model receives it as an ORACLE
# (coq/Common/ArgSpec.v KOther) -- the default outcome for the type plus the table of texts with
# a different outcome, computed here by calling the callable itself on every text that can
# reach it.
import datetime as _dt  # noqa: E402
OTHER_KINDS = {"float": float, "complex": complex, "bytes": bytes, "date": _dt.date}
OTHER_DEFAULT_OUTCOME = {"float": "V", "complex": "V", "bytes": "T", "date": "T"}
OTHER_DEFAULT_SRC = {"float": ["1.5", "0.0"], "complex": ["2j"], "bytes": ["b'x'"],
                     "date": ["__import__('datetime').date(2020, 1, 2)"]}


def other_repr(v):
    """reserved spelling of a value of another type (coq/Common/SigTypes.v to_aval)"""
    return "<%s %s>" % (type(v).__name__, repr(v))


def cast_outcome(kind_name, text):
    try:
        return ("ok", repr(OTHER_KINDS[kind_name](text)))
    except ValueError:
        return "V"
    except TypeError:
        return "T"


def oracle_texts(tokens):
    """every text that can reach a kind callable: the substrings of the command-line tokens
    (whole tokens, parts after '=', glued rests, re-split pieces) and '-c' for each character
    (the members of a short-flag cluster)"""
    out = set()
    for t in tokens:
        n = len(t)
        for i in range(n + 1):
            for j in range(i, n + 1):
                out.add(t[i:j])
        for ch in t:
            out.add("-" + ch)
    return out


def oracle_table(kind_name, tokens):
    dflt = OTHER_DEFAULT_OUTCOME[kind_name]
    tbl = []
    for s in sorted(oracle_texts(tokens)):
        o = cast_outcome(kind_name, s)
        if o != dflt:
            tbl.append((s, o))
    return dflt, tbl


def spec_of_arg(a):
    import inspect
    default = a.default
    if default is inspect.Signature.empty:
        # iterable parameter without default: Task.arg_opts passes Signature.empty through
        # as the Argument's default; list-kind arguments never read it (value starts as [])
        default = None
    d = {"names": list(a.names), "default": canon_default(default),
         "positional": bool(a.positional), "optional": bool(a.optional),
         "incrementable": bool(a.incrementable), "attr_name": a.attr_name}
    if a.kind in KINDS:
        d["kind"] = KINDS[a.kind]
    else:
        name = getattr(a.kind, "__name__", None)
        if name not in OTHER_KINDS or OTHER_KINDS[name] is not a.kind:
            raise ValueError("kind not modelled: %r" % (a.kind,))
        d["kind"] = "KOther"
        d["kind_name"] = name
    return d


def canon_default(v):
    if v is None or isinstance(v, (bool, int, str, list)):
        return v
    return other_repr(v)


def spec_of_ctx(c):
    return {"name": c.name, "aliases": list(c.aliases),
            "args": [spec_of_arg(a) for a in c.args.values()]}


SMALL_INITIAL = [
    dict(names=("timeout", "T"), kind=int),
    dict(names=("echo", "e"), kind=bool, default=False),
    dict(names=("help", "h"), optional=True),
    dict(names=("config", "f")),
    dict(names=("color",), kind=bool, default=True),
    dict(names=("verbose", "v"), kind=int, default=0, incrementable=True),
    dict(names=("include", "I"), kind=list),
]


def initial_context(which):
    from invoke import Program
    from invoke.parser import Argument, ParserContext
    if which == "none":
        return None
    if which == "core":
        return Program().initial_context
    if which == "corens":      # bundled-namespace mode: no task_args
        return ParserContext(args=Program().core_args())
    if which == "small":
        return ParserContext(args=[Argument(**kw) for kw in SMALL_INITIAL])
    raise ValueError(which)


_init_spec_cache = {}


def initial_spec(which):
    if which == "none":
        return None
    if which not in _init_spec_cache:
        _init_spec_cache[which] = spec_of_ctx(initial_context(which))
    return _init_spec_cache[which]


# --------------------------------------------------------------------------
# running the real parser
# --------------------------------------------------------------------------
class _Timeout(Exception):
    pass


def _alarm(signum, frame):
    raise _Timeout()


def with_timeout(fn, seconds=10):
    old = signal.signal(signal.SIGALRM, _alarm)
    signal.alarm(seconds)
    try:
        return fn()
    except _Timeout:
        return {"err": "Timeout"}
    finally:
        signal.alarm(0)
        signal.signal(signal.SIGALRM, old)


def canon_val(v):
    if v is None or isinstance(v, (bool, int, str)):
        return v
    if isinstance(v, list):
        return {"list": [x if isinstance(x, str) else repr(x) for x in v]}
    return other_repr(v)


def canon_result(res):
    return {"ctxs": [[c.name, [[k, canon_val(v)] for k, v in c.as_kwargs.items()]] for c in res],
            "unparsed": list(res.unparsed), "remainder": res.remainder}


def make_parser(sigs, initial="core", ignore_unknown=False, noctx=False):
    from invoke.parser import Parser
    return Parser(contexts=() if noctx else contexts_of(sigs), initial=initial_context(initial),
                  ignore_unknown=ignore_unknown)


def other_argv(argv):
    """a different command line to parse in between (deterministic)"""
    return list(reversed(argv)) + ["-e", "--", "x"]


def run_parse(sigs, argv, initial="core", ignore_unknown=False, noctx=False, purity=True):
    """Parse on a real Parser.  With [purity] the SAME Parser object is used three
    times (argv, a different argv, argv again) and argv / parser.initial /
    parser.contexts are deep-compared before and after: any impurity is reported as
    a pseudo exception class (Impure...), which no specification accepts."""
    def attempt(parser, av):
        try:
            return {"ok": canon_result(parser.parse_argv(av))}
        except _Timeout:
            raise
        except BaseException as e:  # noqa
            return {"err": type(e).__name__}

    def go():
        try:
            parser = make_parser(sigs, initial, ignore_unknown, noctx)
        except _Timeout:
            raise
        except BaseException as e:  # noqa
            return {"err": type(e).__name__}
        av = list(argv)
        if not purity:
            return attempt(parser, av)
        before = snapshot_parser(parser)
        r1 = attempt(parser, av)
        if av != list(argv):
            return {"err": "ImpureArgvModified"}
        if snapshot_parser(parser) != before:
            return {"err": "ImpureParserModified"}
        attempt(parser, other_argv(argv))
        r2 = attempt(parser, list(argv))
        if r2 != r1:
            return {"err": "ImpureRepeatDiffers"}
        if snapshot_parser(parser) != before:
            return {"err": "ImpureParserModified"}
        return r1
    return with_timeout(go)


def snapshot_parser(parser):
    """Deep, identity-free dump of everything a parse could touch."""
    def arg(a):
        return [list(a.names), getattr(a.kind, "__name__", str(a.kind)), repr(a.default),
                repr(a.raw_value), repr(a._value), a.positional, a.optional, a.incrementable,
                a.attr_name]

    def ctx(c):
        if c is None:
            return None
        return [c.name, list(c.aliases), [[k, arg(a)] for k, a in c.args.items()],
                sorted(c.args.aliases.items()), [arg(a) for a in c.positional_args],
                [[k, arg(a)] for k, a in c.flags.items()], sorted(c.flags.aliases.items()),
                sorted(c.inverse_flags.items())]
    return json.dumps([ctx(parser.initial), [[k, ctx(c)] for k, c in parser.contexts.items()],
                       sorted(parser.contexts.aliases.items()), parser.ignore_unknown])


# --------------------------------------------------------------------------
# Coq printers
# --------------------------------------------------------------------------
def aval(v):
    if v is None:
        return "ANone"
    if v is True or v is False:
        return "(ABool %s)" % ct.b(v)
    if isinstance(v, int):
        return "(AInt %s)" % ct.z(v)
    if isinstance(v, str):
        return "(AStr %s)" % ct.s(v)
    if isinstance(v, dict) and "list" in v:
        return "(AList %s)" % ct.strs(v["list"])
    if isinstance(v, list):
        return "(AList %s)" % ct.strs([x if isinstance(x, str) else repr(x) for x in v])
    return '(AStr "<unmodelled>")'


def cast_out(o):
    if o == "V":
        return "CFailV"
    if o == "T":
        return "CFailT"
    return "(COk %s)" % ct.s(o[1])


def kind_term(a, tokens=()):
    if a["kind"] != "KOther":
        return a["kind"]
    dflt, tbl = oracle_table(a["kind_name"], tokens)
    return "(KOther %s %s %s)" % (ct.s(a["kind_name"]), cast_out(dflt),
                                   ct.lst([ct.pair(ct.s(k), cast_out(o)) for k, o in tbl]))


def argspec(a, tokens=()):
    return "(mkArg %s %s %s %s %s %s %s)" % (
        ct.strs(a["names"]), kind_term(a, tokens), aval(a["default"]), ct.b(a["positional"]),
        ct.b(a["optional"]), ct.b(a["incrementable"]),
        ct.opt(None if a["attr_name"] is None else ct.s(a["attr_name"])))


def ctxspec(c, tokens=()):
    """[tokens]: the command-line tokens of the case (the oracle of other-typed arguments is
    computed from them)"""
    return "(mkCtx %s %s %s)" % (ct.opt(None if c["name"] is None else ct.s(c["name"])),
                                 ct.strs(c["aliases"]), ct.lst([argspec(a, tokens) for a in c["args"]]))


def initsel(which):
    return {"none": "INone", "core": "ICore", "corens": "ICoreNs", "small": "ISmall"}[which]


def kwargs(kw):
    return ct.lst([ct.pair(ct.s(k), aval(v)) for k, v in kw])


def pobs(o):
    """observed ParseResult -> Coq [pobs]"""
    ctxs = ct.lst([ct.pair(ct.opt(None if n is None else ct.s(n)), kwargs(kw)) for n, kw in o["ctxs"]])
    return "(mkObs %s %s %s)" % (ctxs, ct.strs(o["unparsed"]), ct.s(o["remainder"]))


# --------------------------------------------------------------------------
# generators
# --------------------------------------------------------------------------
TASK_NAMES = ["build", "b", "test", "t", "deploy", "my_task", "a", "x", "clean", "e", "ab", "n"]
PARAM_NAMES = ["name", "num", "n", "v", "verbose", "val", "a_b", "a", "ab", "x", "flag", "lst",
               "opt", "echo", "e", "dry", "f", "T", "c", "my_opt", "b", "abc", "no_x", "h",
               "config", "l", "list", "w", "p",
               # names that collide with parameters of invoke's own call chain (Task.__call__,
               # Executor, Call): a body must still receive them by keyword
               "context", "self", "args", "kwargs", "task"]
STR_VALUES = ["abc", "x", "", "5", "a b", "val", "-5", "meh"]
# characters/shapes that break naive string handling (format(), strip(), replace("_","-"), ...)
HOSTILE = ["{", "}", "{0}", "{name}", "%s", "my_app", " lead", "trail ", "a\nb", "UPPER", "\u00e9t\u00e9", ""]


def gen_default(rng):
    r = rng.random()
    if r < 0.18:
        return {"k": "empty"}
    if r < 0.34:
        return {"k": "none"}
    if r < 0.50:
        return {"k": "str", "v": rng.choice(["dflt", "", "x"])}
    if r < 0.64:
        return {"k": "int", "v": rng.choice([0, 1, 5, -2])}
    if r < 0.76:
        return {"k": "bool", "v": False}
    if r < 0.86:
        return {"k": "bool", "v": True}
    if r < 0.93:
        ty = rng.choice(["float", "float", "float", "complex", "bytes", "date"])
        return {"k": "other", "ty": ty, "src": rng.choice(OTHER_DEFAULT_SRC[ty])}
    return {"k": "list", "v": rng.choice([[], ["p"]])}


def gen_task(rng, name, max_params=5):
    nparams = rng.choice([0, 1, 1, 2, 2, 3, 3, 4, max_params])
    names = rng.sample(PARAM_NAMES, nparams)
    params = []
    seen_default = False
    for pn in names:
        d = gen_default(rng)
        # python syntax: no non-default parameter after a default one
        if seen_default and d["k"] == "empty":
            d = {"k": "none"}
        if d["k"] != "empty":
            seen_default = True
        params.append([pn, d])
    t = {"name": name, "aliases": [], "coll": None, "default": False, "params": params,
         "positional": None, "optional": [], "iterable": [], "incrementable": [],
         "auto_shortflags": rng.random() < 0.8}
    for pn, d in params:
        r = rng.random()
        if d["k"] in ("none", "str", "bool", "int", "other") and r < 0.22:
            t["optional"].append(pn)            # optional value, also on an int / float default
        elif d["k"] in ("none", "str", "empty") and r > 0.97:
            t["incrementable"].append(pn)       # a counter that does not start from a number (F-C07e)
        elif d["k"] in ("none", "empty") and r < 0.40:
            t["iterable"].append(pn)
            if r > 0.36:
                t["optional"].append(pn)       # both optional-value and iterable
        elif d["k"] == "int" and r < 0.5:
            t["incrementable"].append(pn)
        elif d["k"] == "bool" and d["v"] is False and r < 0.3:
            t["incrementable"].append(pn)
    r = rng.random()
    if r < 0.2:
        t["positional"] = []
    elif r < 0.35 and names:
        t["positional"] = rng.sample(names, rng.randint(1, min(2, len(names))))
    return t


def gen_sigs(rng, max_tasks=4, max_params=5):
    """a signature set accepted by invoke (retries until to_contexts() works)"""
    for _ in range(200):
        ntasks = rng.choice([1, 1, 2, 2, 3, max_tasks])
        names = rng.sample(TASK_NAMES, ntasks)
        tasks = [gen_task(rng, nm, max_params) for nm in names]
        pool = [x for x in TASK_NAMES + ["bb", "tt"] if x not in names]
        for t in tasks:
            if rng.random() < 0.3 and pool:
                al = rng.choice(pool)
                pool.remove(al)
                t["aliases"] = [al]
        if ntasks >= 2 and rng.random() < 0.25:
            tasks[-1]["coll"] = "sub"
            tasks[-1]["default"] = rng.random() < 0.5
        sigs = {"tasks": tasks}
        try:
            ctx_specs(sigs)
        except Exception:
            _cache.pop(sig_key(sigs), None)
            continue
        return sigs
    raise RuntimeError("could not generate a valid signature set")


def flag_spellings(spec):
    """every flag / inverse flag spelling of a context spec, with its argspec"""
    from invoke.parser.context import to_flag
    out = []
    for a in spec["args"]:
        for nm in a["names"]:
            out.append((to_flag(nm), a, False))
        if a["kind"] == "KBool" and a["default"] is True:
            out.append((to_flag("no-" + a["names"][0]), a, True))
    return out


def alphabet(specs, init_spec, rng=None):
    """token alphabet derived from the contexts (DESIGN 4, C07)"""
    toks = []
    names = []
    for c in specs:
        names.append(c["name"])
        names.extend(c["aliases"])
    toks.extend(names)
    values = ["abc", "5", "-5", "x", "007", "a b", "+3", "1.5", "010", "0080", "+07", "-0",
              "1234567890123456789", "2.5", "1e3", "3j", "1,5"] + names[:2] + HOSTILE
    toks.extend(values)
    shorts = []
    for c in specs + ([init_spec] if init_spec else []):
        core = c is init_spec
        sp = flag_spellings(c)
        if core and len(sp) > 12:
            keep = {"-T", "--command-timeout", "-e", "--echo", "-f", "--config", "-h", "--help",
                    "-l", "--list", "-d", "--no-dedupe", "-D", "--hide", "-c", "-w"}
            sp = [x for x in sp if x[0] in keep]
        for fl, a, inv in sp:
            toks.append(fl)
            if not fl.startswith("--"):
                shorts.append(fl[1])
            tv = a["kind"] != "KBool" and not a["incrementable"]
            toks.append(fl + "=" + ("5" if a["kind"] == "KInt" else "2.5" if a["kind"] == "KOther" else "v"))
            if tv and a["kind"] in ("KInt", "KOther"):
                # number-looking texts right next to the flags whose type converts them
                toks.append(fl + "=" + (rng.choice(INT_VALUES + OTHER_VALUES) if rng else "007"))
                if not fl.startswith("--"):
                    toks.append(fl + (rng.choice(["007", "0080", "010", "2.5", "1e3"]) if rng else "0080"))
            if tv or (rng and rng.random() < 0.3):
                toks.append(fl + "=")
                toks.append(fl + "=abc")
                toks.append(fl + "=" + (rng.choice(HOSTILE) if rng else "{0}"))
                if fl.startswith("--"):
                    toks.append("--" + fl[2:].replace("-", "_") + "=a_b")
            if not fl.startswith("--"):
                toks.append(fl + "5")
                toks.append(fl + "abc")
                toks.append(fl + fl[1] + fl[1])
    for i, x in enumerate(shorts):
        for y in shorts[i + 1:i + 3]:
            toks.append("-" + x + y)
            toks.append("-" + y + x)
    if len(shorts) >= 3:
        toks.append("-" + "".join(shorts[:3]))
    toks.extend(["--nope", "-z", "-zq", "--nope=1", "-", "--", "", "---", "-=", "--=x", "-a-",
                 "-x=--", "--no-nope", "--{0}", "-{", "--my_opt=a_b", "--NOPE", "-%s"])
    seen, out = set(), []
    for t in toks:
        if t not in seen:
            seen.add(t)
            out.append(t)
    return out


def spell_line(rng, specs, init_spec):
    """a mostly well-formed command line: task names followed by some of their
    arguments in random documented spellings, core flags sprinkled in."""
    argv = []

    def spell_arg(a, fl, inv):
        tv = a["kind"] != "KBool" and not a["incrementable"]
        if not tv:
            if a["incrementable"] and rng.random() < 0.4 and not fl.startswith("--"):
                return ["-" + fl[1] * rng.randint(2, 3)]
            return [fl]
        if a["kind"] == "KInt" and rng.random() < 0.85:
            val = rng.choice(["5", "-3", "42"] + INT_VALUES)
        elif a["kind"] == "KOther" and rng.random() < 0.85:
            val = rng.choice(OTHER_VALUES)
        else:
            val = rng.choice(["abc", "x", "5", "v1", "a b", "-q", "", "build", "t"] + HOSTILE)
        if a["optional"] and rng.random() < 0.4:
            return [fl]
        r = rng.random()
        if r < 0.45:
            return [fl, val]
        if r < 0.75:
            return [fl + "=" + val]
        if not fl.startswith("--"):
            return [fl + val]
        return [fl, val]

    def core_bits():
        if init_spec and rng.random() < 0.25:
            sp = flag_spellings(init_spec)
            fl, a, inv = rng.choice(sp)
            return spell_arg(a, fl, inv)
        return []

    argv += core_bits()
    for _ in range(rng.choice([1, 1, 1, 2, 2, 3])):
        if not specs:
            break
        c = rng.choice(specs)
        argv.append(rng.choice([c["name"]] + c["aliases"]))
        sp = flag_spellings(c)
        pos = [a for a in c["args"] if a["positional"] and a["default"] is None]
        pending_pos = list(pos)
        k = rng.randint(0, min(4, len(sp)))
        chosen = [rng.choice(sp) for _ in range(k)]
        bools = [x for x in chosen if not x[0].startswith("--") and
                 (x[1]["kind"] == "KBool" or x[1]["incrementable"])]
        if len(bools) >= 2 and rng.random() < 0.5:
            argv.append("-" + "".join(x[0][1] for x in bools))
            chosen = [x for x in chosen if x not in bools]
        for fl, a, inv in chosen:
            if pending_pos and rng.random() < 0.5:
                p = pending_pos.pop(0)
                argv.append(rng.choice(["5", "abc", "x", "2.5"] if p["kind"] != "KInt" else ["5", "7", "007", "+07", "0080"]))
            if a in pending_pos:
                pending_pos.remove(a)
            argv += spell_arg(a, fl, inv)
            argv += core_bits()
        for p in pending_pos:
            if rng.random() < 0.85:
                argv.append(rng.choice(["5", "abc", "x", "2.5"] if p["kind"] != "KInt" else ["5", "7", "007", "+07", "0080"]))
    if rng.random() < 0.12:
        argv += ["--"] + [rng.choice(["foo", "--bar", "--", "a b", ""]) for _ in range(rng.randint(0, 3))]
    return argv


def ascii_only_dash_tokens(argv):
    """Non-ASCII text is generated only in plain tokens and after '=': the model's strings are
    UTF-8 bytes, so [token[:2]], [len(token) > 2] and the per-character split of a cluster would
    differ from Python's code points on a dash-token such as '-f\u00e9'.  (Documented limit.)"""
    out = []
    for t in argv:
        if t.startswith("-") and any(ord(ch) > 126 for ch in t.partition("=")[0] if True) :
            head = t.partition("=")[0]
            if any(ord(ch) > 126 for ch in head):
                t = "".join(ch if ord(ch) <= 126 else "e" for ch in head) + t[len(head):]
        out.append(t)
    return out


def mutate_line(rng, argv, alpha):
    argv = list(argv)
    for _ in range(rng.choice([0, 1, 1, 2])):
        r = rng.random()
        if r < 0.3 and argv:
            del argv[rng.randrange(len(argv))]
        elif r < 0.55:
            argv.insert(rng.randint(0, len(argv)), rng.choice(alpha))
        elif r < 0.75 and argv:
            argv[rng.randrange(len(argv))] = rng.choice(alpha)
        elif r < 0.9 and len(argv) >= 2:
            i = rng.randrange(len(argv) - 1)
            argv[i], argv[i + 1] = argv[i + 1], argv[i]
        elif argv:
            i = rng.randrange(len(argv))
            argv.insert(i, argv[i])
    return ascii_only_dash_tokens(argv)


FUZZ_CHARS = "-=abnvT5e x{}%_A\n"


def fuzz_token(rng):
    return "".join(rng.choice(FUZZ_CHARS) for _ in range(rng.randint(0, 6))) or "-"


def int_unsafe(tok):
    """strings Python's int() accepts but the model's parse_int does not
    (whitespace padding, underscores): never generated."""
    for cand in (tok, tok.partition("=")[2], tok[2:]):
        s = cand
        if s != s.strip() and s.strip().lstrip("+-").isdigit():
            return True
        if "_" in s:
            try:
                int(s)
                return True
            except ValueError:
                pass
    return False


# --------------------------------------------------------------------------
# independent re-statement of the naming rule (does not import invoke)
# --------------------------------------------------------------------------
def to_flag_py(name):
    n = name.lstrip("_").rstrip("_").replace("_", "-")
    return ("-" if len(n) == 1 else "--") + n


def spellings_of_arg(a):
    return [to_flag_py(n) for n in a["names"]]


def arg_of_flag(spec, tok):
    for a in spec["args"]:
        if tok in spellings_of_arg(a):
            return a
    return None


def takes_value(a):
    return a["kind"] != "KBool" and not a["incrementable"]


def body_of(argv):
    return argv[:argv.index("--")] if "--" in argv else list(argv)


def spec_by_name(specs, init_spec, name):
    if name is None:
        return init_spec
    for c in specs:
        if c["name"] == name:
            return c
    return None


def has_digit_hazard(tok):
    """True only for tokens on which Python's int() and the model's parse_int could
    differ when the text reaches an int-kind argument: some text derived from the
    token (whole token, parts after '=', glued rest) is accepted by int() although it
    is not of the form [+-]?[0-9]+ (whitespace padding, '1_0', non-ASCII digits).
    Such tokens are never generated; everything else -- braces, '%s', underscores,
    padded words, newlines, upper case, non-ASCII letters -- is fair game."""
    import re
    cands = [tok, tok[2:]]
    t = tok
    while "=" in t:
        t = t.partition("=")[2]
        cands += [t, t[2:]]
    for x in cands:
        try:
            int(x)
        except ValueError:
            continue
        if not re.fullmatch(r"[+-]?[0-9]+", x):
            return True
    return False


# --------------------------------------------------------------------------
# intended invocations, spelling scripts, rendering (shared by C18 and C01)
# --------------------------------------------------------------------------
# invocation = [call]; call = {"task": index into specs, "as": name or alias,
#                              "occs": [occurrence, ...]  (in command-line order)}
# occurrence = {"arg": i, "name": k, "form": FORM, "val": VALUE}
#            | {"cluster": [occurrence, ...]}          (one "-abc" token [+ value])
# FORM  = "bare" (flag alone: bool True / optional-value flag -> True)
#       | "inv"  (--no-x)          | "rep"/"stack" (counter: -v -v / -vv)
#       | "next" (flag value)      | "eq" (flag=value) | "glued" (-xvalue) | "pos" (value alone)
# VALUE = {"b": bool} | {"n": count} | {"s": text} | {"t": True}
PLAIN_VALUES = ["abc", "x1", "v", "hello", "a b", "1.5", "Z", "k=v", "a=b=c",
                "my_app", " lead", "trail ", "{0}", "%s", "a\nb", "\u00e9t\u00e9", "{", ""]
INT_VALUES = ["5", "42", "0", "7", "007", "010", "0080", "+07", "-0", "1234567890123456789"]
# texts for arguments of another type (float, complex, bytes, date): some convert, most do not
OTHER_VALUES = ["2.5", "1.50", "1e3", ".5", "7", "-1.5", "inf", "3j", "1,5", "abc", "", "0x1f", " 2 "]


def is_short(spec_arg, k):
    return not to_flag_py(spec_arg["names"][k]).startswith("--")


def short_index(a):
    for k in range(len(a["names"])):
        if is_short(a, k):
            return k
    return None


def required_positionals(c):
    return [i for i, a in enumerate(c["args"]) if a["positional"] and a["default"] is None
            and not (a["kind"] == "KList") and not a["incrementable"]]


def positional_slots(c):
    """positional parameters a value can be given to by position, in declaration order --
    with or without a default (Spec/C01Spec.v positional_slot)"""
    return [i for i, a in enumerate(c["args"]) if a["positional"] and takes_value(a)
            and a["kind"] != "KList"]


def gen_value(rng, a, task_words, dash_values):
    if a["kind"] == "KInt":
        if dash_values and rng.random() < 0.3:
            return rng.choice(["-3", "-12", "+4"])
        return rng.choice(INT_VALUES)
    if a["kind"] == "KOther":
        # texts the argument's own type converts (none at all for bytes / date: such an
        # argument cannot be given a value on the command line)
        cands = [v for v in OTHER_VALUES if cast_outcome(a["kind_name"], v) not in ("V", "T")
                 and (dash_values or not v.startswith("-"))]
        return rng.choice(cands) if cands else None
    if dash_values and rng.random() < 0.25:
        return rng.choice(["-q", "-5", "--zz", "-xyz", "-"])
    if rng.random() < 0.12 and task_words:
        return rng.choice(sorted(task_words))      # a value equal to a task name / alias
    v = rng.choice(PLAIN_VALUES + ["5"])
    return v


def gen_occurrences(rng, c, specs, dash_values=False, mention=0.55):
    """admissible occurrences for one call of context spec c, in final order"""
    words = set()
    for s in specs:
        words.add(s["name"])
        words.update(s["aliases"])
    req = required_positionals(c)
    occs = []
    for i, a in enumerate(c["args"]):
        if i not in req and rng.random() > mention:
            continue
        k = rng.randrange(len(a["names"]))
        sk = short_index(a)
        tv = takes_value(a)
        if a["incrementable"]:
            if not isinstance(a["default"], (int, bool)) or a["default"] is None:
                continue
            for _ in range(rng.choice([1, 1, 2])):
                if sk is not None and rng.random() < 0.6:
                    occs.append({"arg": i, "name": sk, "form": "stack", "val": {"n": rng.randint(1, 3)}})
                else:
                    occs.append({"arg": i, "name": k, "form": "rep", "val": {"n": rng.randint(1, 2)}})
        elif not tv:
            inv_fl = to_flag_py("no-" + a["names"][0])
            clash = any(inv_fl in spellings_of_arg(b) for b in c["args"])
            if a["kind"] == "KBool" and a["default"] is True and not clash and rng.random() < 0.7:
                occs.append({"arg": i, "name": 0, "form": "inv", "val": {"b": False}})
            else:
                occs.append({"arg": i, "name": k, "form": "bare", "val": {"b": True}})
        else:
            n = rng.choice([1, 2, 3]) if a["kind"] == "KList" else 1
            for _ in range(n):
                if a["optional"] and a["kind"] != "KList" and i not in req and rng.random() < 0.45:
                    occs.append({"arg": i, "name": k, "form": "bare", "val": {"t": True}})
                    continue
                v = gen_value(rng, a, words, dash_values and not a["optional"])
                if v is None:
                    continue
                forms = ["next", "eq"]
                if sk is not None:
                    forms.append("glued")
                if i in req:
                    forms += ["pos", "pos", "pos"]
                elif i in positional_slots(c):
                    forms += ["pos", "pos"]       # a positional that declares a default (F-C01c)
                form = rng.choice(forms)
                if i in req and a["optional"]:
                    # a value-optional positional can only be given positionally
                    form = "pos"
                    v = rng.choice(PLAIN_VALUES)
                kk = sk if form == "glued" else k
                occs.append({"arg": i, "name": kk, "form": form, "val": {"s": v}})
    rng.shuffle(occs)
    return fix_order(c, occs, words)


def fix_order(c, occs, words):
    """enforce the admissibility side conditions that depend on order"""
    req = required_positionals(c)
    out, deferred = [], []
    given = set()

    def first_missing():
        for i in req:
            if i not in given:
                return i
        return None

    slots = positional_slots(c)

    def first_slot():
        for i in slots:
            if i not in given:
                return i
        return None

    pending = list(occs)
    flushed = False
    while pending or deferred:
        if not pending:
            # only value-optional occurrences are left: required ones first, in declared order
            pending = sorted(deferred, key=lambda o: (o["arg"] not in req, o["arg"]))
            deferred = []
            flushed = True
        o = pending.pop(0)
        a = c["args"][o["arg"]]
        if o["form"] == "pos":
            if first_slot() != o["arg"] or o["arg"] in given:
                o = dict(o, form="next")
        if a["optional"] and takes_value(a) and first_missing() is not None \
                and first_missing() != o["arg"] and not flushed:
            deferred.append(o)      # optional-value flags only once no positional is missing
            continue
        if a["optional"] and takes_value(a) and o["arg"] in req and o["arg"] not in given \
                and first_missing() == o["arg"]:
            o = dict(o, form="pos")
        out.append(o)
        if takes_value(a) and ("s" in o["val"] or "t" in o["val"]):
            given.add(o["arg"])
        if first_missing() is None and deferred:
            pending = deferred + pending
            deferred = []
    # values that would be misread: glued/next/pos values must be safe for their form
    res = []
    for o in out:
        a = c["args"][o["arg"]]
        if "s" in o["val"]:
            v = o["val"]["s"]
            if o["form"] == "pos" and v.startswith("-"):
                o = dict(o, form="eq")
            if o["form"] in ("next", "pos") and (v in words):
                if a["optional"] or o["form"] == "pos" and False:
                    o = dict(o, form="eq")
            if o["form"] == "glued" and (v == "" or v.startswith("=")):
                o = dict(o, form="eq")
            if o["form"] == "next" and a["optional"] and (v.startswith("-") or v in words):
                o = dict(o, form="eq")
            if a["optional"] and o["val"]["s"] in words:
                o = dict(o, val={"s": o["val"]["s"] + "_"})
        res.append(o)
    return res


def render_occ(c, o):
    if "cluster" in o:
        letters = ""
        tail = []
        for m in o["cluster"]:
            a = c["args"][m["arg"]]
            ch = to_flag_py(a["names"][m["name"]])[1]
            if m["form"] == "stack":
                letters += ch * m["val"]["n"]
            elif m["form"] == "next":
                letters += ch
                tail = [m["val"]["s"]]
            else:
                letters += ch
        return ["-" + letters] + tail
    a = c["args"][o["arg"]]
    fl = to_flag_py(a["names"][o["name"]])
    f = o["form"]
    if f == "bare":
        return [fl]
    if f == "inv":
        return [to_flag_py("no-" + a["names"][0])]
    if f == "rep":
        return [fl] * o["val"]["n"]
    if f == "stack":
        return ["-" + fl[1] * o["val"]["n"]]
    v = o["val"]["s"]
    if f == "next":
        return [fl, v]
    if f == "eq":
        return [fl + "=" + v]
    if f == "glued":
        return [fl + v]
    if f == "pos":
        return [v]
    raise ValueError(f)


def cluster_pass(rng, c, occs, p=0.5):
    """merge runs of short bare booleans / stacked counters into one '-abc' token,
    optionally ending in a value flag whose value is the next token"""
    out = []
    i = 0
    while i < len(occs):
        run = []
        j = i
        while j < len(occs):
            o = occs[j]
            a = c["args"][o["arg"]]
            ok = (o["form"] == "bare" and "b" in o["val"] and is_short(a, o["name"])) or o["form"] == "stack"
            if not ok:
                break
            run.append(o)
            j += 1
        if len(run) >= 2 and rng.random() < p:
            members = list(run)
            if j < len(occs) and rng.random() < 0.3:
                o = occs[j]
                a = c["args"][o["arg"]]
                if o["form"] == "next" and is_short(a, o["name"]) and not a["optional"] \
                        and not o["val"]["s"].startswith("-"):
                    members.append(o)
                    j += 1
            out.append({"cluster": members})
            i = j
        else:
            out.append(occs[i])
            i += 1
    return out


def gen_invocation(rng, specs, dash_values=False, max_calls=3, clusters=True):
    calls = []
    n = rng.choice([1, 1, 2, 2, 3][:2 + max_calls])
    for ci_ in range(n):
        ci = rng.randrange(len(specs))
        c = specs[ci]
        occs = gen_occurrences(rng, c, specs, dash_values)
        if clusters:
            occs = cluster_pass(rng, c, occs)
        calls.append({"task": ci, "as": rng.choice([c["name"]] + c["aliases"]), "occs": occs})
    # a bare optional-value flag must not be followed by a task name or a positional value
    for idx, call in enumerate(calls):
        c = specs[call["task"]]
        for _ in range(6):
            occs = call["occs"]
            changed = False
            for k, o in enumerate(occs):
                if "cluster" in o or not (o["form"] == "bare" and "t" in o["val"]):
                    continue
                last = k == len(occs) - 1
                nxt_pos = (not last) and "cluster" not in occs[k + 1] and occs[k + 1]["form"] == "pos"
                if (last and idx < len(calls) - 1) or nxt_pos:
                    a = c["args"][o["arg"]]
                    if a["kind"] == "KOther" and cast_outcome(a["kind_name"], "7") in ("V", "T"):
                        # no text converts (bytes, date): leave the flag out
                        call["occs"] = occs[:k] + occs[k + 1:]
                    else:
                        call["occs"] = occs[:k] + [dict(o, form="eq", val={
                            "s": "7" if a["kind"] in ("KInt", "KOther") else "ov"})] + occs[k + 1:]
                    changed = True
                    break
            if not changed:
                break
    return calls


def spell_groups(specs, inv):
    groups = []
    for call in inv:
        c = specs[call["task"]]
        groups.append([call["as"]])
        for o in call["occs"]:
            groups.append(render_occ(c, o))
    return groups


def flat_occs(occs):
    for o in occs:
        if "cluster" in o:
            for m in o["cluster"]:
                yield m
        else:
            yield o


def expected_calls(specs, inv):
    """[(primary name, [[param, value], ...])]: declared defaults, overridden by the
    intended values typed by kind"""
    out = []
    for call in inv:
        c = specs[call["task"]]
        vals = {}
        for i, a in enumerate(c["args"]):
            vals[i] = a["default"]
            if a["kind"] == "KList" and not isinstance(a["default"], list) and not a["incrementable"]:
                vals[i] = []
        lists = {}
        for o in flat_occs(call["occs"]):
            a = c["args"][o["arg"]]
            v = o["val"]
            if "n" in v:
                cur = vals[o["arg"]]
                vals[o["arg"]] = int(cur) + v["n"]
            elif "b" in v:
                vals[o["arg"]] = v["b"]
            elif "t" in v:
                vals[o["arg"]] = True
            else:
                s = v["s"]
                if a["kind"] == "KList":
                    lists.setdefault(o["arg"], []).append(s)
                elif a["kind"] == "KInt":
                    vals[o["arg"]] = int(s)
                elif a["kind"] == "KBool":
                    vals[o["arg"]] = bool(s)
                elif a["kind"] == "KOther":
                    try:
                        vals[o["arg"]] = other_repr(OTHER_KINDS[a["kind_name"]](s))
                    except (ValueError, TypeError):
                        vals[o["arg"]] = None      # inadmissible (the Coq [admissible] decides)
                else:
                    vals[o["arg"]] = s
        for i, l in lists.items():
            vals[i] = {"list": l}
        kw = []
        for i, a in enumerate(c["args"]):
            nm = a["attr_name"] or a["names"][0]
            v = vals[i]
            if isinstance(v, list):
                v = {"list": [x if isinstance(x, str) else repr(x) for x in v]}
            kw.append([nm, v])
        out.append([c["name"], kw])
    return out


WILD_VALUES = ["abc", "-x", "--zz", "-xyz", "-", "--", "", "5", "-5", "k=v", "=v", "a b", "--no-x",
               "{0}", "%s", "my_app", " lead", "trail ", "a\nb", "-{", "--a_b"]


def gen_wild_invocation(rng, specs, max_calls=3):
    """occurrences with arbitrary forms/values/order: probes the boundary of the
    side condition (most of these are inadmissible; the Coq [admissible] decides)"""
    words = []
    for s in specs:
        words.append(s["name"])
        words.extend(s["aliases"])
    calls = []
    for _ in range(rng.choice([1, 1, 2, 3][:1 + max_calls])):
        ci = rng.randrange(len(specs))
        c = specs[ci]
        occs = []
        for i, a in enumerate(c["args"]):
            if rng.random() < 0.45:
                continue
            for _ in range(rng.choice([1, 1, 1, 2])):
                k = rng.randrange(len(a["names"]))
                sk = short_index(a)
                if a["incrementable"]:
                    form = rng.choice(["rep", "stack"]) if sk is not None else "rep"
                    occs.append({"arg": i, "name": sk if form == "stack" else k, "form": form,
                                 "val": {"n": rng.randint(1, 3)}})
                elif not takes_value(a):
                    if a["kind"] == "KBool" and a["default"] is True and rng.random() < 0.6:
                        occs.append({"arg": i, "name": 0, "form": "inv", "val": {"b": False}})
                    else:
                        occs.append({"arg": i, "name": k, "form": "bare", "val": {"b": True}})
                else:
                    if a["optional"] and rng.random() < 0.4:
                        occs.append({"arg": i, "name": k, "form": "bare", "val": {"t": True}})
                        continue
                    if a["kind"] == "KInt":
                        v = rng.choice(INT_VALUES + ["-3", "+4", "abc", ""])
                    elif a["kind"] == "KOther":
                        v = rng.choice(OTHER_VALUES + ["-x", "k=v"])
                    else:
                        v = rng.choice(WILD_VALUES + PLAIN_VALUES + words[:3])
                    forms = ["next", "eq"] + (["glued"] if sk is not None else []) + \
                        (["pos", "pos"] if a["positional"] else [])
                    form = rng.choice(forms)
                    occs.append({"arg": i, "name": sk if form == "glued" else k, "form": form, "val": {"s": v}})
        rng.shuffle(occs)
        if rng.random() < 0.5:
            occs = cluster_pass(rng, c, occs, p=0.8)
        calls.append({"task": ci, "as": rng.choice([c["name"]] + c["aliases"]), "occs": occs})
    return calls


# --------------------------------------------------------------------------
# effects: the real Program.run, task bodies record what they see
# --------------------------------------------------------------------------
def build_recording_collection(sigs, rec):
    """as build_collection, but every task body appends
    (cli name, kwargs it received, the settings it sees) to [rec]"""
    from invoke import Collection, task
    root = Collection()
    subs = {}
    for t in sigs["tasks"]:
        params = ["c"]
        names = []
        for pname, d in t["params"]:
            src = default_src(d)
            params.append(pname if src is None else "%s=%s" % (pname, src))
            names.append(pname)
        cli = t["name"].replace("_", "-")
        if t.get("coll"):
            cli = t["coll"].replace("_", "-") + "." + cli
        code = ("def _body(%s):\n"
                "    _rec.append([%r, [[n, _canon(v)] for n, v in [%s]], _cfg(c)])\n"
                % (", ".join(params), cli, ", ".join("(%r, %s)" % (n, n) for n in names)))
        ns = {"_rec": rec, "_canon": canon_val, "_cfg": seen_config}
        exec(code, ns)
        kwargs = dict(name=t["name"], aliases=tuple(t.get("aliases", ())),
                      optional=tuple(t.get("optional", ())), iterable=tuple(t.get("iterable", ())),
                      incrementable=tuple(t.get("incrementable", ())),
                      auto_shortflags=t.get("auto_shortflags", True))
        if t.get("positional") is not None:
            kwargs["positional"] = tuple(t["positional"])
        tk = task(**kwargs)(ns["_body"])
        cname = t.get("coll")
        if cname:
            subs.setdefault(cname, Collection(cname)).add_task(tk, default=bool(t.get("default")))
        else:
            root.add_task(tk)
    for sub in subs.values():
        root.add_collection(sub)
    return root


def seen_config(c):
    cfg = c.config
    return {"echo": cfg.run.echo, "warn": cfg.run.warn, "hide": cfg.run.hide, "pty": cfg.run.pty,
            "dry": cfg.run.dry, "dedupe": cfg.tasks.dedupe, "timeout": cfg.timeouts.command,
            # a key only the runtime configuration file (-f/--config) defines
            "marker": cfg["verif_marker"] if "verif_marker" in cfg else None,
            # what --prompt-for-sudo-password stored (getpass is patched in run_effects)
            "sudo_password": cfg.sudo.password}


SUDO_PASSWORD = "pw-verif"
_runtime_file = []


def runtime_marker_file():
    """a runtime configuration file (for -f/--config) that defines one key the task bodies read"""
    if not _runtime_file:
        import tempfile
        d = tempfile.mkdtemp(prefix="verif-rt-")
        path = os.path.join(d, "rt.yaml")
        with open(path, "w") as f:
            f.write("verif_marker: from-runtime-file\n")
        _runtime_file.append(path)
    return _runtime_file[0]


def run_effects(sigs, argv):
    """Program.run(argv) in task-runner mode (all core options available) on a
    collection of recording tasks.  Returns what the bodies saw and how it ended."""
    import contextlib
    import io

    def go():
        from invoke import Program
        rec = []
        coll = build_recording_collection(sigs, rec)

        class P(Program):
            def load_collection(self):
                self.collection = coll
        p = P(version="9.9.9-verif")
        out, err = io.StringIO(), io.StringIO()
        exc = None
        saved = os.environ.copy()
        import getpass
        saved_getpass = getpass.getpass
        getpass.getpass = lambda prompt=None, stream=None: SUDO_PASSWORD
        try:
            with contextlib.redirect_stdout(out), contextlib.redirect_stderr(err):
                try:
                    p.run(["inv"] + list(argv), exit=True)
                except SystemExit as e:
                    exc = "SystemExit:%s" % (e.code,)
                except _Timeout:
                    raise
                except BaseException as e:  # noqa
                    exc = type(e).__name__
        finally:
            getpass.getpass = saved_getpass
            os.environ.clear()
            os.environ.update(saved)
        rem = None
        try:
            rem = p.core.remainder
        except Exception:
            pass
        return {"calls": rec, "exc": exc, "version_printed": "9.9.9-verif" in out.getvalue(),
                "remainder": rem, "stdout": out.getvalue()}
    return with_timeout(go, 20)
